#!/usr/bin/env python3
"""Regenerates MANIFEST.json from the table below (single source of truth for claims)."""
import json, os
VERIF = os.path.dirname(os.path.dirname(os.path.abspath(__file__)))

TECH_M = 'MIR-to-SMT symbolic execution of the real functions (binding audit: callees uninterpreted, z3 decides path feasibility and the negated requirement per path)'
CLAIMS = {
 'C01': dict(
   text='Bounded symbolic verification (binding audit): every acyclic path of decode_compact/flattened/general, expand_payload, decode_signature, DecodedHeaders, '
        'JwsValidationItem::verify and Jwk::check_alg is executed from the freshly dumped MIR with callee results unconstrained; z3 decides per requirement whether a '
        'feasible accepting path exists that does not bind signing input / signature / claims / alg / key to the bytes received. Candidates are replayed natively.'
        " Also: the bundled ECDSA / EdDSA verifiers dispatch on input.alg only; JwsValidationItem::nonce/kid/alg/protected_header are the protected header's values; the general-serialization iterator is audited end-to-end with its helpers inlined. jwu::decode_b64 / encode_b64 (and their JSON forms) are exactly the strict Base64Url engine on the whole input; the scheme verifiers hand the whole decoded signature and the item's signing input to the primitive and build EC keys from the uncompressed point of both JWK coordinates; create_message is header, '.', payload byte for byte; C03's verify_jws obligation re-used. Round 6: JwsAlgorithm::name() returns the registered name of each variant (per-variant kernel against the RFC table).",
   note='Trusted: rustc MIR dump, mir2smt and its core-function models, z3. Outside: serde parsing, the cryptography inside the verifiers, the multibase Base64Url engine itself.',
   technique=TECH_M, ref='DESIGN.md section 2 C01'),
 'C02': dict(
   text='Binding audit of validate / verify_signature_with_verifier / parse_jwk / verify_decoded_signature plus semantic evaluation of the validation-unit iterator '
        'chain of validate_decoded_credential over all unit outcomes, fail-fast modes and option presences (222 paths): accepted iff every unit passed, errors identify failures.'
        ' Unit bodies audited: Credential::check_structure (base context first, base type, a subject), check_status (skip rules), check_revocation_bitmap_status, check_subject_holder_relationship (subject id present and equal); C07 numeric-date obligation re-used. Round 6: extract_issuer / extract_issuer_from_jwt parse the whole issuer URL as a DID; C04\'s DIDUrlQuery did_str / fragment obligations re-used.',
   note='Trusted as C01. Includes the credential check_consistency audit (every member repeated inside vc agrees with its registered claim). Outside: JSON, crypto, resolve_method (C04, re-used for the scoped lookup).',
   technique=TECH_M, ref='DESIGN.md section 2 C02'),
 'C03': dict(
   text='Binding audit of JwtPresentationValidator::validate (all 100+ paths, closures inlined) and CoreDocument::verify_jws: accepted only with verify_jws on the holder '
        'document, iss == document id, inclusive exp/issuance bounds against the right options, consistency conversion, returned values are the signed ones. Round 6: C04\'s DIDUrlQuery did_str / fragment obligations re-used (kid with a foreign or malformed DID part never matches by fragment).',
   note='Trusted as C01. Includes the vp.id/vp.holder consistency audit of PresentationJwtClaims::check_consistency. Outside: JSON, crypto, resolve_method (C04).',
   technique=TECH_M, ref='DESIGN.md section 2 C03'),
 'C04': dict(
   text='M: one inductive step of every checked mutator and resolver of CoreDocument from an arbitrary document (sets opaque): which of the seven sets is touched '
        'for which scope/relationship under which guard, refused operations perform no mutation, scoped/unscoped resolution order, query matching; '
        'constructor gate check_id_constraints with its loops unrolled twice (every id read is recorded in / checked against the identifier map); insert_method asks every relationship set by query.'
        ' Also remove_method_and_scope (loop unrolled 6x) and the DIDUrlQuery conversions from typed values (the query carries the whole text). Round 6: DIDUrlQuery::did_str / fragment (the scheme prefix alone decides whether a query has a DID part); C19\'s OrderedSet::try_from<Vec>, OneOrSet::deserialize and derived-Serialize obligations re-used (accepted documents have no duplicate inside a collection; one-or-set members are written in the variant they were read in).',
   note='Trusted as C01. Outside: JSON round trip, OrderedSet operations (C19), whole-document invariant beyond 2 entries per loop.',
   technique=TECH_M, ref='DESIGN.md section 2 C04'),
 'C05': dict(
   text='M panic-reachability sweep: 67 parsing / decoding / validating entry points (incl. SD-JWT VC claim paths / token validation, the claims constructors behind serialize_jwt, the bundled Ed25519 / ES256 / ES256K verifiers, and - in fault-schedule mode - the seven async SD-JWT VC functions) executed symbolically from MIR with callee results unconstrained; every MIR assert '
        '(overflow, index, slice), every unwrap/expect on a callee outcome and every panic-capable std callee (Index/IndexMut, split_at, copy_from_slice, Vec/String index operations, date-time arithmetic, RefCell, char boundaries of str/String byte offsets, conversions into fixed-size GenericArrays) whose precondition the path does not imply is a panic outcome; same-file helpers are inlined; reachable ones must be on the explicit contract list (each with the '
        'obligation establishing it). Complements the precise panic-freedom obligations of C12 (status list) and the K range-gate harnesses of C13.',
   note='Trusted as C01. Outside: panics inside non-inlined third-party callees (serde_json, did_url_parser beyond its cursor kernel, time, url, flate2, roaring), serde derives, async metadata fetching of SD-JWT VC.',
   technique=TECH_M, ref='DESIGN.md section 2 C05'),
 'C06': dict(
   text='M: the legacy-format detector literal (read from the MIR) decided by z3 against the Base64Url text of every zlib default-compression stream (symbolic first deflate '
        'byte) and of its legacy double encoding; binding audit of the encode/decode pipeline, endpoint prefix handling, the document read-modify-write, the per-index '
        'revoke/unrevoke closures (lists <= 2) and revoked-iff-member in the status check.'
        " Also: compress_zlib uses the default compression level on every path (the detector's premise); the revoke/unrevoke closures iterate the listed indices and touch the bitmap only per index; deserialize_slice / serialize_vec are exactly roaring's reader / writer on the whole data; decompress_zlib is the streaming decoder run to the end; the bitmap service is looked up by the whole status id; C02's status-unit obligation is re-used; try_index_to_u32 is exactly u32::from_str and RevocationBitmapStatus::try_from scans every query pair. Round 6: IotaDocument::revoke_credentials / unrevoke_credentials forward both arguments to the core document on every path and return its outcome.",
   note='Trusted as C01. Outside: roaring set semantics and serialisation, zlib, base64 codec; large sets are exercised only by the native confirmation battery.',
   technique='SMT query over the symbolic deflate byte (z3, bit-vector base64 model) + ' + TECH_M, ref='DESIGN.md section 2 C06'),
 'C07': dict(
   text='M: losslessness as wiring - for every credential/presentation field the claims location written by `new` equals the location read by try_into_*, '
        'duplicated members are omitted from vc/vp, dates pass through to_unix/from_unix; binding audit of both check_consistency functions (every duplicated '
        'member compared with its registered claim) and of nbf-else-iat through the year gate.'
        " Also: optional members keep their presence (source forced to Some(_)), presentation option members are present exactly when the option is, a re-shaped value on the way back is a violation, equality of the credential / presentation types is the derived structural one, the claims types have no custom per-field deserialiser, Url equality is whole text against whole text, and C03's validate obligation for the presentation dates.",
   note='Trusted as C01. Outside: the JSON text form (serde attributes), multi-subject credentials, to_unix/from_unix inverse (C13).',
   technique=TECH_M, ref='DESIGN.md section 2 C07'),
 'C08': dict(
   text='M: mirror image of C01 on the producing side - the three encoders sign create_message(protected segment placed in the token, payload placed in the token), '
        'emit exactly those strings plus base64url(signature), prepare the payload by b64 of the protected header, validate unencoded compact payloads; '
        'RFC 7797 5.2 character-set kernels over every char.'
        ' K: CharSet::validate on every 1- and 2-byte string for both sets. Re-used obligations: C11 general-encoder, C01 item accessors and codec binding, C03 verify_jws, C04 resolve_method. M (fault-schedule mode): the storage-backed JwkDocumentExt::create_jws - on every successful path of the async body the protected header is exactly what the options ask for, the key id is looked up for the resolved method, the signer gets that key id and the encoder signing input, the token is the encoder output; header Serialize skips members only when absent. Round 6: JwsVerificationOptions builder methods store Some(argument) in their own field and pass the others on.',
   note='Trusted as C01. Outside: serde_json text of flattened/general envelopes (a JSON-escaping defect observed natively is described in DESIGN.md), '
        'create_credential_jwt / create_presentation_jwt (claim serialisation in front of create_jws), real signatures.',
   technique='Kani/CBMC bounded model checking of the compiled functions on short symbolic inputs + ' + TECH_M, ref='DESIGN.md section 2 C08'),
 'C09': dict(
   text='M over the async state machines: generate_method / purge_method / try_undo_key_generation (CoreDocument and IotaDocument) executed symbolically from their '
        'initial state with every storage-call result unconstrained - the fault schedule is a set of symbolic variables and every subset of failing calls is a path. '
        'Success only with method + key + key id in place; every plain error undoes key generation / restores the document and key id; UndoOperationFailed only in '
        'the documented patterns; rollback completeness against what remove_method_and_scope destroys.'
        ' Failures of the document insertion / method construction are in scope; an ignored clean-up outcome is a violation; C04 insert_method guard and remove_method_and_scope re-used. Round 6: C04\'s resolve_method / DIDUrlQuery obligations re-used (a generated method resolves in every scope).',
   note='Trusted as C01; awaited futures complete on first poll (no interleaving inside join!). Outside: real stores (C15), non-storage failures, insert/remove_method themselves (C04).',
   technique='MIR-to-SMT symbolic execution of the compiled async state machines (fault schedule as symbolic callee outcomes, z3 path feasibility)', ref='DESIGN.md section 2 C09'),
 'C10': dict(
   text='M kernels: the five DID character classes equal the W3C/RFC 3986 ABNF sets for every Unicode scalar value; M audit: every constructor of the plain DID type '
        'passes check_validity, DID-URL split validates and clears parts, join/setters validate before mutating; K (thorough): local validators on 3 symbolic bytes.'
        " M kernels: is_valid_url_segment = *(pct-encoded | P) for every printable-ASCII string of 1..5 bytes and every predicate; the third-party did_url_parser's method-id cursor for ids <= 3 bytes (known finding: escape at the end overruns). K: valid_method_id on every ASCII string of length 0..3 and valid_method_name on lengths 0, 3 against the full W3C ABNF (known finding: trailing colon). M: valid_method_id / valid_method_name as scanners on every printable-ASCII string of length 0..4 against the ABNF; derived Deserialize of CoreDID / DIDUrl produces a value only through the validating TryFrom; DIDJwk::from_str parses the whole text as a plain DID.",
   note='Trusted as C01 plus Kani/CBMC. Outside: the third-party did_url_parser on multi-position adversarial strings (its %XX index bug is described in DESIGN.md), did:jwk.',
   technique='Kani/CBMC bounded model checking of the compiled functions on short symbolic inputs + ' + TECH_M + '; Kani/CBMC harnesses for the loop-carrying validators', ref='DESIGN.md section 2 C10'),
 'C11': dict(
   text='M: validate_jws_headers is the conjunction of its three validators on (protected, unprotected); is_disjoint formulas over all presence patterns of all header '
        'fields; validate_b64; encoder gates; recipient b64 agreement. K: validate_crit decision table per concrete crit list with symbolic header presence bits.'
        " Re-used: C01's verify obligation (alg only from the protected header). is_custom_disjoint compares custom parameters by name only (loop unrolled twice). Round 6: the JOSE header types are read by the derived deserialiser with no per-field helper.",
   note='Trusted as C01 plus Kani/CBMC. Outside: header parameter values, custom-parameter maps.',
   technique=TECH_M + '; Kani/CBMC for validate_crit', ref='DESIGN.md section 2 C11'),
 'C12': dict(
   text='Bounded symbolic verification: StatusList2021::{set,get,len} translated from the freshly dumped MIR into SMT (arrays + bit-vectors) and '
        'decided by z3 (cvc5 cross-check) for a list of ANY length <= 2^60 bytes, every usize index and both values: panic freedom, Ok iff in range, '
        'read-after-write equals the bit-vector model for every other index; one-way revocation through MutStatusList and the credential. Counterexamples are replayed natively.'
        ' Also: try_from_encoded_str = base64 -> gunzip -> read_to_end uncapped; check_status_with_status_list_2021 compares list id and purpose before reading the entry; StatusList2021Credential::update applies the caller function once and always stores the re-encoded list; into_inner replaces the subject as a whole. Round 6: StatusList2021::new refuses exactly below the minimum size and otherwise allocates exactly ceil(n/8) zero bytes for every n (128-bit identity); the status evaluation returns Ok without reading the list only for SkipAll or a credential without status.',
   note='Trusted: rustc MIR dump, the mir2smt translator and its models of the listed core functions, z3/cvc5. Outside: gzip+base64 encoding (uninterpreted codec pair), '
        'check_status_with_status_list_2021.',
   technique='MIR-to-SMT symbolic execution (path enumeration, z3 verdict per path); Kani/CBMC harnesses on the public API',
   ref='DESIGN.md section 2 C12'),
 'C13': dict(
   text='K: range gate, unix round trip, order and checked arithmetic for all seconds in windows round both range ends and 0; M: every constructor (parse, serde, FromStr, '
        'checked_add/sub) routes through the range gate and none uses a panicking offset conversion.'
        ' M kernel: Duration unit constructors = count x unit over all 2^32 counts; a missing validating serde conversion is a candidate confirmed natively; checked_add / checked_sub return None only when the date arithmetic or the range gate refused; Display / Debug / String::from / Serialize are to_rfc3339. Round 6: also in the opaque and_then form, checked_add / checked_sub pass the sum through the seconds-truncating range gate.',
   note='Trusted as C01 plus Kani/CBMC. Outside: RFC 3339 text parser/formatter of the time crate, mid-range dates.',
   technique='Kani/CBMC over the compiled code in stated windows; ' + TECH_M, ref='DESIGN.md section 2 C13'),
 'C14': dict(
   text='M: StateMetadataDocument::unpack decided byte-precisely for inputs of every length (marker, version, encoding, 16-bit LE length, exact body slice, trailing bytes '
        'ignored, no panic); add_flags_to_message header bytes and 16-bit gate; rebasing closures rewrite only the placeholder / self id and are wired to the right fields.'
        ' Also: DIDUrl / VerificationMethod / MethodRef / Service map and try_map and CoreDocumentData::try_map; the self-reference test compares whole identifiers; derived Serialize skips members only by is_none / is_empty; CoreDocument::try_map / map_unchecked forward the four functions in their roles; pack clears only the two ledger address fields; C04 gate obligations re-used. Round 6: IotaDocument::unpack_from_output produces the empty document only for empty metadata and returns every unpack error (candidate without native scenario = inconclusive: the replay crate is built without the ledger client).',
   note='Trusted as C01. Outside: JSON body.',
   technique='Kani/CBMC bounded model checking of the compiled functions on short symbolic inputs + ' + TECH_M, ref='DESIGN.md section 2 C14'),
 'C17': dict(
   text='M kernels: network-name character class == [a-z0-9] for every char and the 1..6 length gate; M audit: every constructor reaches try_from_core, which '
        'lower-cases, validates method == iota / 32-byte prefixed-hex tag component / network component and removes exactly the default network; component accessors recompose the method id.'
        " K: validate_network_name on every ASCII string of length 0, 6, 7 (thorough: 1, 3). Infallible constructors return what parse accepted; C10's CoreDID gate obligations re-used; eq / ord / hash of IotaDID and CoreDID are the derived structural impls; NetworkName::try_from stores what it validated; IotaDID deserialises only through TryFrom<CoreDID>. Round 6: network_str / tag_str are the two halves of denormalized_components(method id) on every path; Ord / Hash agreement with equality in the native battery.",
   note='Trusted as C01. Outside: to_lowercase / prefix_hex internals, the generic parser (C10), equality <=> (network, tag bytes): normal form, default network omitted and derived comparison are decided, the implication is argued.',
   technique='Kani/CBMC bounded model checking of the compiled functions on short symbolic inputs + ' + TECH_M, ref='DESIGN.md section 2 C17'),
 'C18': dict(
   text='M kernels over all presence patterns: per-family to_public drops exactly the private members and keeps the public ones, is_public iff no private member, '
        'family dispatch, kty/params coherence in new/from_params/set_kty/set_params, idempotence of the projection on key_ops (closure evaluated symbolically twice), '
        'thumbprint template = RFC 7638/8037 required members in lexicographic order, VerificationMethod::from_builder rejects non-public JWKs.'
        ' from_builder accepts a JWK only on is_public() == true; the json-proof-token conversion declares the family of the parameters it builds. Round 6: C20\'s did:jwk expansion obligations re-used (the expanded method comes from VerificationMethod::try_from(DIDJwk) -> new_from_jwk, the guarded constructor).',
   note='Trusted as C01. Outside: serde untagged deserialisation, SHA-256, generated keys, member values.',
   technique='Kani/CBMC bounded model checking of the compiled functions on short symbolic inputs + ' + TECH_M, ref='DESIGN.md section 2 C18'),
 'C19': dict(
   text='K: OrderedSet<u8> append / prepend / remove as one inductive step from every duplicate-free state of the concrete length in the harness name (append, remove <= 3; prepend <= 2) with '
        'arbitrary arguments against a list model, TryFrom<Vec>/FromIterator on 3 arbitrary elements; M: OneOrSet::new_set / map / try_map and OneOrMany::from<Vec> normalisation, '
        'OneOrSet array deserialisation through the duplicate-rejecting constructor plus non-emptiness, OrderedSet derived Deserialize through TryFrom<Vec>, and OrderedSet::change '
        '(replace/update) restricted to order-preserving vector operations (binding audit; its full list semantics is out of CBMC reach: 20-30 minute caps at length 1); replace / update are exactly one change call with a key predicate; TryFrom<Vec> inserts element-wise through append; OneOrSet::append leaves the collection untouched on a refused duplicate; OneOrMany::from_iter normalises through From<Vec>; OrderedSet::remove / prepend keep the order of the rest; OneOrMany::push decides by emptiness. Round 6: OneOrMany is read by the derived deserialiser without a per-variant helper; OneOrSet\'s Serialize is the derived one.',
   note='Trusted as C01 plus Kani/CBMC. Outside: sets longer than the harness length, replace/update list semantics beyond the binding audit and the native battery, serde text forms, OneOrMany::push.',
   technique='Kani/CBMC bounded model checking of one inductive step per operation + ' + TECH_M, ref='DESIGN.md section 2 C19'),
 'C16': dict(
   text='Binding audit of validate_key_binding_jwt (171 blocks, 100+ paths: typ, holder key in scope, signature, sd_hash, nonce, aud, iat window, no reachable panic), '
        'SD-JWT verify_signature (signature before disclosures, decoded claims feed the credential, issuer == kid DID) and validate_credential (same units as plain JWTs).'
        " Re-used: C02's parse_jwk / verify_decoded_signature obligations. The sd_hash input is the disclosure list as presented (no reshaping adaptor); panic models (char boundaries, String offsets) are switched on for the two no-panic obligations. Round 6: C02's unit bodies (check_status, check_revocation_bitmap_status, check_structure) and C07's credential consistency check re-used.",
   note='Trusted as C01. Outside: SdObjectDecoder::decode, hashing, JSON, crypto.',
   technique=TECH_M, ref='DESIGN.md section 2 C16'),
 'C20': dict(
   text='Bounded symbolic verification of the dispatch wiring (binding audit + fault-schedule mode of the async bodies, from the generic MIR, so for every DID / document / handler type): '
        'Resolver::resolve makes exactly one look-up in its own handler table with the method of the DID being resolved, invokes nothing and reports UnsupportedMethodError when the look-up is None, '
        'otherwise applies exactly the command found to the whole DID text and returns its awaited result as it stands; Command::apply invokes its own callback with the input; the callback built by Command::new (both kinds) '
        'converts the input text as received, never invokes the handler on a failed conversion, invokes it exactly once with the converted DID otherwise and returns its document / wraps its error as HandlerError; '
        'attach_handler is one insertion under the caller\'s method name of the command built from the caller\'s handler; attach_did_jwk_handler registers under DIDJwk::METHOD; '
        'resolve_multiple builds its set from the whole input slice without dropping adaptors, pushes exactly one future per set element capturing (this resolver, that DID), each of which pairs that DID with the document '
        'resolve returned for it, and returns the try_collect of exactly those futures (loop unrolled 3 times).',
   note='Trusted as C01. PARTIAL: independence of completion order rests on FuturesUnordered / TryCollect / HashMap semantics (third-party / std, behind uninterpreted callees) and is outside the claim; '
        'the native battery runs all 27 delay assignments of three handlers but is confirmation only. Also outside: HashMap/HashSet semantics, attach_iota_handler(s), panicking or never-completing handlers.',
   technique=TECH_M + '; async bodies executed as state machines with every awaited future Ready and results unconstrained', ref='DESIGN.md section 2 C20'),
}

NA = {
 'C15': 'operation histories over HashMap behind tokio::RwLock, Ed25519 keygen/sign, SHA-256 thumbprints, rand and thread interleavings: nothing of the property is encodable for a sequential bounded model checker (DESIGN.md section 5)',
}

def main():
    props = [json.loads(l)['id'] for l in open(os.path.join(VERIF, 'properties.jsonl'))]
    checks = []
    for pid in props:
        if pid not in CLAIMS:
            continue
        c = CLAIMS[pid]
        checks.append({
          'property_id': pid,
          'quick_cmd': 'bin/check %s --tier quick' % pid,
          'thorough_cmd': 'bin/check %s --tier thorough' % pid,
          'evidence_file': 'evidence/%s.json' % pid,
          'replay_cmd_template': 'bin/replay {path}',
          'engine': 'mir2smt+kani',
          'level_claimed': {'category': 'other', 'text': c['text'], 'design_ref': c['ref']},
          'level_note': c['note'],
          'technique': c['technique'],
        })
    na = [{'property_id': p, 'reason': NA.get(p, 'no check built yet in this round (see DESIGN.md); not claimed')} for p in props if p not in CLAIMS]
    m = {
      'version': 1,
      'setup_cmd': 'bin/setup',
      'hooks': {
        'guard': 'cargo feature `verif-hooks` (off by default) on the hooked crates',
        'enable': 'the harness crate /verif/kani and the replay crate /verif/replay depend on the /repo crates with features = ["verif-hooks"]; hook modules are `#[cfg(feature = "verif-hooks")] pub mod verif_hooks;`',
        'baseline_off_cmd': 'cd /repo && cargo nextest run --workspace --no-fail-fast --offline',
        'source_commits': json.load(open(os.path.join(VERIF, 'findings', 'hook_commits.json'))) if os.path.exists(os.path.join(VERIF, 'findings', 'hook_commits.json')) else [],
        'add_only': True,
      },
      'engines': [
        {'name': 'mir2smt', 'path': 'mir2smt/', 'serves_properties': sorted(CLAIMS), 'kind_free_text': 'symbolic execution of rustc MIR dumps into z3 (cvc5 diff)'},
        {'name': 'kani', 'path': 'kani/', 'serves_properties': sorted(CLAIMS), 'kind_free_text': 'Kani 0.68 / CBMC 6.11 harnesses over the compiled code'},
      ],
      'checks': checks,
      'not_applicable': na,
      'notes': 'All checks rebuild from /repo working tree: MIR is re-dumped with cargo +nightly on every run; Kani harness crate has path dependencies on /repo.',
    }
    json.dump(m, open(os.path.join(VERIF, 'MANIFEST.json'), 'w'), indent=1)

if __name__ == '__main__':
    main()
