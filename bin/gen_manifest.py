#!/usr/bin/env python3
"""Regenerates MANIFEST.json from the table below (single source of truth for claims)."""
import json, os
VERIF = os.path.dirname(os.path.dirname(os.path.abspath(__file__)))

CLAIMS = {
 'C12': dict(
   text='Bounded symbolic verification: StatusList2021::{set,get,len} translated from the freshly dumped MIR into SMT (arrays + bit-vectors) and '
        'decided by z3 (cvc5 cross-check) for a list of ANY length <= 2^60 bytes, every usize index and both values: panic freedom, Ok iff in range, '
        'read-after-write equals the bit-vector model for every other index. Counterexamples are replayed natively before being reported.',
   note='Trusted: rustc MIR dump, the mir2smt translator and its models of the listed core functions, z3/cvc5. Outside: gzip+base64 encoding, credential-level '
        're-encoding, check_status_with_status_list_2021.',
   technique='MIR-to-SMT symbolic execution (path enumeration, z3 verdict per path); Kani/CBMC harnesses in the thorough tier',
   ref='DESIGN.md section 2 C12'),
}

NA = {
 'C15': 'operation histories over HashMap behind tokio::RwLock, Ed25519 keygen/sign, SHA-256 thumbprints, rand and thread interleavings: nothing of the property is encodable for a sequential bounded model checker (DESIGN.md section 5)',
 'C20': 'async dispatch over HashMap + FuturesUnordered + completion orders; the smallest single-handler scenario hit the 30-minute cap twice under Kani (DESIGN.md section 5)',
}

def main():
    props = [json.loads(l)['id'] for l in open(os.path.join(VERIF, 'properties.jsonl'))]
    checks = []
    for pid in props:
        if pid not in CLAIMS:
            continue
        c = CLAIMS[pid]
        checks.append({
          'property_id': pid,
          'quick_cmd': 'bin/check %s --tier quick' % pid,
          'thorough_cmd': 'bin/check %s --tier thorough' % pid,
          'evidence_file': 'evidence/%s.json' % pid,
          'replay_cmd_template': 'bin/replay {path}',
          'engine': 'mir2smt+kani',
          'level_claimed': {'category': 'other', 'text': c['text'], 'design_ref': c['ref']},
          'level_note': c['note'],
          'technique': c['technique'],
        })
    na = [{'property_id': p, 'reason': NA.get(p, 'no check built yet in this round (see DESIGN.md); not claimed')} for p in props if p not in CLAIMS]
    m = {
      'version': 1,
      'setup_cmd': 'bin/setup',
      'hooks': {
        'guard': 'cfg(kani)',
        'enable': 'cargo kani sets --cfg kani for the whole build graph; the hook modules are `#[cfg(kani)] pub mod verif_hooks;`',
        'baseline_off_cmd': 'cd /repo && cargo nextest run --workspace --no-fail-fast --offline',
        'source_commits': json.load(open(os.path.join(VERIF, 'findings', 'hook_commits.json'))) if os.path.exists(os.path.join(VERIF, 'findings', 'hook_commits.json')) else [],
        'add_only': True,
      },
      'engines': [
        {'name': 'mir2smt', 'path': 'mir2smt/', 'serves_properties': sorted(CLAIMS), 'kind_free_text': 'symbolic execution of rustc MIR dumps into z3 (cvc5 diff)'},
        {'name': 'kani', 'path': 'kani/', 'serves_properties': sorted(CLAIMS), 'kind_free_text': 'Kani 0.68 / CBMC 6.11 harnesses over the compiled code'},
      ],
      'checks': checks,
      'not_applicable': na,
      'notes': 'All checks rebuild from /repo working tree: MIR is re-dumped with cargo +nightly on every run; Kani harness crate has path dependencies on /repo.',
    }
    json.dump(m, open(os.path.join(VERIF, 'MANIFEST.json'), 'w'), indent=1)

if __name__ == '__main__':
    main()
