"""Runs Kani harnesses (engine K) in parallel slots and turns CBMC output into verdicts.

A harness counts as HELD only if CBMC printed `VERIFICATION:- SUCCESSFUL`, no unwinding assertion failed and every
`kani::cover!` in it was satisfied.  Timeouts / OOM / errors are INCONCLUSIVE.  A failed assertion is replayed
natively (same harness body compiled without Kani, fed with the concrete values) before it becomes a VIOLATION.
"""
import concurrent.futures
import json
import os
import re
import resource
import shutil
import signal
import subprocess
import threading
import time

VERIF = os.path.dirname(os.path.dirname(os.path.abspath(__file__)))
KANI_DIR = os.path.join(VERIF, 'kani')
BUILD = os.path.join(VERIF, '.build')
MEM_BYTES = int(os.environ.get('VERIF_KANI_MEM_GB', '14')) * 1024 ** 3
SLOTS = int(os.environ.get('VERIF_KANI_SLOTS', '6'))

_slot_lock = threading.Lock()
_free_slots = list(range(SLOTS))


def _limits():
    os.setsid()
    resource.setrlimit(resource.RLIMIT_AS, (MEM_BYTES, MEM_BYTES))


def ensure_lock():
    lock = os.path.join(KANI_DIR, 'Cargo.lock')
    if not os.path.exists(lock):
        shutil.copy(os.path.join(os.environ.get('VERIF_REPO', '/repo'), 'Cargo.lock'), lock)


class KResult:
    def __init__(self, harness):
        self.harness = harness
        self.status = 'error'        # success | failed | timeout | error
        self.failed_checks = []
        self.unwind_failed = False
        self.covers = (0, 0)
        self.secs = 0.0
        self.vals = None             # concrete playback values (list of byte lists)
        self.stubs = []
        self.tail = ''


def run_one(harness, timeout_s=900, stubbing=False, playback=True, extra=()):
    ensure_lock()
    with _slot_lock:
        slot = _free_slots.pop() if _free_slots else 0
    try:
        tdir = os.path.join(BUILD, 'kani-target-%d' % slot)
        full = harness if '::' in harness else '%s::%s' % (harness.split('_')[0], harness)
        cmd = ['cargo', 'kani', '--target-dir', tdir, '--harness', full, '--exact']
        if stubbing:
            cmd += ['-Z', 'stubbing']
        if playback:
            cmd += ['-Z', 'concrete-playback', '--concrete-playback=print']
        cmd += list(extra)
        env = dict(os.environ, CARGO_NET_OFFLINE='true')
        env.pop('RUSTUP_TOOLCHAIN', None)
        env.pop('RUSTFLAGS', None)
        t0 = time.time()
        r = KResult(harness)
        p = subprocess.Popen(cmd, cwd=KANI_DIR, stdout=subprocess.PIPE, stderr=subprocess.STDOUT, text=True, env=env,
                             preexec_fn=_limits)
        try:
            out, _ = p.communicate(timeout=timeout_s)
        except subprocess.TimeoutExpired:
            try:
                os.killpg(p.pid, signal.SIGKILL)
            except ProcessLookupError:
                pass
            out, _ = p.communicate()
            r.status = 'timeout'
            r.secs = time.time() - t0
            r.tail = out[-1500:]
            return r
        r.secs = time.time() - t0
        parse(out, r)
        return r
    finally:
        with _slot_lock:
            _free_slots.append(slot)


def parse(out, r):
    r.tail = out[-2500:]
    if 'VERIFICATION:- SUCCESSFUL' in out:
        r.status = 'success'
    elif 'VERIFICATION:- FAILED' in out:
        r.status = 'failed'
    else:
        r.status = 'error'
    if 'Status: ERROR' in out or 'CBMC failed' in out or 'out of memory' in out.lower():
        if r.status != 'failed' or 'Failed Checks' not in out:
            r.status = 'error'
    for m in re.finditer(r'Failed Checks: (.*)\n(?:\s*File: "([^"]*)", line (\d+), in (\S+))?', out):
        desc = m.group(1).strip()
        r.failed_checks.append({'desc': desc, 'file': m.group(2), 'line': m.group(3), 'fn': m.group(4)})
        if 'unwinding assertion' in desc:
            r.unwind_failed = True
    m = re.search(r'\*\* (\d+) of (\d+) cover properties satisfied', out)
    if m:
        r.covers = (int(m.group(1)), int(m.group(2)))
    r.stubs = re.findall(r'- Stub: (.*)', out)
    m = re.search(r'let concrete_vals: Vec<Vec<u8>> = vec!\[(.*?)\n\s*\];', out, re.S)
    if m:
        vals = []
        for vm in re.finditer(r'vec!\[([0-9, ]*)\]', m.group(1)):
            vals.append([int(x) for x in vm.group(1).split(',') if x.strip()])
        r.vals = vals


def run_many(specs, workers=None):
    """specs: list of dict(harness=..., timeout_s=..., stubbing=..., extra=...) -> {harness: KResult}"""
    workers = workers or SLOTS
    res = {}
    with concurrent.futures.ThreadPoolExecutor(max_workers=workers) as pool:
        futs = {pool.submit(run_one, s['harness'], s.get('timeout_s', 900), s.get('stubbing', False),
                            s.get('playback', True), s.get('extra', ())): s['harness'] for s in specs}
        for f in concurrent.futures.as_completed(futs):
            h = futs[f]
            try:
                res[h] = f.result()
            except Exception as e:   # noqa
                r = KResult(h)
                r.tail = repr(e)
                res[h] = r
    return res


def judge(ctx, specs, results, module_src):
    """turn Kani results into obligations on ctx (see core.Ob)"""
    from core import Ob, HELD, VIOLATED, INCONCLUSIVE, KNOWN
    from replay import run_replay
    for s in specs:
        h = s['harness']
        r = results[h]
        funcs = s.get('functions', [])
        bounds = s.get('bounds', '')
        for st in r.stubs:
            if st not in ctx.stubs:
                ctx.stubs.append(st)
        if s.get('must_fail'):
            # vacuity twin: the final assertion has to be reachable and violated
            real = [c for c in r.failed_checks if 'unwinding' not in c['desc']]
            if r.status == 'failed' and real and not r.unwind_failed:
                ctx.add(Ob(h, 'K', HELD, solver_s=r.secs, functions=funcs, bounds=bounds,
                           sample='twin %s fails as required: %s' % (h, real[0]['desc'][:80])))
            else:
                ctx.add(Ob(h, 'K', INCONCLUSIVE, detail='vacuity twin did not fail (%s): %s' % (r.status, r.tail[-300:]),
                           solver_s=r.secs, functions=funcs))
            continue
        if r.status == 'success':
            if r.covers[1] and r.covers[0] != r.covers[1] and (not s.get('allow_unsat_cover') or r.covers[0] == 0):
                ctx.add(Ob(h, 'K', INCONCLUSIVE, detail='only %d of %d cover witnesses satisfied (vacuity guard)' % r.covers,
                           solver_s=r.secs, functions=funcs))
            else:
                ctx.add(Ob(h, 'K', HELD, solver_s=r.secs, functions=funcs, bounds=bounds,
                           sample='%s: VERIFICATION SUCCESSFUL, %d/%d covers, %s' % (h, r.covers[0], r.covers[1], bounds)))
            continue
        if r.status in ('timeout', 'error') or r.unwind_failed or not r.failed_checks:
            why = 'unwinding assertion failed (bound too small)' if r.unwind_failed else r.status
            ctx.add(Ob(h, 'K', INCONCLUSIVE, detail='%s after %.0fs: %s' % (why, r.secs, r.tail[-400:].replace('\n', ' / ')),
                       solver_s=r.secs, functions=funcs))
            continue
        # genuine failed assertion: replay natively
        desc = '; '.join(c['desc'] for c in r.failed_checks)[:300]
        rep = {'scenario': 'kani', 'cex': {'harness': h, 'vals': r.vals or []}}
        if s.get('no_native_replay'):
            res = {'reproduced': False, 'detail': 'harness uses stubs that have no native counterpart'}
            if s.get('scenario'):
                rep = {'scenario': s['scenario'], 'cex': {'harness': h, 'vals': r.vals or [], 'failed': desc}}
                res = run_replay(rep)
        else:
            res = run_replay(rep)
        f = ctx.known(s.get('finding_key')) if s.get('finding_key') else None
        if res.get('reproduced'):
            if f is not None:
                ctx.add(Ob(h, 'K', KNOWN, detail=desc, cex={'vals': r.vals}, solver_s=r.secs, functions=funcs, finding=f))
            else:
                ctx.add(Ob(h, 'K', VIOLATED, detail='%s; native: %s' % (desc, res.get('detail', '')), cex={'vals': r.vals},
                           solver_s=r.secs, functions=funcs, replay=rep))
        else:
            ctx.add(Ob(h, 'K', INCONCLUSIVE, detail='CBMC counterexample did not reproduce natively (%s): %s vals=%s' %
                       (res.get('detail', ''), desc, r.vals), cex={'vals': r.vals}, solver_s=r.secs, functions=funcs))
