//! C11 - validate_crit decision table (hook), one instance per concrete crit list.
use crate::sym::{any, assume};
use identity_jose::jws::{JwsAlgorithm, JwsHeader};
use identity_jose::verif_hooks as hooks;

fn is_ok<T>(r: identity_jose::error::Result<T>) -> bool {
  match r {
    Ok(v) => {
      core::mem::forget(v);
      true
    }
    Err(e) => {
      core::mem::forget(e);
      false
    }
  }
}

/// crit list on the protected header: None = absent
fn crit_instance(list: Option<&[&'static str]>) {
  let p_b64: Option<bool> = if any::<bool>() { Some(any()) } else { None };
  let p_alg: bool = any();
  let u_present: bool = any();
  let u_b64: bool = any();
  let u_alg: bool = any();
  let u_crit: bool = any();

  let mut p = JwsHeader::new();
  if let Some(b) = p_b64 {
    p.set_b64(b);
  }
  if p_alg {
    p.set_alg(JwsAlgorithm::EdDSA);
  }
  if let Some(l) = list {
    p.set_crit(l.iter().copied());
  }
  let mut u = JwsHeader::new();
  if u_present {
    if u_b64 {
      u.set_b64(false);
    }
    if u_alg {
      u.set_alg(JwsAlgorithm::EdDSA);
    }
    if u_crit {
      u.set_crit(["b64"]);
    }
  }
  let verdict = is_ok(hooks::validate_crit(Some(&p), if u_present { Some(&u) } else { None }));

  // reference (RFC 7515 4.1.11 + RFC 7797 6): crit only protected, non-empty, no registered names, only
  // understood extensions ("b64"), every entry present in the header set
  let unprotected_crit = u_present && u_crit;
  let all_b64 = list.map(|l| l.iter().all(|s| *s == "b64")).unwrap_or(true);
  let non_empty = list.map(|l| !l.is_empty()).unwrap_or(true);
  let names_present = list.map(|l| l.is_empty() || p_b64.is_some()).unwrap_or(true);
  let must_reject = unprotected_crit || !non_empty || !all_b64;
  let must_accept = !unprotected_crit && non_empty && all_b64 && names_present;
  if must_reject {
    assert!(!verdict);
  }
  if must_accept {
    assert!(verdict);
  }
  // "names a parameter absent from the headers": b64 listed but set nowhere
  if list.map(|l| l.contains(&"b64")).unwrap_or(false) && p_b64.is_none() && !(u_present && u_b64) {
    assert!(!verdict);
  }
  sym_cover!(verdict, "accepted instance reachable or list inherently invalid");
  core::mem::forget(p);
  core::mem::forget(u);
}

pub fn crit_absent() {
  crit_instance(None)
}
pub fn crit_empty() {
  crit_instance(Some(&[]))
}
pub fn crit_b64() {
  crit_instance(Some(&["b64"]))
}
pub fn crit_b64_b64() {
  crit_instance(Some(&["b64", "b64"]))
}
pub fn crit_alg() {
  crit_instance(Some(&["alg"]))
}
pub fn crit_exp() {
  crit_instance(Some(&["exp"]))
}
pub fn crit_unknown() {
  crit_instance(Some(&["zz"]))
}
proof!(c11_crit_absent, unwind = 22, crit_absent);
proof!(c11_crit_empty, unwind = 22, crit_empty);
proof!(c11_crit_b64, unwind = 22, crit_b64);
proof!(c11_crit_b64_b64, unwind = 22, crit_b64_b64);
proof!(c11_crit_alg, unwind = 22, crit_alg);
proof!(c11_crit_exp, unwind = 22, crit_exp);
proof!(c11_crit_unknown, unwind = 22, crit_unknown);

pub fn twin_must_fail() {
  let mut p = JwsHeader::new();
  p.set_crit(["b64"]);
  let b: bool = any();
  if b {
    p.set_b64(false);
  }
  assert!(is_ok(hooks::validate_crit(Some(&p), None)));
  core::mem::forget(p);
}
proof!(c11_twin_must_fail, unwind = 22, twin_must_fail);

pub const BODIES: &[(&str, fn())] = &[
  ("c11_crit_absent", crit_absent),
  ("c11_crit_empty", crit_empty),
  ("c11_crit_b64", crit_b64),
  ("c11_crit_b64_b64", crit_b64_b64),
  ("c11_crit_alg", crit_alg),
  ("c11_crit_exp", crit_exp),
  ("c11_crit_unknown", crit_unknown),
  ("c11_twin_must_fail", twin_must_fail),
];
