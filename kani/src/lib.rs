//! Kani harnesses over the compiled code of /repo (engine K). One module per property.
//! The same modules are compiled natively by /verif/replay (cfg(not(kani))) to re-run counterexamples.
#![allow(dead_code, unused_imports, unused_macros, clippy::all)]
extern crate alloc;

#[macro_use]
pub mod sym;
pub mod stubs;
pub mod c12;
pub mod c13;
pub mod c10;
pub mod c08;
pub mod c19;
pub mod c17;
