//! C10 - local DID validators on short symbolic strings vs a reference ABNF matcher.
use crate::sym::{any, assume};
use identity_did::{CoreDID, DID};

fn is_ok<T, E>(r: Result<T, E>) -> bool {
  match r {
    Ok(v) => {
      core::mem::forget(v);
      true
    }
    Err(e) => {
      core::mem::forget(e);
      false
    }
  }
}

fn hex(c: u8) -> bool {
  c.is_ascii_digit() || (b'a'..=b'f').contains(&c) || (b'A'..=b'F').contains(&c)
}

/// reference: *( idchar / ":" / pct-encoded ), pct-encoded = "%" HEXDIG HEXDIG   (W3C DID core 3.1)
fn ref_method_id(b: &[u8; 3]) -> bool {
  let plain = |c: u8| c.is_ascii_alphanumeric() || c == b'.' || c == b'-' || c == b'_' || c == b':';
  if b[0] == b'%' {
    return hex(b[1]) && hex(b[2]);
  }
  if !plain(b[0]) {
    return false;
  }
  if b[1] == b'%' {
    return false; // "%" + one char left: cannot be a complete escape
  }
  plain(b[1]) && b[2] != b'%' && plain(b[2])
}

fn ascii3() -> [u8; 3] {
  let b: [u8; 3] = [any(), any(), any()];
  assume(b[0] < 128 && b[1] < 128 && b[2] < 128);
  b
}

pub fn method_id_3() {
  let b = ascii3();
  let s = core::str::from_utf8(&b).unwrap();
  assert_eq!(is_ok(CoreDID::valid_method_id(s)), ref_method_id(&b));
  sym_cover!(b[0] == b'%' && hex(b[1]) && hex(b[2]), "complete escape");
  sym_cover!(b[1] == b'%', "truncated escape");
}
proof!(c10_method_id_3, unwind = 6, method_id_3);

pub fn method_name_3() {
  let b = ascii3();
  let s = core::str::from_utf8(&b).unwrap();
  let want = b.iter().all(|c| c.is_ascii_lowercase() || c.is_ascii_digit());
  assert_eq!(is_ok(CoreDID::valid_method_name(s)), want);
  sym_cover!(want, "accepted name");
}
proof!(c10_method_name_3, unwind = 6, method_name_3);

pub fn twin_must_fail() {
  let b = ascii3();
  let s = core::str::from_utf8(&b).unwrap();
  assert!(!is_ok(CoreDID::valid_method_id(s)));
}
proof!(c10_twin_must_fail, unwind = 6, twin_must_fail);

// ---- the whole parser (third-party did_url_parser + CoreDID::check_validity) on "did:a:" + N symbolic ASCII bytes ----

fn idchar(c: u8) -> bool {
  c.is_ascii_alphanumeric() || c == b'.' || c == b'-' || c == b'_'
}

/// reference: W3C DID core 3.1  method-specific-id = *( *idchar ":" ) 1*idchar ; idchar includes pct-encoded
fn ref_msid(b: &[u8]) -> bool {
  let n = b.len();
  if n == 0 {
    return false;
  }
  let mut i = 0;
  let mut last_colon = false;
  while i < n {
    if b[i] == b'%' {
      if i + 2 >= n || !hex(b[i + 1]) || !hex(b[i + 2]) {
        return false;
      }
      i += 3;
      last_colon = false;
    } else if b[i] == b':' {
      i += 1;
      last_colon = true;
    } else if idchar(b[i]) {
      i += 1;
      last_colon = false;
    } else {
      return false;
    }
  }
  !last_colon
}

/// the known third-party overrun: a complete escape as the last three bytes of the input
fn ends_with_escape(b: &[u8]) -> bool {
  let n = b.len();
  n >= 3 && b[n - 3] == b'%' && hex(b[n - 2]) && hex(b[n - 1])
}

fn parse_tail<const N: usize>(known_region: bool) {
  let t: [u8; N] = any();
  let mut buf = [0u8; 16];
  buf[..6].copy_from_slice(b"did:a:");
  let mut i = 0;
  while i < N {
    assume(t[i] < 128 && t[i] > 32 && t[i] != 127); // printable ASCII: leading/trailing blanks are trimmed by the parser (C10 battery covers them)
    buf[6 + i] = t[i];
    i += 1;
  }
  assume(ends_with_escape(&t) == known_region);
  let s = core::str::from_utf8(&buf[..6 + N]).unwrap();
  let want = ref_msid(&t);
  match CoreDID::parse(s) {
    Ok(d) => {
      assert!(want, "accepted a method-specific id outside the W3C ABNF");
      assert!(d.as_str().len() == 6 + N, "string form differs from the input");
      let id = d.method_id().as_bytes();
      assert!(id.len() == N, "method-specific id is not the text after the second colon");
      sym_cover!(true, "accepted");
      core::mem::forget(d);
    }
    Err(e) => {
      assert!(!want, "rejected a method-specific id inside the W3C ABNF");
      sym_cover!(true, "rejected");
      core::mem::forget(e);
    }
  }
}

pub fn parse_tail_1() {
  parse_tail::<1>(false)
}
pub fn parse_tail_2() {
  parse_tail::<2>(false)
}
pub fn parse_tail_3() {
  parse_tail::<3>(false)
}
pub fn parse_tail_4() {
  parse_tail::<4>(false)
}
pub fn parse_tail_3_escape() {
  parse_tail::<3>(true)
}
pub fn parse_tail_4_escape() {
  parse_tail::<4>(true)
}
proof!(c10_parse_tail_1, unwind = 12, parse_tail_1);
proof!(c10_parse_tail_2, unwind = 12, parse_tail_2);
proof!(c10_parse_tail_3, unwind = 12, parse_tail_3);
proof!(c10_parse_tail_4, unwind = 12, parse_tail_4);
proof!(c10_parse_tail_3_escape, unwind = 12, parse_tail_3_escape);
proof!(c10_parse_tail_4_escape, unwind = 12, parse_tail_4_escape);

pub const BODIES: &[(&str, fn())] = &[
  ("c10_method_id_3", method_id_3),
  ("c10_method_name_3", method_name_3),
  ("c10_twin_must_fail", twin_must_fail),
  ("c10_parse_tail_1", parse_tail_1),
  ("c10_parse_tail_2", parse_tail_2),
  ("c10_parse_tail_3", parse_tail_3),
  ("c10_parse_tail_4", parse_tail_4),
  ("c10_parse_tail_3_escape", parse_tail_3_escape),
  ("c10_parse_tail_4_escape", parse_tail_4_escape),
];
