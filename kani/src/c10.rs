//! C10 - local DID validators on short symbolic strings vs a reference ABNF matcher.
use crate::sym::{any, assume};
use identity_did::{CoreDID, DID};

fn is_ok<T, E>(r: Result<T, E>) -> bool {
  match r {
    Ok(v) => {
      core::mem::forget(v);
      true
    }
    Err(e) => {
      core::mem::forget(e);
      false
    }
  }
}

fn hex(c: u8) -> bool {
  c.is_ascii_digit() || (b'a'..=b'f').contains(&c) || (b'A'..=b'F').contains(&c)
}

/// every character is an idchar or ":", every "%" starts a complete escape
fn chars_ok(b: &[u8]) -> bool {
  let n = b.len();
  let mut i = 0;
  while i < n {
    let c = b[i];
    if c == b'%' {
      if i + 2 >= n || !hex(b[i + 1]) || !hex(b[i + 2]) {
        return false;
      }
      i += 3;
    } else if c == b':' || c.is_ascii_alphanumeric() || c == b'.' || c == b'-' || c == b'_' {
      i += 1;
    } else {
      return false;
    }
  }
  true
}

/// reference: W3C DID core 3.1   method-specific-id = *( *idchar ":" ) 1*idchar ; idchar = ALPHA / DIGIT / "." / "-" / "_" / pct-encoded
/// i.e. non-empty, made of idchar and ":", every "%" followed by two HEXDIG, and not ending in ":"
fn ref_method_id(b: &[u8]) -> bool {
  !b.is_empty() && chars_ok(b) && b[b.len() - 1] != b':'
}

/// region of the recorded finding `method-id-trailing-colon`: otherwise well-formed ids that end in ":"
fn trailing_colon_region(b: &[u8]) -> bool {
  !b.is_empty() && chars_ok(b) && b[b.len() - 1] == b':'
}

fn ascii<const N: usize>() -> [u8; N] {
  let b: [u8; N] = any();
  let mut i = 0;
  while i < N {
    assume(b[i] < 128);
    i += 1;
  }
  b
}

fn method_id<const N: usize>(known_region: bool) -> [u8; N] {
  let b = ascii::<N>();
  assume(trailing_colon_region(&b) == known_region);
  let s = core::str::from_utf8(&b).unwrap();
  assert_eq!(is_ok(CoreDID::valid_method_id(s)), ref_method_id(&b));
  b
}
pub fn method_id_0() {
  let _ = method_id::<0>(false);
}
pub fn method_id_1() {
  let _ = method_id::<1>(false);
}
pub fn method_id_2() {
  let _ = method_id::<2>(false);
}
pub fn method_id_3() {
  let b = method_id::<3>(false);
  sym_cover!(b[0] == b'%' && hex(b[1]) && hex(b[2]), "complete escape");
  sym_cover!(b[1] == b'%', "truncated escape");
  sym_cover!(b[2] == b':', "trailing colon after an invalid character");
}
pub fn method_id_colon_1() {
  let _ = method_id::<1>(true);
}
pub fn method_id_colon_2() {
  let _ = method_id::<2>(true);
}
pub fn method_id_colon_3() {
  let _ = method_id::<3>(true);
}
proof!(c10_method_id_colon_1, unwind = 6, method_id_colon_1);
proof!(c10_method_id_colon_2, unwind = 6, method_id_colon_2);
proof!(c10_method_id_colon_3, unwind = 6, method_id_colon_3);
proof!(c10_method_id_0, unwind = 6, method_id_0);
proof!(c10_method_id_1, unwind = 6, method_id_1);
proof!(c10_method_id_2, unwind = 6, method_id_2);
proof!(c10_method_id_3, unwind = 6, method_id_3);

fn method_name<const N: usize>() -> bool {
  let b = ascii::<N>();
  let s = core::str::from_utf8(&b).unwrap();
  // method-name = 1*method-char ; method-char = %x61-7A / DIGIT
  let want = N > 0 && b.iter().all(|c| c.is_ascii_lowercase() || c.is_ascii_digit());
  assert_eq!(is_ok(CoreDID::valid_method_name(s)), want);
  want
}
pub fn method_name_0() {
  let _ = method_name::<0>();
}
pub fn method_name_3() {
  let want = method_name::<3>();
  sym_cover!(want, "accepted name");
}
proof!(c10_method_name_0, unwind = 6, method_name_0);
proof!(c10_method_name_3, unwind = 6, method_name_3);

fn ascii3() -> [u8; 3] {
  ascii::<3>()
}

// DID URL segments through the public setters (set_fragment / set_query on 2 and 4 symbolic bytes) hit the 25-minute cap at 6 GB
// (String formatting + char_indices); is_valid_url_segment is decided by an M kernel instead (checks/c10.py).

pub fn twin_must_fail() {
  let b = ascii3();
  let s = core::str::from_utf8(&b).unwrap();
  assert!(!is_ok(CoreDID::valid_method_id(s)));
}
proof!(c10_twin_must_fail, unwind = 6, twin_must_fail);

pub const BODIES: &[(&str, fn())] = &[
  ("c10_method_id_0", method_id_0),
  ("c10_method_id_1", method_id_1),
  ("c10_method_id_2", method_id_2),
  ("c10_method_id_3", method_id_3),
  ("c10_method_id_colon_1", method_id_colon_1),
  ("c10_method_id_colon_2", method_id_colon_2),
  ("c10_method_id_colon_3", method_id_colon_3),
  ("c10_method_name_0", method_name_0),
  ("c10_method_name_3", method_name_3),
  ("c10_twin_must_fail", twin_must_fail),
];
