//! C10 - local DID validators on short symbolic strings vs a reference ABNF matcher.
use crate::sym::{any, assume};
use identity_did::CoreDID;

fn is_ok<T, E>(r: Result<T, E>) -> bool {
  match r {
    Ok(v) => {
      core::mem::forget(v);
      true
    }
    Err(e) => {
      core::mem::forget(e);
      false
    }
  }
}

fn hex(c: u8) -> bool {
  c.is_ascii_digit() || (b'a'..=b'f').contains(&c) || (b'A'..=b'F').contains(&c)
}

/// reference: *( idchar / ":" / pct-encoded ), pct-encoded = "%" HEXDIG HEXDIG   (W3C DID core 3.1)
fn ref_method_id(b: &[u8; 3]) -> bool {
  let plain = |c: u8| c.is_ascii_alphanumeric() || c == b'.' || c == b'-' || c == b'_' || c == b':';
  if b[0] == b'%' {
    return hex(b[1]) && hex(b[2]);
  }
  if !plain(b[0]) {
    return false;
  }
  if b[1] == b'%' {
    return false; // "%" + one char left: cannot be a complete escape
  }
  plain(b[1]) && b[2] != b'%' && plain(b[2])
}

fn ascii3() -> [u8; 3] {
  let b: [u8; 3] = [any(), any(), any()];
  assume(b[0] < 128 && b[1] < 128 && b[2] < 128);
  b
}

pub fn method_id_3() {
  let b = ascii3();
  let s = core::str::from_utf8(&b).unwrap();
  assert_eq!(is_ok(CoreDID::valid_method_id(s)), ref_method_id(&b));
  sym_cover!(b[0] == b'%' && hex(b[1]) && hex(b[2]), "complete escape");
  sym_cover!(b[1] == b'%', "truncated escape");
}
proof!(c10_method_id_3, unwind = 6, method_id_3);

pub fn method_name_3() {
  let b = ascii3();
  let s = core::str::from_utf8(&b).unwrap();
  let want = b.iter().all(|c| c.is_ascii_lowercase() || c.is_ascii_digit());
  assert_eq!(is_ok(CoreDID::valid_method_name(s)), want);
  sym_cover!(want, "accepted name");
}
proof!(c10_method_name_3, unwind = 6, method_name_3);

pub fn twin_must_fail() {
  let b = ascii3();
  let s = core::str::from_utf8(&b).unwrap();
  assert!(!is_ok(CoreDID::valid_method_id(s)));
}
proof!(c10_twin_must_fail, unwind = 6, twin_must_fail);

pub const BODIES: &[(&str, fn())] = &[
  ("c10_method_id_3", method_id_3),
  ("c10_method_name_3", method_name_3),
  ("c10_twin_must_fail", twin_must_fail),
];
