//! C08 - RFC 7797 section 5.2 character sets of unencoded compact payloads, on every byte string of length 1 and 2.
use crate::sym::any;
use identity_jose::jws::CharSet;

fn ok<T, E>(r: Result<T, E>) -> bool {
  match r {
    Ok(v) => {
      core::mem::forget(v);
      true
    }
    Err(e) => {
      core::mem::forget(e);
      false
    }
  }
}

/// %x20-2D / %x2F-7E
fn ref_default(b: u8) -> bool {
  (0x20..=0x2D).contains(&b) || (0x2F..=0x7E).contains(&b)
}

/// 'a'-'z', 'A'-'Z', '0'-'9', '-', '_', '~'
fn ref_urlsafe(b: u8) -> bool {
  b.is_ascii_alphanumeric() || b == b'-' || b == b'_' || b == b'~'
}

fn charset<const N: usize>(set: CharSet, reference: fn(u8) -> bool) {
  let data: [u8; N] = any();
  let mut want = true;
  let mut i = 0;
  while i < N {
    want = want && reference(data[i]);
    i += 1;
  }
  // a byte string outside ASCII is either invalid UTF-8 or a non-ASCII character: rejected in both cases
  assert_eq!(ok(set.validate(&data)), want);
  sym_cover!(want, "accepted payload");
  sym_cover!(data[0] == b'.', "period");
  sym_cover!(data[0] >= 0x80, "non-ASCII lead byte");
}

pub fn charset_default_1() {
  charset::<1>(CharSet::Default, ref_default)
}
pub fn charset_default_2() {
  charset::<2>(CharSet::Default, ref_default)
}
pub fn charset_urlsafe_1() {
  charset::<1>(CharSet::UrlSafe, ref_urlsafe)
}
pub fn charset_urlsafe_2() {
  charset::<2>(CharSet::UrlSafe, ref_urlsafe)
}
pub fn twin_must_fail() {
  let data: [u8; 1] = any();
  assert!(!ok(CharSet::Default.validate(&data)));
}
proof!(c08_charset_default_1, unwind = 6, charset_default_1);
proof!(c08_charset_default_2, unwind = 6, charset_default_2);
proof!(c08_charset_urlsafe_1, unwind = 6, charset_urlsafe_1);
proof!(c08_charset_urlsafe_2, unwind = 6, charset_urlsafe_2);
proof!(c08_twin_must_fail, unwind = 6, twin_must_fail);

pub const BODIES: &[(&str, fn())] = &[
  ("c08_charset_default_1", charset_default_1),
  ("c08_charset_default_2", charset_default_2),
  ("c08_charset_urlsafe_1", charset_urlsafe_1),
  ("c08_charset_urlsafe_2", charset_urlsafe_2),
  ("c08_twin_must_fail", twin_must_fail),
];
