//! C13 - Timestamps: range gate, unix round trip, order, checked arithmetic (windows), parse/format shapes.
use crate::sym::{any, assume};
use identity_core::common::{Duration, Timestamp};

pub const MIN: i64 = -62167219200; // 0000-01-01T00:00:00Z
pub const MAX: i64 = 253402300799; // 9999-12-31T23:59:59Z
const W: i64 = 100_000;
const WA: i64 = 60;

fn in_window(s: i64, centre: i64) -> bool {
  s >= centre - W && s <= centre + W
}

/// unix seconds -> Timestamp without dropping the error value (drop glue of the error chain explodes under CBMC)
fn from_unix(s: i64) -> Option<Timestamp> {
  match Timestamp::from_unix(s) {
    Ok(t) => Some(t),
    Err(e) => {
      core::mem::forget(e);
      None
    }
  }
}

fn gate_at(centre: i64) {
  let s: i64 = any();
  assume(in_window(s, centre));
  let t = from_unix(s);
  assert_eq!(t.is_some(), (MIN..=MAX).contains(&s));
  if let Some(t) = t {
    assert_eq!(t.to_unix(), s);
  }
  sym_cover!(s == MIN - 1 || s == MAX + 1 || s == 1, "first rejected / small value reached");
}
pub fn gate_low() {
  gate_at(MIN)
}
pub fn gate_high() {
  gate_at(MAX)
}
pub fn gate_zero() {
  gate_at(0)
}
proof!(c13_gate_low, unwind = 2, gate_low);
proof!(c13_gate_high, unwind = 2, gate_high);
proof!(c13_gate_zero, unwind = 2, gate_zero);

fn order_at(centre: i64) {
  let (a, b): (i64, i64) = (any(), any());
  assume(in_window(a, centre) && in_window(b, centre));
  assume((MIN..=MAX).contains(&a) && (MIN..=MAX).contains(&b));
  let (ta, tb) = (from_unix(a).unwrap(), from_unix(b).unwrap());
  assert_eq!(ta.cmp(&tb), a.cmp(&b));
  assert_eq!(ta == tb, a == b);
  sym_cover!(a < b, "strictly ordered pair");
}
pub fn order_low() {
  order_at(MIN)
}
pub fn order_high() {
  order_at(MAX)
}
proof!(c13_order_low, unwind = 2, order_low);
proof!(c13_order_high, unwind = 2, order_high);

/// checked_add / checked_sub = integer arithmetic on seconds, None exactly when the result leaves the range.
fn arith_at(centre: i64, add: bool) {
  let s: i64 = any();
  let d: u32 = any();
  assume(s >= centre - WA && s <= centre + WA && (MIN..=MAX).contains(&s));
  assume(d <= 2 * WA as u32);
  let t = from_unix(s).unwrap();
  let r = if add { t.checked_add(Duration::seconds(d)) } else { t.checked_sub(Duration::seconds(d)) };
  let want = if add { s + d as i64 } else { s - d as i64 };
  assert_eq!(r.is_some(), (MIN..=MAX).contains(&want));
  if let Some(r) = r {
    assert_eq!(r.to_unix(), want);
  }
  sym_cover!(!(MIN..=MAX).contains(&want), "result leaves the range");
  sym_cover!((MIN..=MAX).contains(&want) && d > 0, "result stays in range");
}
pub fn add_high() {
  arith_at(MAX, true)
}
pub fn sub_low() {
  arith_at(MIN, false)
}
pub fn add_zero() {
  arith_at(0, true)
}
proof!(c13_add_high, unwind = 2, add_high);
proof!(c13_sub_low, unwind = 2, sub_low);
proof!(c13_add_zero, unwind = 2, add_zero);

// ---- parse / format shapes ----------------------------------------------------------------------------------------

fn parse(s: &str) -> Option<Timestamp> {
  match Timestamp::parse(s) {
    Ok(t) => Some(t),
    Err(e) => {
      core::mem::forget(e);
      None
    }
  }
}

/// `<date-time at a range end>` followed by a numeric offset `±0h:00` with sign and hour digit symbolic.
/// Accepted => inside the range and equal to the instant denoted (base - offset); never a panic.
fn offset_shape(template: &[u8; 25], base_unix: i64) {
  let mut buf = *template;
  let sign: u8 = any();
  let h: u8 = any();
  assume(sign == b'+' || sign == b'-');
  assume(h >= b'0' && h <= b'9');
  buf[19] = sign;
  buf[21] = h;
  let s = core::str::from_utf8(&buf).unwrap();
  let hours = (h - b'0') as i64;
  let denoted = if sign == b'+' { base_unix - hours * 3600 } else { base_unix + hours * 3600 };
  match parse(s) {
    Some(t) => {
      assert!((MIN..=MAX).contains(&t.to_unix()));
      assert_eq!(t.to_unix(), denoted);
    }
    None => {
      // a string denoting an instant inside the range must be accepted
      assert!(!(MIN..=MAX).contains(&denoted));
    }
  }
  sym_cover!(!(MIN..=MAX).contains(&denoted), "offset pushes the instant out of range");
  sym_cover!((MIN..=MAX).contains(&denoted), "offset keeps the instant in range");
}
pub fn parse_offset_high() {
  offset_shape(b"9999-12-31T23:59:59+00:00", MAX)
}
pub fn parse_offset_low() {
  offset_shape(b"0000-01-01T00:00:00+00:00", MIN)
}
proof!(c13_parse_offset_high, unwind = 27, parse_offset_high);
proof!(c13_parse_offset_low, unwind = 27, parse_offset_low);

/// format-then-parse is the identity and formatting never panics (window at both range ends)
fn format_roundtrip_at(centre: i64) {
  let s: i64 = any();
  assume(s >= centre - 2 && s <= centre + 2 && (MIN..=MAX).contains(&s));
  let t = from_unix(s).unwrap();
  let text = t.to_rfc3339();
  assert_eq!(text.len(), 20);
  let back = parse(&text);
  assert!(back == Some(t));
  core::mem::forget(text);
}
pub fn format_roundtrip_high() {
  format_roundtrip_at(MAX)
}
pub fn format_roundtrip_low() {
  format_roundtrip_at(MIN)
}
proof!(c13_format_roundtrip_high, unwind = 27, format_roundtrip_high);
proof!(c13_format_roundtrip_low, unwind = 27, format_roundtrip_low);

pub fn twin_must_fail() {
  let s: i64 = any();
  assume(in_window(s, MAX));
  assert!(from_unix(s).is_some());
}
proof!(c13_twin_must_fail, unwind = 2, twin_must_fail);

pub const BODIES: &[(&str, fn())] = &[
  ("c13_gate_low", gate_low),
  ("c13_gate_high", gate_high),
  ("c13_gate_zero", gate_zero),
  ("c13_order_low", order_low),
  ("c13_order_high", order_high),
  ("c13_add_high", add_high),
  ("c13_sub_low", sub_low),
  ("c13_add_zero", add_zero),
  ("c13_parse_offset_high", parse_offset_high),
  ("c13_parse_offset_low", parse_offset_low),
  ("c13_format_roundtrip_high", format_roundtrip_high),
  ("c13_format_roundtrip_low", format_roundtrip_low),
  ("c13_twin_must_fail", twin_must_fail),
];
