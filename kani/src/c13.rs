//! C13 - Timestamps: range gate, unix round trip, order, checked arithmetic (windows), parse/format shapes.
use crate::sym::{any, assume};
use identity_core::common::{Duration, Timestamp};

pub const MIN: i64 = -62167219200; // 0000-01-01T00:00:00Z
pub const MAX: i64 = 253402300799; // 9999-12-31T23:59:59Z
const W: i64 = 100_000;
const WA: i64 = 60;

fn in_window(s: i64, centre: i64) -> bool {
  s >= centre - W && s <= centre + W
}

/// unix seconds -> Timestamp without dropping the error value (drop glue of the error chain explodes under CBMC)
fn from_unix(s: i64) -> Option<Timestamp> {
  match Timestamp::from_unix(s) {
    Ok(t) => Some(t),
    Err(e) => {
      core::mem::forget(e);
      None
    }
  }
}

fn gate_at(centre: i64) {
  let s: i64 = any();
  assume(in_window(s, centre));
  let t = from_unix(s);
  assert_eq!(t.is_some(), (MIN..=MAX).contains(&s));
  if let Some(t) = t {
    assert_eq!(t.to_unix(), s);
  }
  sym_cover!(s == MIN - 1 || s == MAX + 1 || s == 1, "first rejected / small value reached");
}
pub fn gate_low() {
  gate_at(MIN)
}
pub fn gate_high() {
  gate_at(MAX)
}
pub fn gate_zero() {
  gate_at(0)
}
proof!(c13_gate_low, unwind = 2, gate_low);
proof!(c13_gate_high, unwind = 2, gate_high);
proof!(c13_gate_zero, unwind = 2, gate_zero);

fn order_at(centre: i64) {
  let (a, b): (i64, i64) = (any(), any());
  assume(in_window(a, centre) && in_window(b, centre));
  assume((MIN..=MAX).contains(&a) && (MIN..=MAX).contains(&b));
  let (ta, tb) = (from_unix(a).unwrap(), from_unix(b).unwrap());
  assert_eq!(ta.cmp(&tb), a.cmp(&b));
  assert_eq!(ta == tb, a == b);
  sym_cover!(a < b, "strictly ordered pair");
}
pub fn order_low() {
  order_at(MIN)
}
pub fn order_high() {
  order_at(MAX)
}
proof!(c13_order_low, unwind = 2, order_low);
proof!(c13_order_high, unwind = 2, order_high);

/// checked_add / checked_sub = integer arithmetic on seconds, None exactly when the result leaves the range.
fn arith_at(centre: i64, add: bool) {
  let s: i64 = any();
  let d: u32 = any();
  assume(s >= centre - WA && s <= centre + WA && (MIN..=MAX).contains(&s));
  assume(d <= 2 * WA as u32);
  let t = from_unix(s).unwrap();
  let r = if add { t.checked_add(Duration::seconds(d)) } else { t.checked_sub(Duration::seconds(d)) };
  let want = if add { s + d as i64 } else { s - d as i64 };
  assert_eq!(r.is_some(), (MIN..=MAX).contains(&want));
  if let Some(r) = r {
    assert_eq!(r.to_unix(), want);
  }
  sym_cover!(!(MIN..=MAX).contains(&want), "result leaves the range");
  sym_cover!((MIN..=MAX).contains(&want) && d > 0, "result stays in range");
}
pub fn add_high() {
  arith_at(MAX, true)
}
pub fn sub_low() {
  arith_at(MIN, false)
}
pub fn add_zero() {
  arith_at(0, true)
}
proof!(c13_add_high, unwind = 2, add_high);
proof!(c13_sub_low, unwind = 2, sub_low);
proof!(c13_add_zero, unwind = 2, add_zero);

// parse / format shapes: removed under rule 9 (CBMC hit the 45-minute cap on the RFC 3339 parser and ran out of memory on the
// formatter); the constructors are covered by the M routing audit (checks/c13.py).

pub fn twin_must_fail() {
  let s: i64 = any();
  assume(in_window(s, MAX));
  assert!(from_unix(s).is_some());
}
proof!(c13_twin_must_fail, unwind = 2, twin_must_fail);

pub const BODIES: &[(&str, fn())] = &[
  ("c13_gate_low", gate_low),
  ("c13_gate_high", gate_high),
  ("c13_gate_zero", gate_zero),
  ("c13_order_low", order_low),
  ("c13_order_high", order_high),
  ("c13_add_high", add_high),
  ("c13_sub_low", sub_low),
  ("c13_add_zero", add_zero),
  ("c13_twin_must_fail", twin_must_fail),
];
