//! C17 - network names: 1..=6 characters, each a lowercase ASCII letter or a digit (every ASCII string of length 0..7).
use crate::sym::{any, assume};
use identity_iota_core::NetworkName;

fn ok<T, E>(r: Result<T, E>) -> bool {
  match r {
    Ok(v) => {
      core::mem::forget(v);
      true
    }
    Err(e) => {
      core::mem::forget(e);
      false
    }
  }
}

fn network_name<const N: usize>() {
  let b: [u8; N] = any();
  let mut want = N >= 1 && N <= 6;
  let mut i = 0;
  while i < N {
    assume(b[i] < 128);
    want = want && (b[i].is_ascii_lowercase() || b[i].is_ascii_digit());
    i += 1;
  }
  let s = core::str::from_utf8(&b).unwrap();
  assert_eq!(ok(NetworkName::validate_network_name(s)), want);
}
pub fn network_name_0() {
  network_name::<0>()
}
pub fn network_name_1() {
  network_name::<1>()
}
pub fn network_name_3() {
  network_name::<3>()
}
pub fn network_name_6() {
  network_name::<6>()
}
pub fn network_name_7() {
  network_name::<7>()
}
pub fn twin_must_fail() {
  let b: [u8; 2] = any();
  assume(b[0] < 128 && b[1] < 128);
  assert!(!ok(NetworkName::validate_network_name(core::str::from_utf8(&b).unwrap())));
}
proof!(c17_network_name_0, unwind = 10, network_name_0);
proof!(c17_network_name_1, unwind = 10, network_name_1);
proof!(c17_network_name_3, unwind = 10, network_name_3);
proof!(c17_network_name_6, unwind = 10, network_name_6);
proof!(c17_network_name_7, unwind = 10, network_name_7);
proof!(c17_twin_must_fail, unwind = 10, twin_must_fail);

pub const BODIES: &[(&str, fn())] = &[
  ("c17_network_name_0", network_name_0),
  ("c17_network_name_1", network_name_1),
  ("c17_network_name_3", network_name_3),
  ("c17_network_name_6", network_name_6),
  ("c17_network_name_7", network_name_7),
  ("c17_twin_must_fail", twin_must_fail),
];
