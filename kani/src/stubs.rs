//! Shared stubs (every stub is part of the claim and listed in the evidence).
use alloc::string::String;

/// `alloc::fmt::format` replaced where formatting only builds error-message text.
pub fn fmt_format_stub(_args: core::fmt::Arguments<'_>) -> String {
  String::new()
}

/// zeroize's optimisation barrier is inline asm (unsupported by Kani); semantically a no-op.
pub fn optimization_barrier_stub<R: ?Sized>(_val: &R) {}
