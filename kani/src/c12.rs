//! C12 - StatusList2021 through its public API.
use crate::sym::{any, assume};
use identity_credential::revocation::status_list_2021::StatusList2021;

const LEN: usize = 16 * 1024 * 8;

/// two arbitrary writes then one arbitrary read on the default list: read = last write to that index, else initial 0.
pub fn two_writes_one_read() {
  let mut list = StatusList2021::default();
  let (i1, i2, k): (usize, usize, usize) = (any(), any(), any());
  let (v1, v2): (bool, bool) = (any(), any());
  assume(i1 < LEN && i2 < LEN && k < LEN);
  assert!(list.set(i1, v1).is_ok());
  assert!(list.set(i2, v2).is_ok());
  let expect = if k == i2 { v2 } else if k == i1 { v1 } else { false };
  assert_eq!(list.get(k).ok(), Some(expect));
  sym_cover!(k != i1 && k != i2 && k / 8 == i1 / 8, "neighbour in the same byte");
  sym_cover!(!v2 && i2 % 8 == 7, "clear of the last bit of a byte");
  core::mem::forget(list);
}
proof!(c12_two_writes_one_read, unwind = 3, two_writes_one_read);

/// out-of-range band: Err, never a panic.
pub fn out_of_range_is_error() {
  let mut list = StatusList2021::default();
  let i: usize = any();
  let v: bool = any();
  assume(i >= LEN);
  assert!(list.set(i, v).is_err());
  assert!(list.get(i).is_err());
  sym_cover!(i == LEN, "first index past the end");
  sym_cover!(i == usize::MAX, "usize::MAX");
  core::mem::forget(list);
}
proof!(c12_out_of_range_is_error, unwind = 3, out_of_range_is_error);

/// vacuity twin: must FAIL.
pub fn twin_must_fail() {
  let mut list = StatusList2021::default();
  let i: usize = any();
  assume(i < LEN);
  let _ = list.set(i, true);
  assert!(list.get(i).ok() == Some(false));
  core::mem::forget(list);
}
proof!(c12_twin_must_fail, unwind = 3, twin_must_fail);

pub const BODIES: &[(&str, fn())] = &[
  ("c12_two_writes_one_read", two_writes_one_read),
  ("c12_out_of_range_is_error", out_of_range_is_error),
  ("c12_twin_must_fail", twin_must_fail),
];
