//! C19 - OrderedSet: one inductive step from an arbitrary valid (duplicate-free) state of concrete length N,
//! with an arbitrary argument, against a list model on a fixed array.  One step from every valid state covers every
//! history over sets within the size bound.
use crate::sym::{any, assume};
use identity_core::common::{KeyComparable, OrderedSet};

/// element whose key is a projection
#[derive(Clone, Copy, Debug, PartialEq, Eq)]
pub struct KV {
  pub k: u8,
  pub v: u8,
}
impl KeyComparable for KV {
  type Key = u8;
  fn key(&self) -> &u8 {
    &self.k
  }
}

fn distinct<const N: usize>(a: &[u8; N]) -> bool {
  let mut i = 0;
  while i < N {
    let mut j = i + 1;
    while j < N {
      if a[i] == a[j] {
        return false;
      }
      j += 1;
    }
    i += 1;
  }
  true
}

fn state<const N: usize>() -> ([u8; N], OrderedSet<u8>) {
  // an arbitrary valid state: N appends that all succeed (= pairwise distinct keys, the representation invariant)
  let mut a = [0u8; N];
  let mut set: OrderedSet<u8> = OrderedSet::new();
  let mut i = 0;
  while i < N {
    a[i] = any();
    assume(set.append(a[i]));
    i += 1;
  }
  (a, set)
}

fn same<const M: usize>(set: &OrderedSet<u8>, want: &[u8; M], len: usize) {
  assert_eq!(set.len(), len);
  let s = set.as_slice();
  let mut i = 0;
  while i < len {
    assert_eq!(s[i], want[i]);
    i += 1;
  }
}

fn has<const N: usize>(a: &[u8; N], x: u8) -> bool {
  let mut i = 0;
  while i < N {
    if a[i] == x {
      return true;
    }
    i += 1;
  }
  false
}

pub fn append<const N: usize, const M: usize>() {
  let (a, mut set) = state::<N>();
  let x: u8 = any();
  let flag = set.append(x);
  let dup = has(&a, x);
  assert_eq!(flag, !dup);
  let mut want = [0u8; M];
  want[..N].copy_from_slice(&a);
  if !dup {
    want[N] = x;
  }
  same(&set, &want, if dup { N } else { N + 1 });
  sym_cover!(dup, "duplicate argument");
  sym_cover!(!dup, "fresh argument");
  core::mem::forget(set);
}

pub fn prepend<const N: usize, const M: usize>() {
  let (a, mut set) = state::<N>();
  let x: u8 = any();
  let flag = set.prepend(x);
  let dup = has(&a, x);
  assert_eq!(flag, !dup);
  let mut want = [0u8; M];
  if dup {
    want[..N].copy_from_slice(&a);
  } else {
    want[0] = x;
    want[1..N + 1].copy_from_slice(&a);
  }
  same(&set, &want, if dup { N } else { N + 1 });
  sym_cover!(!dup, "fresh argument");
  core::mem::forget(set);
}

pub fn remove<const N: usize, const M: usize>() {
  let (a, mut set) = state::<N>();
  let x: u8 = any();
  let got = set.remove(&x);
  let present = has(&a, x);
  assert_eq!(got, if present { Some(x) } else { None });
  let mut want = [0u8; M];
  let mut n = 0;
  let mut i = 0;
  while i < N {
    if a[i] != x {
      want[n] = a[i];
      n += 1;
    }
    i += 1;
  }
  same(&set, &want, n);
  sym_cover!(present, "present element removed");
  core::mem::forget(set);
}

/// list model of `change`: first position whose key is in `keys` gets `new`; every other element with such a key goes
fn model_change<const N: usize, const M: usize>(a: &[u8; N], keys: [u8; 2], new: u8) -> (bool, [u8; M], usize) {
  let mut want = [0u8; M];
  let mut n = 0;
  let mut done = false;
  let mut i = 0;
  while i < N {
    let hit = a[i] == keys[0] || a[i] == keys[1];
    if hit {
      if !done {
        want[n] = new;
        n += 1;
        done = true;
      }
    } else {
      want[n] = a[i];
      n += 1;
    }
    i += 1;
  }
  (done, want, n)
}

pub fn replace<const N: usize, const M: usize>() {
  let (a, mut set) = state::<N>();
  let (cur, upd): (u8, u8) = (any(), any());
  let flag = set.replace(&cur, upd);
  let (done, want, n) = model_change::<N, M>(&a, [cur, upd], upd);
  assert_eq!(flag, done);
  same(&set, &want, n);
  sym_cover!(done && cur != upd, "replacement by a different key");
  core::mem::forget(set);
}

pub fn update<const N: usize, const M: usize>() {
  let (a, mut set) = state::<N>();
  let upd: u8 = any();
  let flag = set.update(upd);
  let (done, want, n) = model_change::<N, M>(&a, [upd, upd], upd);
  assert_eq!(flag, done);
  same(&set, &want, n);
  core::mem::forget(set);
}

/// `change` (replace / update) on a *concrete* four-element set with symbolic arguments drawn from its keys and one
/// absent key: the drain / filter / extend machinery is out of CBMC's reach on symbolic contents (replace_1 hit the
/// 20-minute cap), concrete contents keep the heap concrete and leave the argument pair to the solver.
fn concrete4() -> ([u8; 4], OrderedSet<u8>) {
  let a = [10u8, 20, 30, 40];
  let mut set: OrderedSet<u8> = OrderedSet::new();
  let mut i = 0;
  while i < 4 {
    assert!(set.append(a[i]));
    i += 1;
  }
  (a, set)
}

fn key5() -> u8 {
  let k: u8 = any();
  assume(k == 10 || k == 20 || k == 30 || k == 40 || k == 50);
  k
}

pub fn replace_concrete_4() {
  let (a, mut set) = concrete4();
  let (cur, upd) = (key5(), key5());
  let flag = set.replace(&cur, upd);
  let (done, want, n) = model_change::<4, 4>(&a, [cur, upd], upd);
  assert_eq!(flag, done);
  same(&set, &want, n);
  sym_cover!(done && cur != upd && n == 3, "two present keys merged");
  core::mem::forget(set);
}

pub fn update_concrete_4() {
  let (a, mut set) = concrete4();
  let upd = key5();
  let flag = set.update(upd);
  let (done, want, n) = model_change::<4, 4>(&a, [upd, upd], upd);
  assert_eq!(flag, done);
  same(&set, &want, n);
  sym_cover!(done, "present key updated");
  core::mem::forget(set);
}
proof!(c19_replace_concrete_4, unwind = 7, replace_concrete_4);
proof!(c19_update_concrete_4, unwind = 7, update_concrete_4);

/// key = projection: replace keeps position and swaps in the *new* value; uniqueness is by key, not by value
pub fn replace_kv_2() {
  let ks: [u8; 2] = [any(), any()];
  assume(ks[0] != ks[1]);
  let vs: [u8; 2] = [any(), any()];
  let mut set = match OrderedSet::try_from(vec![KV { k: ks[0], v: vs[0] }, KV { k: ks[1], v: vs[1] }]) {
    Ok(s) => s,
    Err(e) => {
      core::mem::forget(e);
      panic!("rejected")
    }
  };
  let cur = KV { k: any(), v: any() };
  let upd = KV { k: any(), v: any() };
  let flag = set.replace(&cur, upd);
  let hit0 = ks[0] == cur.k || ks[0] == upd.k;
  let hit1 = ks[1] == cur.k || ks[1] == upd.k;
  assert_eq!(flag, hit0 || hit1);
  let s = set.as_slice();
  if hit0 {
    assert!(s[0] == upd);
    if hit1 {
      assert_eq!(s.len(), 1);
    } else {
      assert!(s.len() == 2 && s[1] == KV { k: ks[1], v: vs[1] });
    }
  } else if hit1 {
    assert!(s.len() == 2 && s[0] == KV { k: ks[0], v: vs[0] } && s[1] == upd);
  } else {
    assert!(s.len() == 2 && s[0] == KV { k: ks[0], v: vs[0] } && s[1] == KV { k: ks[1], v: vs[1] });
  }
  core::mem::forget(set);
}

/// TryFrom<Vec> rejects exactly the lists with duplicate keys; FromIterator keeps first occurrences
pub fn from_vec_3() {
  let a: [u8; 3] = [any(), any(), any()];
  let r = OrderedSet::try_from(a.to_vec());
  match r {
    Ok(s) => {
      assert!(distinct(&a));
      same(&s, &a, 3);
      core::mem::forget(s);
    }
    Err(e) => {
      assert!(!distinct(&a));
      core::mem::forget(e);
    }
  }
  let c: OrderedSet<u8> = a.iter().copied().collect();
  let mut want = [0u8; 3];
  let mut n = 0;
  let mut i = 0;
  while i < 3 {
    let mut seen = false;
    let mut j = 0;
    while j < i {
      if a[j] == a[i] {
        seen = true;
      }
      j += 1;
    }
    if !seen {
      want[n] = a[i];
      n += 1;
    }
    i += 1;
  }
  same(&c, &want, n);
  core::mem::forget(c);
}

macro_rules! inst {
  ($name:ident, $body:ident, $f:ident, $n:expr, $m:expr, $u:expr) => {
    pub fn $body() {
      $f::<$n, $m>()
    }
    proof!($name, unwind = $u, $body);
  };
}
inst!(c19_append_0, b_append_0, append, 0, 1, 3);
inst!(c19_append_1, b_append_1, append, 1, 2, 4);
inst!(c19_append_2, b_append_2, append, 2, 3, 5);
inst!(c19_append_3, b_append_3, append, 3, 4, 6);
inst!(c19_prepend_0, b_prepend_0, prepend, 0, 1, 3);
inst!(c19_prepend_1, b_prepend_1, prepend, 1, 2, 4);
inst!(c19_prepend_2, b_prepend_2, prepend, 2, 3, 5);
inst!(c19_prepend_3, b_prepend_3, prepend, 3, 4, 6);
inst!(c19_remove_1, b_remove_1, remove, 1, 1, 4);
inst!(c19_remove_2, b_remove_2, remove, 2, 2, 5);
inst!(c19_remove_3, b_remove_3, remove, 3, 3, 6);
inst!(c19_replace_1, b_replace_1, replace, 1, 1, 4);
inst!(c19_replace_2, b_replace_2, replace, 2, 2, 5);
inst!(c19_update_1, b_update_1, update, 1, 1, 4);
inst!(c19_update_2, b_update_2, update, 2, 2, 5);
proof!(c19_replace_kv_2, unwind = 5, replace_kv_2);
proof!(c19_from_vec_3, unwind = 6, from_vec_3);

pub fn twin_must_fail() {
  let (a, mut set) = state::<2>();
  let x: u8 = any();
  assert!(set.append(x));
  let _ = a;
  core::mem::forget(set);
}
proof!(c19_twin_must_fail, unwind = 5, twin_must_fail);

pub const BODIES: &[(&str, fn())] = &[
  ("c19_append_0", b_append_0),
  ("c19_append_1", b_append_1),
  ("c19_append_2", b_append_2),
  ("c19_append_3", b_append_3),
  ("c19_prepend_0", b_prepend_0),
  ("c19_prepend_1", b_prepend_1),
  ("c19_prepend_2", b_prepend_2),
  ("c19_prepend_3", b_prepend_3),
  ("c19_remove_1", b_remove_1),
  ("c19_remove_2", b_remove_2),
  ("c19_remove_3", b_remove_3),
  ("c19_replace_1", b_replace_1),
  ("c19_replace_2", b_replace_2),
  ("c19_update_1", b_update_1),
  ("c19_update_2", b_update_2),
  ("c19_replace_kv_2", replace_kv_2),
  ("c19_replace_concrete_4", replace_concrete_4),
  ("c19_update_concrete_4", update_concrete_4),
  ("c19_from_vec_3", from_vec_3),
  ("c19_twin_must_fail", twin_must_fail),
];
