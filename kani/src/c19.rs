//! C19 - OrderedSet: one inductive step from an arbitrary valid (duplicate-free) state of concrete length N,
//! with an arbitrary argument, against a list model on a fixed array.  One step from every valid state covers every
//! history over sets within the size bound.
use crate::sym::{any, assume};
use identity_core::common::{KeyComparable, OrderedSet};

/// element whose key is a projection
#[derive(Clone, Copy, Debug, PartialEq, Eq)]
pub struct KV {
  pub k: u8,
  pub v: u8,
}
impl KeyComparable for KV {
  type Key = u8;
  fn key(&self) -> &u8 {
    &self.k
  }
}

fn distinct<const N: usize>(a: &[u8; N]) -> bool {
  let mut i = 0;
  while i < N {
    let mut j = i + 1;
    while j < N {
      if a[i] == a[j] {
        return false;
      }
      j += 1;
    }
    i += 1;
  }
  true
}

fn state<const N: usize>() -> ([u8; N], OrderedSet<u8>) {
  // an arbitrary valid state: N appends that all succeed (= pairwise distinct keys, the representation invariant)
  let mut a = [0u8; N];
  let mut set: OrderedSet<u8> = OrderedSet::new();
  let mut i = 0;
  while i < N {
    a[i] = any();
    assume(set.append(a[i]));
    i += 1;
  }
  (a, set)
}

fn same<const M: usize>(set: &OrderedSet<u8>, want: &[u8; M], len: usize) {
  assert_eq!(set.len(), len);
  let s = set.as_slice();
  let mut i = 0;
  while i < len {
    assert_eq!(s[i], want[i]);
    i += 1;
  }
}

fn has<const N: usize>(a: &[u8; N], x: u8) -> bool {
  let mut i = 0;
  while i < N {
    if a[i] == x {
      return true;
    }
    i += 1;
  }
  false
}

pub fn append<const N: usize, const M: usize>() {
  let (a, mut set) = state::<N>();
  let x: u8 = any();
  let flag = set.append(x);
  let dup = has(&a, x);
  assert_eq!(flag, !dup);
  let mut want = [0u8; M];
  want[..N].copy_from_slice(&a);
  if !dup {
    want[N] = x;
  }
  same(&set, &want, if dup { N } else { N + 1 });
  sym_cover!(dup, "duplicate argument");
  sym_cover!(!dup, "fresh argument");
  core::mem::forget(set);
}

pub fn prepend<const N: usize, const M: usize>() {
  let (a, mut set) = state::<N>();
  let x: u8 = any();
  let flag = set.prepend(x);
  let dup = has(&a, x);
  assert_eq!(flag, !dup);
  let mut want = [0u8; M];
  if dup {
    want[..N].copy_from_slice(&a);
  } else {
    want[0] = x;
    want[1..N + 1].copy_from_slice(&a);
  }
  same(&set, &want, if dup { N } else { N + 1 });
  sym_cover!(!dup, "fresh argument");
  core::mem::forget(set);
}

pub fn remove<const N: usize, const M: usize>() {
  let (a, mut set) = state::<N>();
  let x: u8 = any();
  let got = set.remove(&x);
  let present = has(&a, x);
  assert_eq!(got, if present { Some(x) } else { None });
  let mut want = [0u8; M];
  let mut n = 0;
  let mut i = 0;
  while i < N {
    if a[i] != x {
      want[n] = a[i];
      n += 1;
    }
    i += 1;
  }
  same(&set, &want, n);
  sym_cover!(present, "present element removed");
  core::mem::forget(set);
}

// `change` (replace / update) has no harness: on symbolic contents of length 1 and 2, on a projection-key instance and on a
// concrete four-element set every attempt hit a 20-30 minute cap (drain / filter / collect / extend on CBMC's heap model);
// it is decided by the M binding audit in checks/c19.py and exercised by the native battery only.

/// FromIterator on elements whose key is a projection: the *first* element of every key is kept, with its own content
pub fn collect_kv_3() {
  let e: [KV; 3] = [KV { k: any(), v: any() }, KV { k: any(), v: any() }, KV { k: any(), v: any() }];
  let c: OrderedSet<KV> = e.iter().cloned().collect();
  let s = c.as_slice();
  let d1 = e[1].k != e[0].k;
  let d2 = e[2].k != e[0].k && e[2].k != e[1].k;
  let n = 1 + d1 as usize + d2 as usize;
  assert_eq!(s.len(), n);
  assert!(s[0] == e[0]);
  if d1 {
    assert!(s[1] == e[1]);
  }
  if d2 {
    assert!(s[n - 1] == e[2]);
  }
  sym_cover!(!d1 && e[1].v != e[0].v, "repeated key with different content");
  core::mem::forget(c);
}
proof!(c19_collect_kv_3, unwind = 6, collect_kv_3);

/// TryFrom<Vec> rejects exactly the lists with duplicate keys; FromIterator keeps first occurrences
pub fn from_vec_3() {
  let a: [u8; 3] = [any(), any(), any()];
  let r = OrderedSet::try_from(a.to_vec());
  match r {
    Ok(s) => {
      assert!(distinct(&a));
      same(&s, &a, 3);
      core::mem::forget(s);
    }
    Err(e) => {
      assert!(!distinct(&a));
      core::mem::forget(e);
    }
  }
  let c: OrderedSet<u8> = a.iter().copied().collect();
  let mut want = [0u8; 3];
  let mut n = 0;
  let mut i = 0;
  while i < 3 {
    let mut seen = false;
    let mut j = 0;
    while j < i {
      if a[j] == a[i] {
        seen = true;
      }
      j += 1;
    }
    if !seen {
      want[n] = a[i];
      n += 1;
    }
    i += 1;
  }
  same(&c, &want, n);
  core::mem::forget(c);
}

macro_rules! inst {
  ($name:ident, $body:ident, $f:ident, $n:expr, $m:expr, $u:expr) => {
    pub fn $body() {
      $f::<$n, $m>()
    }
    proof!($name, unwind = $u, $body);
  };
}
inst!(c19_append_0, b_append_0, append, 0, 1, 3);
inst!(c19_append_1, b_append_1, append, 1, 2, 4);
inst!(c19_append_2, b_append_2, append, 2, 3, 5);
inst!(c19_append_3, b_append_3, append, 3, 4, 6);
inst!(c19_prepend_0, b_prepend_0, prepend, 0, 1, 3);
inst!(c19_prepend_1, b_prepend_1, prepend, 1, 2, 4);
inst!(c19_prepend_2, b_prepend_2, prepend, 2, 3, 5);
inst!(c19_remove_1, b_remove_1, remove, 1, 1, 4);
inst!(c19_remove_2, b_remove_2, remove, 2, 2, 5);
inst!(c19_remove_3, b_remove_3, remove, 3, 3, 6);
proof!(c19_from_vec_3, unwind = 6, from_vec_3);

pub fn twin_must_fail() {
  let (a, mut set) = state::<2>();
  let x: u8 = any();
  assert!(set.append(x));
  let _ = a;
  core::mem::forget(set);
}
proof!(c19_twin_must_fail, unwind = 5, twin_must_fail);

pub const BODIES: &[(&str, fn())] = &[
  ("c19_append_0", b_append_0),
  ("c19_append_1", b_append_1),
  ("c19_append_2", b_append_2),
  ("c19_append_3", b_append_3),
  ("c19_prepend_0", b_prepend_0),
  ("c19_prepend_1", b_prepend_1),
  ("c19_prepend_2", b_prepend_2),
  ("c19_remove_1", b_remove_1),
  ("c19_remove_2", b_remove_2),
  ("c19_remove_3", b_remove_3),
  ("c19_from_vec_3", from_vec_3),
  ("c19_collect_kv_3", collect_kv_3),
  ("c19_twin_must_fail", twin_must_fail),
];
