//! Source of symbolic values: `kani::any()` under Kani, a recorded counterexample natively (replay crate).
//! Harness bodies are written once against this module and compiled by both.

#[cfg(kani)]
mod imp {
  pub fn any<T: kani::Arbitrary>() -> T {
    kani::any()
  }
  pub fn assume(c: bool) {
    kani::assume(c)
  }
}

#[cfg(not(kani))]
mod imp {
  use std::cell::RefCell;
  use std::collections::VecDeque;
  thread_local! {
    pub static VALS: RefCell<VecDeque<Vec<u8>>> = RefCell::new(VecDeque::new());
  }
  pub struct AssumeViolated;
  pub struct OutOfValues;

  pub trait FromLe: Sized {
    fn from_le(b: &[u8]) -> Self;
  }
  macro_rules! int_from_le {
    ($($t:ty),*) => {$(impl FromLe for $t {
      fn from_le(b: &[u8]) -> Self {
        let mut a = [0u8; core::mem::size_of::<$t>()];
        let n = a.len().min(b.len());
        a[..n].copy_from_slice(&b[..n]);
        <$t>::from_le_bytes(a)
      }
    })*};
  }
  int_from_le!(u8, u16, u32, u64, u128, usize, i8, i16, i32, i64, i128, isize);
  impl FromLe for bool {
    fn from_le(b: &[u8]) -> Self {
      b.first().copied().unwrap_or(0) & 1 == 1
    }
  }
  impl FromLe for char {
    fn from_le(b: &[u8]) -> Self {
      char::from_u32(<u32 as FromLe>::from_le(b)).unwrap_or('\u{fffd}')
    }
  }
  impl<const N: usize> FromLe for [u8; N] {
    fn from_le(b: &[u8]) -> Self {
      let mut a = [0u8; N];
      let n = N.min(b.len());
      a[..n].copy_from_slice(&b[..n]);
      a
    }
  }
  pub fn any<T: FromLe>() -> T {
    // Kani's concrete playback lists an array element by element: gather as many entries as the value needs
    let want = core::mem::size_of::<T>().max(1);
    let mut bytes: Vec<u8> = Vec::new();
    loop {
      let v = VALS.with(|q| q.borrow_mut().pop_front());
      match v {
        Some(v) => bytes.extend_from_slice(&v),
        None if bytes.is_empty() => std::panic::panic_any(OutOfValues),
        None => break,
      }
      if bytes.len() >= want {
        break;
      }
    }
    T::from_le(&bytes)
  }
  pub fn assume(c: bool) {
    if !c {
      std::panic::panic_any(AssumeViolated);
    }
  }
  pub fn load(vals: Vec<Vec<u8>>) {
    VALS.with(|q| *q.borrow_mut() = vals.into());
  }
}

pub use imp::*;

/// vacuity witness: `kani::cover!` under Kani, nothing natively
#[macro_export]
macro_rules! sym_cover {
  ($c:expr, $m:literal) => {{
    #[cfg(kani)]
    kani::cover!($c, $m);
    #[cfg(not(kani))]
    let _ = $c;
  }};
}

/// declares the Kani proof wrapper of a body function
#[macro_export]
macro_rules! proof {
  ($name:ident, unwind = $u:expr, $body:path) => {
    #[cfg(kani)]
    #[kani::proof]
    #[kani::unwind($u)]
    fn $name() {
      $body()
    }
  };
}
