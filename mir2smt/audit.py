"""Binding audit of acyclic orchestrators (engine M, second mode).

The orchestrator's MIR is executed symbolically with every non-inlined callee as an uninterpreted function of its
arguments.  A requirement is a predicate over one path (its return value term, its call log and its path
condition); for each requirement the solver is asked whether a feasible path violates it.
"""
import re
import z3
from core import Ob, HELD, VIOLATED, INCONCLUSIVE, KNOWN
from execu import Exec, State, Refuse, CallRec, VOver
from values import *
import models
import panicmodels  # noqa: panic-capable std callees, enabled per audit via extra_models=panicmodels.PANIC_MODELS
import vc


def sym_args(func, names=None):
    """one opaque leaf per argument, named after the source-level parameter"""
    out = []
    for i, (n, ty) in enumerate(func.args):
        nm = [k for k, v in func.debug.items() if v == n]
        leaf = (names[i] if names else None) or (nm[0] if nm else 'arg%d' % n)
        out.append(VSym(('leaf', leaf), ty))
    return out


class Path:
    """wrapper over an Outcome with query helpers"""

    def __init__(self, ex, o):
        self.ex, self.o = ex, o
        self.kind, self.val, self.msg = o.kind, o.val, o.msg
        self.st = o.st
        self.calls = o.st.calls

    # -- result shape ---------------------------------------------------------------------------------------------
    def is_ok(self):
        return isinstance(self.val, VAgg) and self.val.variant in ('Ok', 'Some')

    def is_err(self):
        return isinstance(self.val, VAgg) and self.val.variant in ('Err', 'None')

    def payload(self):
        return self.val.fields[0] if isinstance(self.val, VAgg) and self.val.fields else None

    def term(self, v=None):
        return self.ex.to_term(self.st, self.val if v is None else v)

    # -- call log ---------------------------------------------------------------------------------------------------
    def find_calls(self, pattern):
        r = re.compile(pattern)
        return [c for c in self.calls if r.search(c.name)]

    def implies(self, cond):
        """path condition => cond (solver)"""
        return not self.ex.feasible(self.st.pc + [z3.Not(cond)])

    def consistent(self, cond):
        return self.ex.feasible(self.st.pc + [cond])

    def took(self, rec_or_term, variant):
        """did this path branch on the given opaque result being `variant` (Ok/Err/Some/None/true/false)?"""
        t = rec_or_term.ret if isinstance(rec_or_term, CallRec) else rec_or_term
        if t is None:
            return False
        if variant in ('true', 'false'):
            b = self.ex.sym_bool(t).e
            return self.implies(b if variant == 'true' else z3.Not(b))
        idx = {'Ok': 0, 'Err': 1, 'None': 0, 'Some': 1, 'Continue': 0, 'Break': 1}[variant]
        d = self.ex.discr_var(t)
        return self.implies(d == z3.BitVecVal(idx, 64))


def subterms(t):
    yield t
    if isinstance(t, tuple):
        for a in t:
            if isinstance(a, (tuple, list)):
                yield from subterms(a)
    elif isinstance(t, list):
        for a in t:
            yield from subterms(a)


def apps(t, pattern):
    r = re.compile(pattern)
    return [s for s in subterms(t) if isinstance(s, tuple) and len(s) == 4 and s[0] == 'app' and r.search(s[1])]


def leaves(t):
    return term_leaves(t)


def mentions(t, leaf_pattern):
    r = re.compile(leaf_pattern)
    return any(r.search(x) for x in term_leaves(t))


WRAPPERS = re.compile(r'(Into<.*>>::into|From<.*>>::from|::as_ref|::as_bytes|::deref|Deref>::deref|::as_str|::as_slice|'
                      r'Box::<.*>::new|Box::new|::borrow|AsRef<.*>>::as_ref|::clone|Clone>::clone|::to_owned|ToOwned>::to_owned|'
                      r'::unwrap_or_default|::into_boxed_slice|::as_deref|::to_vec|::to_string|ToString>::to_string)$')


def strip(t):
    """remove value-preserving wrappers (references, identity conversions, clones) from the top of a term"""
    while isinstance(t, tuple):
        if t[0] == 'ref':
            t = t[1]
        elif t[0] == 'deref':
            t = t[1]
        elif t[0] == 'app' and len(t[2]) == 1 and WRAPPERS.search(t[1]):
            t = t[2][0]
        elif t[0] == 'agg' and t[2] in ('Some', 'Ok', 'Borrowed', 'Owned') and len(t[3]) == 1 and False:
            t = t[3][0]
        elif t[0] == 'field' and isinstance(t[1], tuple) and t[1][0] == 'agg' and isinstance(t[2], int) and t[2] < len(t[1][3]):
            t = t[1][3][t[2]]
        else:
            break
    return t


def field_path(t):
    """for a term that is a chain of field/deref/ref projections over a leaf: (leaf, [(variant, idx), ...]) else None"""
    path = []
    while isinstance(t, tuple):
        if t[0] in ('ref', 'deref'):
            t = t[1]
        elif t[0] == 'field':
            path.append((t[3], t[2]))
            t = t[1]
        elif t[0] == 'leaf':
            return t[1], list(reversed(path))
        else:
            return None
    return None


def file_of(name):
    """source file of a method (`<impl at FILE:..>`) or the module path of a free function"""
    m = re.search(r'<impl at ([^:>]+):', name)
    if m:
        return m.group(1)
    parts = name.split('::')
    return '::'.join(parts[:-1]) if len(parts) > 1 else None


def has_back_edge(f):
    """a jump to a block with a smaller or equal id (loops); conservative"""
    for b in f.blocks.values():
        t = b.term
        if not t:
            continue
        targets = [x for x in flatten(t) if isinstance(x, int)]
        if t[0] in ('goto',) and isinstance(t[1], int) and t[1] <= b.id:
            return True
        if t[0] == 'switch' and any(isinstance(x, int) and x <= b.id for x in targets[0:]):
            # switch targets include values as well as block ids: only treat as a loop if some goto elsewhere closes it
            pass
    return False


def flatten(t):
    for x in t:
        if isinstance(x, (tuple, list)):
            yield from flatten(x)
        else:
            yield x


class Auditor:
    def __init__(self, ctx, prog, engine_label='M-audit', only=None):
        self.ctx, self.prog = ctx, prog
        self.label = engine_label
        # `only`: regex of obligation names; the others are neither decided nor recorded (a check of one property re-using
        # selected obligations of another property's audit)
        self.only = re.compile(only) if only else None

    def wants(self, name):
        return self.only is None or bool(self.only.search(name))

    def paths(self, func, inline=None, args=None, extra_models=None, max_depth=6, state=None, unwind=1, allow_bound=False,
              same_file=False):
        """symbolically execute `func`; `inline` = regex of callee names that are inlined (others uninterpreted);
        same_file: additionally inline loop-free helpers defined in the same source file as `func` (so that moving code
        into a helper does not hide it)"""
        rx = re.compile(inline) if inline else None
        home = file_of(func.name)

        def pred(f, d):
            if rx and rx.search(f.name):
                return True
            return bool(same_file and home and file_of(f.name) == home and f.name != func.name and len(f.blocks) <= 60 and not has_back_edge(f))
        ex = Exec(self.prog, models=(extra_models or []) + models.MODELLED,
                  inline=pred, max_depth=max_depth, unwind=unwind)
        st = state or State()
        outs = ex.run(func, args if args is not None else sym_args(func), st)
        self.last_ex = ex
        bad = [o for o in outs if o.kind in ('bound', 'unreachable')]
        if any(o.kind == 'bound' for o in outs) and not allow_bound:
            raise Refuse('loop bound reached in %s' % func.name)
        self.last_bound_hits = sum(1 for o in outs if o.kind == 'bound')
        for f in ex.encoded:
            self.ctx.functions.add(f)
        return [Path(ex, o) for o in outs if o.kind in ('return', 'panic')], ex

    def require(self, name, paths, pred, replay=None, finding_key=None, only=None):
        """pred(path) -> None (satisfied) | str (violation description).  One obligation."""
        import time
        if not self.wants(name):
            return True
        t0 = time.time()
        viol = []
        n = 0
        for p in paths:
            if only and not only(p):
                continue
            n += 1
            r = pred(p)
            if r:
                viol.append((r, p))
        ex = paths[0].ex if paths else None
        if n == 0:
            self.ctx.add(Ob(name, 'M', INCONCLUSIVE, detail='no path matches the requirement\'s scope (vacuous)'))
            return False
        if not viol:
            self.ctx.add(Ob(name, 'M', HELD, solver_s=time.time() - t0, queries=n,
                            sample='%s: %d feasible paths in scope, none violates' % (name, n)))
            return True
        # every reported path is feasible (pruned during exploration); re-confirm with a fresh solver
        what, p = viol[0]
        v = vc.check_formulas([(what, p.st.pc)], diff=False)
        if v.status != 'sat':
            self.ctx.add(Ob(name, 'M', INCONCLUSIVE, detail='violating path not confirmed feasible: %s' % what))
            return False
        detail = '%s [path: %s]' % (what, '; '.join(short_call(c) for c in p.calls if not c.inlined)[:500])
        f = self.ctx.known(finding_key) if finding_key else None
        from replay import run_replay
        if replay is None:
            self.ctx.add(Ob(name, 'M', INCONCLUSIVE, detail='candidate without native scenario: ' + detail,
                            solver_s=time.time() - t0, queries=n))
            return False
        if isinstance(replay, list):
            # several native batteries observe this obligation: the first that reproduces decides
            res = None
            for rp in replay:
                res = run_replay(rp)
                if res.get('reproduced'):
                    replay = rp
                    break
            else:
                replay = replay[0]
        else:
            res = run_replay(replay)
        if res.get('reproduced'):
            if f is not None:
                self.ctx.add(Ob(name, 'M', KNOWN, detail=detail, finding=f, solver_s=time.time() - t0, queries=n))
            else:
                self.ctx.add(Ob(name, 'M', VIOLATED, detail=detail + ' | native: ' + res.get('detail', ''), cex={'path': detail},
                                replay=replay, solver_s=time.time() - t0, queries=n))
        else:
            self.ctx.add(Ob(name, 'M', INCONCLUSIVE, detail='audit candidate did not reproduce natively (%s): %s' %
                            (res.get('detail', ''), detail), solver_s=time.time() - t0, queries=n))
        return False

    def no_panic(self, name, paths, replay=None, finding_key=None, allow=None):
        def pred(p):
            if p.kind == 'panic' and not (allow and re.search(allow, p.msg)):
                return 'panic reachable: ' + p.msg
            return None
        return self.require(name, paths, pred, replay=replay, finding_key=finding_key)


def short_call(c):
    return '%s(%s)' % (short(c.name).split('::')[-1], ', '.join(term_str(a)[:60] for a in c.args))
