"""Verification-condition helper for engine M: negated property per path, z3 verdict, optional cvc5 diff."""
import os
import subprocess
import tempfile
import time
import z3

CVC5 = os.environ.get('VERIF_CVC5', '1') != '0'


class Verdict:
    def __init__(self, status, model=None, queries=0, secs=0.0, note=''):
        self.status, self.model, self.queries, self.secs, self.note = status, model, queries, secs, note


def check_formulas(goals, timeout_ms=60000, diff=True):
    """goals: list of (label, [z3 Bool ...]) - each is a conjunction that must be UNSAT for the property to hold.
    returns Verdict('unsat'|'sat'|'unknown')."""
    t0 = time.time()
    q = 0
    for label, conj in goals:
        s = z3.Solver()
        s.set('timeout', timeout_ms)
        for c in conj:
            s.add(c)
        q += 1
        r = s.check()
        if r == z3.sat:
            return Verdict('sat', (label, s.model()), q, time.time() - t0)
        if r == z3.unknown:
            return Verdict('unknown', None, q, time.time() - t0, 'z3 unknown on %s: %s' % (label, s.reason_unknown()))
        if diff and CVC5:
            ok, note = cvc5_unsat(s)
            q += 1
            if ok is False:
                return Verdict('unknown', None, q, time.time() - t0, 'solver disagreement on %s: %s' % (label, note))
    return Verdict('unsat', None, q, time.time() - t0)


def cvc5_unsat(solver, timeout_s=60):
    """re-check an UNSAT z3 query with cvc5 (binary); returns (True|False|None, note). None = cvc5 could not decide."""
    try:
        txt = '(set-logic ALL)\n' + solver.to_smt2()
        with tempfile.NamedTemporaryFile('w', suffix='.smt2', delete=False) as fh:
            fh.write(txt)
            path = fh.name
        p = subprocess.run(['cvc5', '--lang', 'smt2', '--tlimit=%d' % (timeout_s * 1000), path],
                           capture_output=True, text=True, timeout=timeout_s + 10)
        os.unlink(path)
        out = p.stdout.strip().split('\n')[0] if p.stdout.strip() else ''
        if '(error' in p.stdout or '(error' in p.stderr:
            return None, 'cvc5 error: ' + (p.stdout + p.stderr)[:200]
        if out == 'unsat':
            return True, ''
        if out == 'sat':
            return False, 'cvc5 says sat'
        return None, 'cvc5: ' + out[:80]
    except Exception as e:   # cvc5 missing or timeout: not a disagreement
        return None, 'cvc5 unavailable: %r' % (e,)


def model_vals(model, vars_):
    out = {}
    for name, v in vars_.items():
        try:
            val = model.eval(v, model_completion=True)
            if z3.is_bv_value(val):
                out[name] = val.as_long()
            elif z3.is_true(val) or z3.is_false(val):
                out[name] = z3.is_true(val)
            else:
                out[name] = str(val)
        except Exception:
            out[name] = '?'
    return out
