"""Check framework shared by all properties: obligations, verdicts, known findings, evidence, exit codes.

Exit codes: 0 = every obligation held (known findings are reported as KNOWN-FINDING lines);
            1 = a violation that reproduces natively (VIOLATION line printed);
            2 = inconclusive (solver unknown/timeout, encoder refusal, candidate that does not reproduce).
"""
import json
import os
import sys
import time
import subprocess
import traceback

VERIF = os.path.dirname(os.path.dirname(os.path.abspath(__file__)))
REPO = os.environ.get('VERIF_REPO', '/repo')
EVID = os.path.join(VERIF, 'evidence')
FINDINGS = os.path.join(VERIF, 'findings', 'known_findings.json')
CEX_DIR = os.path.join(VERIF, '.build', 'cex')

HELD, VIOLATED, INCONCLUSIVE, KNOWN = 'held', 'violated', 'inconclusive', 'known-finding'


class Ob:
    """one proof obligation (a solver query or a Kani harness)"""

    def __init__(self, name, engine, status, detail='', sample=None, cex=None, solver_s=0.0, queries=1,
                 functions=(), bounds='', finding=None, replay=None):
        self.name, self.engine, self.status, self.detail = name, engine, status, detail
        self.sample, self.cex, self.solver_s, self.queries = sample, cex, solver_s, queries
        self.functions, self.bounds, self.finding, self.replay = list(functions), bounds, finding, replay

    def as_json(self):
        d = {'name': self.name, 'engine': self.engine, 'status': self.status}
        if self.detail:
            d['detail'] = self.detail[:600]
        if self.bounds:
            d['bounds'] = self.bounds
        if self.cex is not None:
            d['counterexample'] = self.cex
        return d


def load_findings(prop):
    try:
        data = json.load(open(FINDINGS))
    except FileNotFoundError:
        return []
    return [f for f in data.get('findings', []) if f.get('property') == prop and f.get('status', 'known') == 'known']


class Ctx:
    def __init__(self, prop, tier, seed):
        self.prop, self.tier, self.seed = prop, tier, seed
        self.obs = []
        self.assumptions = []
        self.functions = set()
        self.stubs = []
        self.bounds = []
        self.outside = []
        self.t0 = time.time()
        self.findings = load_findings(prop)
        self.extra = {}
        self.samples = []

    def known(self, key):
        for f in self.findings:
            if f.get('key') == key:
                return f
        return None

    def add(self, ob):
        self.obs.append(ob)
        tag = {HELD: 'ok  ', VIOLATED: 'FAIL', INCONCLUSIVE: '??  ', KNOWN: 'known'}[ob.status]
        print('[%s] %-5s %s %s (%.1fs) %s' % (self.prop, tag, ob.engine, ob.name, ob.solver_s,
                                               ('- ' + ob.detail[:200]) if ob.detail and ob.status != HELD else ''),
              flush=True)
        for f in ob.functions:
            self.functions.add(f)

    def finish(self):
        wall = time.time() - self.t0
        viol = [o for o in self.obs if o.status == VIOLATED]
        inc = [o for o in self.obs if o.status == INCONCLUSIVE]
        known = [o for o in self.obs if o.status == KNOWN]
        held = [o for o in self.obs if o.status == HELD]
        os.makedirs(EVID, exist_ok=True)
        os.makedirs(CEX_DIR, exist_ok=True)
        for o in known:
            print('KNOWN-FINDING: property=%s %s' % (self.prop, o.finding.get('what', o.name) if o.finding else o.name))
        replay_paths = []
        for o in viol:
            path = os.path.join(CEX_DIR, '%s_%s.json' % (self.prop, o.name.replace('/', '_').replace(' ', '_')))
            with open(path, 'w') as fh:
                json.dump({'property': self.prop, 'obligation': o.name, 'engine': o.engine, 'detail': o.detail,
                           'counterexample': o.cex, 'replay': o.replay}, fh, indent=1, default=str)
            replay_paths.append(path)
            print('VIOLATION property=%s replay=%s' % (self.prop, path))
            print('  obligation %s: %s' % (o.name, o.detail[:400]))
        queries = sum(o.queries for o in self.obs)
        samples = self.samples[:6] or [o.sample for o in self.obs if o.sample][:6] or [o.name for o in self.obs[:6]]
        ev = {
            'property_id': self.prop,
            'tier': self.tier,
            'seed': self.seed,
            'level': 'other',
            'coverage': {
                'explanation': 'bounded symbolic verification of the real code: MIR re-dumped from /repo (engine M, mir2smt -> z3) '
                               'and/or compiled code under Kani/CBMC (engine K); each obligation is a solver verdict over all '
                               'values inside the stated bounds',
                'obligations': len(self.obs),
                'discharged': len(held),
                'known_findings': len(known),
                'violated': len(viol),
                'inconclusive': len(inc),
                'evaluations': max(1, queries),
                'distinct_nontrivial': max(2, len(self.obs)) if len(self.obs) >= 2 else len(self.obs),
                'rule': 'one evaluation = one solver query (z3 check-sat or one CBMC run); distinct = distinct obligations',
                'samples': samples,
                'solver_queries': queries,
                'solver_time_s': round(sum(o.solver_s for o in self.obs), 2),
                'functions_encoded': sorted(self.functions),
                'bounds': self.bounds,
                'stubs': self.stubs,
                'outside_claim': self.outside,
                'obligation_list': [o.as_json() for o in self.obs],
                'checker_cmd': 'bin/check %s --tier %s' % (self.prop, self.tier),
                'trusted_base': ['rustc nightly MIR dump', 'mir2smt translator (validated against native runs in replay selftest)',
                                 'z3', 'Kani 0.68 / CBMC 6.11'],
            },
            'assumptions': self.assumptions + ['outside the claim: ' + x for x in self.outside],
            'wall_s': round(wall, 2),
            'violations': len(viol),
        }
        ev['coverage'].update(self.extra)
        if os.environ.get('VERIF_NO_EVIDENCE') != '1':   # seeded-change runs (bin/seedcheck) must not overwrite the evidence
            with open(os.path.join(EVID, self.prop + '.json'), 'w') as fh:
                json.dump(ev, fh, indent=1, default=str)
        print('[%s] %d obligations: %d held, %d known findings, %d violated, %d inconclusive; %.1fs' %
              (self.prop, len(self.obs), len(held), len(known), len(viol), len(inc), wall))
        if viol:
            return 1
        if inc:
            for o in inc:
                print('INCONCLUSIVE %s: %s' % (o.name, o.detail[:300]))
            return 2
        return 0


def guarded(ctx, name, engine, fn):
    """run an obligation producer; encoder refusals and crashes are inconclusive, never a pass"""
    try:
        fn()
    except Exception as e:   # noqa
        tb = traceback.format_exc()
        ctx.add(Ob(name, engine, INCONCLUSIVE, detail='%s: %s | %s' % (type(e).__name__, e, tb[-700:].replace('\n', ' / '))))
