"""Python models of the listed `core`/`alloc` functions (everything else is uninterpreted).

Each model: fn(ex, st, fr, name, args, dest_ty) -> list[(state, value, kind, msg)] | None (= not applicable).
The list of modelled functions is part of every claim (evidence: `modelled_core_functions`).
"""
import re
import z3
from values import *
from execu import Refuse, VOver, base_ident, BUILTIN_VARIANTS, strip_generics, CallRec

MODELLED = []


def model(pattern):
    def deco(fn):
        MODELLED.append((re.compile(pattern), fn))
        fn.pattern = pattern
        return fn
    return deco


def ok(st, v):
    return [(st, v, 'ok', '')]


def enum_split(ex, st, v, ty, names):
    """case split of an Option/Result-like value into its variants.
    returns list of (state, variant_name, payload_getter)"""
    tab = BUILTIN_VARIANTS[ty]
    if isinstance(v, VAgg):
        return [(st, v.variant, lambda i=0, v=v: v.fields[i])]
    if isinstance(v, (VSym, VOver)):
        term = v.term if isinstance(v, VSym) else v.base.term
        d = ex.discr_var(term)
        out = []
        for nm in names:
            cond = d == z3.BitVecVal(tab[nm], 64)
            if ex.feasible(st.pc + [cond]):
                s2 = st.fork()
                s2.pc.append(cond)
                out.append((s2, nm, (lambda i=0, term=term, nm=nm, v=v: (
                    v.over[(nm, i)] if isinstance(v, VOver) and (nm, i) in v.over else VSym(('field', term, i, nm))))))
        return out
    raise Refuse('enum_split on %r' % (v,))


def mk(ty, variant, *fields):
    return VAgg(ty, variant, list(fields))


def log(ex, st, fr, name, args, ret=None):
    st.calls.append(CallRec(strip_generics(name), [ex.to_term(st, a) for a in args], None, fr.depth,
                            fr.func.name, True, args))


def call_fn_value(ex, st, fr, fv, args):
    """call closure or fn item value; returns list of (st, v, kind, msg)"""
    if isinstance(fv, VFn):
        r = ex.call_closure(st, fr, fv, args)
        if r is not None:
            return r
        nm = strip_generics(fv.name)
        # identity-like conversions and tuple-struct / variant constructors
        if re.search(r'as (std::convert::)?From<.*>>::from$', nm) or nm.endswith('::from'):
            return ex.call_named(st, fr, fv.name, args, '')
        return ex.call_named(st, fr, fv.name, args, '')
    if isinstance(fv, VSym):
        # a function value the caller supplied (generic F): an uninterpreted application of it, recorded as a call
        return ex.uninterp(st, fr, '<%s as FnOnce>::call_once' % term_str(ex.to_term(st, fv)), [fv] + list(args), '')
    raise Refuse('call of %r' % (fv,))


# ---- Option / Result ---------------------------------------------------------------------------------------

@model(r'(^|::)Option::ok_or$')
def option_ok_or(ex, st, fr, name, args, dty):
    out = []
    for s2, nm, get in enum_split(ex, st, args[0], 'Option', ['None', 'Some']):
        out.append((s2, mk('Result', 'Ok', get()) if nm == 'Some' else mk('Result', 'Err', args[1]), 'ok', ''))
    return out


@model(r'(^|::)Option::ok_or_else$')
def option_ok_or_else(ex, st, fr, name, args, dty):
    out = []
    for s2, nm, get in enum_split(ex, st, args[0], 'Option', ['None', 'Some']):
        if nm == 'Some':
            out.append((s2, mk('Result', 'Ok', get()), 'ok', ''))
        else:
            for (s3, v, k, m) in call_fn_value(ex, s2, fr, args[1], []):
                out.append((s3, mk('Result', 'Err', v) if k == 'ok' else None, k, m))
    return out


@model(r'(^|::)(Option|Result)::(is_some|is_none|is_ok|is_err)$')
def is_variant(ex, st, fr, name, args, dty):
    which = strip_generics(name).split('::')[-1]
    ty = 'Option' if which in ('is_some', 'is_none') else 'Result'
    want = {'is_some': 'Some', 'is_none': 'None', 'is_ok': 'Ok', 'is_err': 'Err'}[which]
    v = args[0]
    if isinstance(v, VRef):
        v = ex.load(st, v.cell, v.path)
    if isinstance(v, VAgg):
        return ok(st, VBool(v.variant == want))
    if isinstance(v, (VSym, VOver)):
        term = v.term if isinstance(v, VSym) else v.base.term
        d = ex.discr_var(term)
        st.pc.append(z3.ULT(d, 2))
        return ok(st, VBool(d == z3.BitVecVal(BUILTIN_VARIANTS[ty][want], 64)))
    raise Refuse('is_variant on %r' % (v,))


@model(r'(^|::)(Option|Result)::(unwrap|expect|unwrap_err|expect_err)$')
def unwrap(ex, st, fr, name, args, dty):
    which = strip_generics(name).split('::')
    ty, m = which[-2], which[-1]
    ty = base_ident(ty)
    good = {'Option': 'Some', 'Result': 'Ok'}[ty]
    if m.endswith('_err'):
        good = 'Err'
    names = ['None', 'Some'] if ty == 'Option' else ['Ok', 'Err']
    out = []
    for s2, nm, get in enum_split(ex, st, args[0], ty, names):
        if nm == good:
            out.append((s2, get(), 'ok', ''))
        else:
            out.append((s2, None, 'panic', '%s::%s on %s in %s' % (ty, m, nm, fr.func.name)))
    return out


@model(r'(^|::)(Option|Result)::(map|map_err|and_then|or_else|unwrap_or|unwrap_or_default|ok|err|or|and|filter|as_ref|as_mut|as_deref|cloned|copied|unwrap_or_else|map_or|is_some_and|is_none_or|then_some)$')
def combinators(ex, st, fr, name, args, dty):
    parts = strip_generics(name).split('::')
    ty, m = base_ident(parts[-2]), parts[-1]
    names = ['None', 'Some'] if ty == 'Option' else ['Ok', 'Err']
    good = names[1] if ty == 'Option' else names[0]
    bad = names[0] if ty == 'Option' else names[1]
    v = args[0]
    if m in ('as_ref', 'as_mut', 'as_deref'):
        # &Option<T> -> Option<&T>
        if not isinstance(v, VRef):
            return None
        inner = ex.load(st, v.cell, v.path)
        out = []
        for s2, nm, get in enum_split(ex, st, inner, ty, names):
            if isinstance(inner, VAgg):
                if not inner.fields:
                    out.append((s2, VAgg(ty, nm, []), 'ok', ''))
                else:
                    out.append((s2, VAgg(ty, nm, [VRef(v.cell, v.path + (('f', 0, nm, ''),))]), 'ok', ''))
            else:
                if nm == 'None':
                    out.append((s2, VAgg(ty, nm, []), 'ok', ''))
                else:
                    term = inner.term if isinstance(inner, VSym) else inner.base.term
                    out.append((s2, VAgg(ty, nm, [VSym(('ref', ('field', term, 0, nm)))]), 'ok', ''))
        return out
    if m == 'filter' and ty == 'Option':
        out = []
        for s2, nm, get in enum_split(ex, st, v, ty, names):
            if nm == 'None':
                out.append((s2, mk('Option', 'None'), 'ok', ''))
                continue
            x = get()
            cell = 'flt%d' % next(ex.fresh)
            s2.mem[cell] = x
            for (s3, r, k, msg) in call_fn_value(ex, s2, fr, args[1], [VRef(cell)]):
                if k != 'ok':
                    out.append((s3, None, k, msg))
                    continue
                if not isinstance(r, VBool):
                    return None
                if ex.feasible(s3.pc + [r.e]):
                    s4 = s3.fork()
                    s4.pc.append(r.e)
                    out.append((s4, mk('Option', 'Some', x), 'ok', ''))
                if ex.feasible(s3.pc + [z3.Not(r.e)]):
                    s4 = s3.fork()
                    s4.pc.append(z3.Not(r.e))
                    out.append((s4, mk('Option', 'None'), 'ok', ''))
        return out
    if m in ('cloned', 'copied'):
        out = []
        for s2, nm, get in enum_split(ex, st, v, ty, names):
            if nm == 'None':
                out.append((s2, mk('Option', 'None'), 'ok', ''))
            else:
                r = get()
                if isinstance(r, VRef):
                    r = ex.load(s2, r.cell, r.path)
                elif isinstance(r, VSym):
                    r = VSym(r.term[1] if r.term[0] == 'ref' else ('deref', r.term))
                out.append((s2, mk('Option', 'Some', r), 'ok', ''))
        return out
    if m not in ('map', 'map_err', 'and_then', 'ok', 'err', 'unwrap_or', 'is_some_and', 'or_else', 'unwrap_or_else', 'unwrap_or_default'):
        return None
    out = []
    for s2, nm, get in enum_split(ex, st, v, ty, names):
        if m == 'map':
            if nm == good:
                for (s3, r, k, msg) in call_fn_value(ex, s2, fr, args[1], [get()]):
                    out.append((s3, mk(ty, good, r) if k == 'ok' else None, k, msg))
            else:
                out.append((s2, mk(ty, bad, *([get()] if ty == 'Result' else [])), 'ok', ''))
        elif m == 'map_err':
            if nm == 'Err':
                for (s3, r, k, msg) in call_fn_value(ex, s2, fr, args[1], [get()]):
                    out.append((s3, mk('Result', 'Err', r) if k == 'ok' else None, k, msg))
            else:
                out.append((s2, mk('Result', 'Ok', get()), 'ok', ''))
        elif m == 'and_then':
            if nm == good:
                for (s3, r, k, msg) in call_fn_value(ex, s2, fr, args[1], [get()]):
                    out.append((s3, r, k, msg))
            else:
                out.append((s2, mk(ty, bad, *([get()] if ty == 'Result' else [])), 'ok', ''))
        elif m in ('or_else', 'unwrap_or_else'):
            if nm == good:
                out.append((s2, mk(ty, good, get()) if m == 'or_else' else get(), 'ok', ''))
            else:
                a = [get()] if ty == 'Result' else []
                for (s3, r, k, msg) in call_fn_value(ex, s2, fr, args[1], a):
                    out.append((s3, r, k, msg))
        elif m == 'ok':
            out.append((s2, mk('Option', 'Some', get()) if nm == 'Ok' else mk('Option', 'None'), 'ok', ''))
        elif m == 'err':
            out.append((s2, mk('Option', 'Some', get()) if nm == 'Err' else mk('Option', 'None'), 'ok', ''))
        elif m == 'unwrap_or':
            out.append((s2, get() if nm == good else args[1], 'ok', ''))
        elif m == 'unwrap_or_default':
            out.append((s2, get() if nm == good else VSym(('const', 'Default::default()'), dty), 'ok', ''))
        elif m == 'is_some_and':
            if nm == good:
                for (s3, r, k, msg) in call_fn_value(ex, s2, fr, args[1], [get()]):
                    out.append((s3, r, k, msg))
            else:
                out.append((s2, VBool(False), 'ok', ''))
    return out


@model(r'(^|::)Option::transpose$')
def option_transpose(ex, st, fr, name, args, dty):
    out = []
    for s2, nm, get in enum_split(ex, st, args[0], 'Option', ['None', 'Some']):
        if nm == 'None':
            out.append((s2, mk('Result', 'Ok', mk('Option', 'None')), 'ok', ''))
        else:
            for s3, nm2, get2 in enum_split(ex, s2, get(), 'Result', ['Ok', 'Err']):
                if nm2 == 'Ok':
                    out.append((s3, mk('Result', 'Ok', mk('Option', 'Some', get2())), 'ok', ''))
                else:
                    out.append((s3, mk('Result', 'Err', get2()), 'ok', ''))
    return out


@model(r'core::str::<impl str>::as_bytes$|^<str as (std::convert::)?AsRef<\[u8\]>>::as_ref$|^<\[u8\] as (std::convert::)?AsRef<\[u8\]>>::as_ref$|^<str as (std::convert::)?AsRef<str>>::as_ref$')
def as_bytes_identity(ex, st, fr, name, args, dty):
    return ok(st, args[0])


@model(r'^<(std::vec::)?Vec<u8> as (std::convert::)?Into<(std::boxed::)?Box<\[u8\]>>>::into$|^<(std::boxed::)?Box<\[u8\]> as (std::convert::)?From<(std::vec::)?Vec<u8>>>::from$')
def vec_into_box(ex, st, fr, name, args, dty):
    return ok(st, args[0])


@model(r'bool>::then_some$|core::bool::<impl bool>::then_some$')
def then_some(ex, st, fr, name, args, dty):
    c = args[0]
    if not isinstance(c, VBool):
        raise Refuse('then_some on %r' % (c,))
    out = []
    if ex.feasible(st.pc + [c.e]):
        s2 = st.fork()
        s2.pc.append(c.e)
        out.append((s2, mk('Option', 'Some', args[1]), 'ok', ''))
    if ex.feasible(st.pc + [z3.Not(c.e)]):
        s2 = st.fork()
        s2.pc.append(z3.Not(c.e))
        out.append((s2, mk('Option', 'None'), 'ok', ''))
    return out


@model(r'core::bool::<impl bool>::then$')
def bool_then(ex, st, fr, name, args, dty):
    c = args[0]
    if not isinstance(c, VBool):
        raise Refuse('then on %r' % (c,))
    out = []
    if ex.feasible(st.pc + [c.e]):
        s2 = st.fork()
        s2.pc.append(c.e)
        for (s3, r, k, msg) in call_fn_value(ex, s2, fr, args[1], []):
            out.append((s3, mk('Option', 'Some', r) if k == 'ok' else None, k, msg))
    if ex.feasible(st.pc + [z3.Not(c.e)]):
        s2 = st.fork()
        s2.pc.append(z3.Not(c.e))
        out.append((s2, mk('Option', 'None'), 'ok', ''))
    return out


@model(r' as (std::ops::)?Try>::branch$')
def try_branch(ex, st, fr, name, args, dty):
    m = re.match(r'<(.*) as ', strip_generics(name))
    ty = base_ident(m.group(1))
    if ty not in ('Result', 'Option'):
        return None
    names = ['Ok', 'Err'] if ty == 'Result' else ['None', 'Some']
    out = []
    for s2, nm, get in enum_split(ex, st, args[0], ty, names):
        if nm in ('Ok', 'Some'):
            out.append((s2, mk('ControlFlow', 'Continue', get()), 'ok', ''))
        elif nm == 'Err':
            out.append((s2, mk('ControlFlow', 'Break', mk('Result', 'Err', get())), 'ok', ''))
        else:
            out.append((s2, mk('ControlFlow', 'Break', mk('Option', 'None')), 'ok', ''))
    return out


@model(r'FromResidual<.*>>::from_residual$')
def from_residual(ex, st, fr, name, args, dty):
    v = args[0]
    m = re.match(r'<(.*?) as ', strip_generics(name))
    ty = base_ident(m.group(1)) if m else ''
    if ty == 'Option':
        return ok(st, mk('Option', 'None'))
    if ty != 'Result':
        return None
    # Result<Infallible, E> -> Result<T, F: From<E>>
    mm = re.search(r'FromResidual<(?:std::result::)?Result<(?:std::convert::)?Infallible, (.*)>>>::from_residual$', name)
    dm = re.match(r'<(?:std::result::)?Result<.*, (.*)> as ', name)
    if isinstance(v, VAgg):
        e = v.fields[0]
    elif isinstance(v, VSym):
        e = VSym(('field', v.term, 0, 'Err'))
    else:
        raise Refuse('from_residual of %r' % (v,))
    src = mm.group(1).strip() if mm else None
    # destination error type: last generic arg of Self
    st_txt = m.group(1)
    k = st_txt.rfind(', ')
    dst = st_txt[k + 2:-1].strip() if k > 0 else None
    if src is not None and dst is not None and base_ident(src) == base_ident(dst) and src.split('::')[-1] == dst.split('::')[-1]:
        return ok(st, mk('Result', 'Err', e))
    # a From conversion of the error: uninterpreted wrapper keeps the dataflow
    conv = VSym(('app', 'From::from', (ex.to_term(st, e),), 0))
    return ok(st, mk('Result', 'Err', conv))


@model(r'^<(.*) as (std::convert::)?From<(.*)>>::from$')
def from_identity(ex, st, fr, name, args, dty):
    m = re.match(r'^<(.*) as (?:std::convert::)?From<(.*)>>::from$', name.strip())
    if m and m.group(1).strip() == m.group(2).strip():
        return ok(st, args[0])
    # u8 -> char / wider unsigned integers: zero extension
    if m and m.group(2).strip() == 'u8' and m.group(1).strip() in ('char', 'u16', 'u32', 'u64', 'usize'):
        a = args[0]
        if isinstance(a, VSym) and isinstance(a.term, tuple) and a.term and a.term[0] == 'z3':
            a = VInt(a.term[1], 8)
        if isinstance(a, VSym):
            a = ex.sym_int(a.term, 8)
        if isinstance(a, VInt) and a.bits == 8:
            bits = {'char': 32, 'u16': 16, 'u32': 32, 'u64': 64, 'usize': 64}[m.group(1).strip()]
            return ok(st, VInt(z3.ZeroExt(bits - 8, a.e), bits))
    return None


@model(r'^<(.*) as (std::convert::)?Into<(.*)>>::into$')
def into_identity(ex, st, fr, name, args, dty):
    m = re.match(r'^<(.*) as (?:std::convert::)?Into<(.*)>>::into$', name.strip())
    if m and m.group(1).strip() == m.group(2).strip():
        return ok(st, args[0])
    # u8 -> char / wider unsigned integers: zero extension
    if m and m.group(1).strip() == 'u8' and m.group(2).strip() in ('char', 'u16', 'u32', 'u64', 'usize'):
        a = args[0]
        if isinstance(a, VSym) and isinstance(a.term, tuple) and a.term and a.term[0] == 'z3':
            a = VInt(a.term[1], 8)
        if isinstance(a, VSym):
            a = ex.sym_int(a.term, 8)
        if isinstance(a, VInt) and a.bits == 8:
            bits = {'char': 32, 'u16': 16, 'u32': 32, 'u64': 64, 'usize': 64}[m.group(2).strip()]
            return ok(st, VInt(z3.ZeroExt(bits - 8, a.e), bits))
    return None


# ---- ranges / slices / arrays ---------------------------------------------------------------------------------

@model(r'RangeInclusive::new$')
def range_incl_new(ex, st, fr, name, args, dty):
    return ok(st, VAgg('RangeInclusive', None, [args[0], args[1], VBool(False)]))


def slice_of(ex, st, v):
    if isinstance(v, VRef):
        inner = ex.load(st, v.cell, v.path)
        if isinstance(inner, VBytes):
            return inner
        if isinstance(inner, VRef):
            return slice_of(ex, st, inner)
        if isinstance(inner, VSym):
            return ex.sym_bytes(inner.term)
    if isinstance(v, VSym):
        return ex.sym_bytes(v.term)
    return None


def new_slice(ex, st, b, off, ln):
    cell = 'sl%d' % next(ex.fresh)
    st.mem[cell] = VBytes(b.arr, z3.simplify(b.off + off), z3.simplify(ln), b.elem_bits)
    return VRef(cell)


@model(r'core::slice::<impl \[u8\]>::get$|core::slice::<impl \[T\]>::get$')
def slice_get(ex, st, fr, name, args, dty):
    b = slice_of(ex, st, args[0])
    if b is None:
        return None
    g = re.search(r'get::<(.*)>$', name.strip())
    kind = base_ident(g.group(1)) if g else ''
    out = []
    idx = args[1]
    if kind == 'usize' and isinstance(idx, VInt):
        cond = z3.ULT(idx.e, b.len)
        if ex.feasible(st.pc + [cond]):
            s2 = st.fork()
            s2.pc.append(cond)
            cell = 'el%d' % next(ex.fresh)
            s2.mem[cell] = VInt(z3.Select(b.arr, b.off + idx.e), 8)
            out.append((s2, mk('Option', 'Some', VRef(cell)), 'ok', ''))
        if ex.feasible(st.pc + [z3.Not(cond)]):
            s2 = st.fork()
            s2.pc.append(z3.Not(cond))
            out.append((s2, mk('Option', 'None'), 'ok', ''))
        return out
    if kind in ('Range', 'RangeInclusive') and isinstance(idx, VAgg):
        lo, hi = idx.fields[0], idx.fields[1]
        if not (isinstance(lo, VInt) and isinstance(hi, VInt)):
            raise Refuse('range bounds')
        if kind == 'Range':
            cond = z3.And(z3.ULE(lo.e, hi.e), z3.ULE(hi.e, b.len))
            ln = hi.e - lo.e
        else:
            # start..=end : None if end == usize::MAX, else as start..end+1
            cond = z3.And(hi.e != z3.BitVecVal(2 ** 64 - 1, 64), z3.ULE(lo.e, hi.e + 1), z3.ULE(hi.e + 1, b.len))
            ln = hi.e + 1 - lo.e
        if ex.feasible(st.pc + [cond]):
            s2 = st.fork()
            s2.pc.append(cond)
            out.append((s2, mk('Option', 'Some', new_slice(ex, s2, b, lo.e, ln)), 'ok', ''))
        if ex.feasible(st.pc + [z3.Not(cond)]):
            s2 = st.fork()
            s2.pc.append(z3.Not(cond))
            out.append((s2, mk('Option', 'None'), 'ok', ''))
        return out
    return None


@model(r'core::slice::<impl \[(u8|T)\]>::len$|core::str::<impl str>::len$')
def slice_len(ex, st, fr, name, args, dty):
    b = slice_of(ex, st, args[0])
    if b is None:
        return None
    return ok(st, VInt(b.len, 64))


BYTES_EQ_MAX = 64


def bytes_eq(ex, a, b):
    """equality of two byte slices; one side must have concrete length <= BYTES_EQ_MAX"""
    la, lb = ex.concrete(a.len), ex.concrete(b.len)
    n = la if la is not None else lb
    if n is None or n > BYTES_EQ_MAX:
        raise Refuse('slice equality without a concrete length')
    conj = [a.len == b.len]
    for i in range(n):
        conj.append(z3.Select(a.arr, a.off + i) == z3.Select(b.arr, b.off + i))
    return z3.And(*conj)


@model(r'^<&?\[u8\] as (std::cmp::)?PartialEq>::(eq|ne)$|^<&&?\[u8\] as (std::cmp::)?PartialEq>::(eq|ne)$|^<&?str as (std::cmp::)?PartialEq>::(eq|ne)$|^<&&?str as (std::cmp::)?PartialEq>::(eq|ne)$')
def slice_eq(ex, st, fr, name, args, dty):
    a, b = slice_of(ex, st, args[0]), slice_of(ex, st, args[1])
    if a is None or b is None:
        return None
    try:
        e = bytes_eq(ex, a, b)
    except Refuse:
        return None
    if name.strip().endswith('::ne'):
        e = z3.Not(e)
    return ok(st, VBool(e))


@model(r'^<\[u8; \d+\] as (std::convert::)?TryFrom<&\[u8\]>>::try_from$')
def array_try_from(ex, st, fr, name, args, dty):
    n = int(re.search(r'\[u8; (\d+)\]', name).group(1))
    b = slice_of(ex, st, args[0])
    if b is None:
        return None
    out = []
    cond = b.len == z3.BitVecVal(n, 64)
    if ex.feasible(st.pc + [cond]):
        s2 = st.fork()
        s2.pc.append(cond)
        arr = VAgg('array', None, [VInt(z3.Select(b.arr, b.off + i), 8) for i in range(n)])
        out.append((s2, mk('Result', 'Ok', arr), 'ok', ''))
    if ex.feasible(st.pc + [z3.Not(cond)]):
        s2 = st.fork()
        s2.pc.append(z3.Not(cond))
        out.append((s2, mk('Result', 'Err', VSym(('const', 'TryFromSliceError'))), 'ok', ''))
    return out


@model(r'^<&\[u8\] as (std::convert::)?TryInto<\[u8; \d+\]>>::try_into$')
def array_try_into(ex, st, fr, name, args, dty):
    return array_try_from(ex, st, fr, name, args, dty)


@model(r'core::num::<impl (u16|u32|u64)>::from_(le|be)_bytes$')
def from_bytes(ex, st, fr, name, args, dty):
    m = re.search(r'<impl (u\d+)>::from_(le|be)_bytes$', strip_generics(name))
    v = args[0]
    if not (isinstance(v, VAgg) and v.ty == 'array'):
        return None
    parts = [x.e for x in v.fields]
    if m.group(2) == 'le':
        parts = parts[::-1]
    e = z3.Concat(*parts) if len(parts) > 1 else parts[0]
    return ok(st, VInt(e, int(m.group(1)[1:])))


@model(r'core::num::<impl (u16|u32|u64)>::to_(le|be)_bytes$')
def to_bytes(ex, st, fr, name, args, dty):
    m = re.search(r'<impl (u\d+)>::to_(le|be)_bytes$', strip_generics(name))
    v = args[0]
    if not isinstance(v, VInt):
        return None
    n = v.bits // 8
    parts = [VInt(z3.Extract(8 * i + 7, 8 * i, v.e), 8) for i in range(n)]
    if m.group(2) == 'be':
        parts = parts[::-1]
    return ok(st, VAgg('array', None, parts))


@model(r'^<(u8|u16|u32|u64|usize) as (std::convert::)?TryFrom<(u8|u16|u32|u64|usize)>>::try_from$')
def int_try_from(ex, st, fr, name, args, dty):
    m = re.match(r'^<(\w+) as (?:std::convert::)?TryFrom<(\w+)>>::try_from$', name.strip())
    db, _ = INT_TYPES[m.group(1)]
    v = args[0]
    if not isinstance(v, VInt):
        return None
    if db >= v.bits:
        return ok(st, mk('Result', 'Ok', VInt(z3.ZeroExt(db - v.bits, v.e) if db > v.bits else v.e, db)))
    fits = z3.ULE(v.e, z3.BitVecVal(2 ** db - 1, v.bits))
    out = []
    if ex.feasible(st.pc + [fits]):
        s2 = st.fork()
        s2.pc.append(fits)
        out.append((s2, mk('Result', 'Ok', VInt(z3.Extract(db - 1, 0, v.e), db)), 'ok', ''))
    if ex.feasible(st.pc + [z3.Not(fits)]):
        s2 = st.fork()
        s2.pc.append(z3.Not(fits))
        out.append((s2, mk('Result', 'Err', VSym(('const', 'TryFromIntError'))), 'ok', ''))
    return out


@model(r'(^|::)char::methods::<impl char>::(is_ascii_hexdigit|is_ascii_digit|is_ascii_lowercase|is_ascii_uppercase|is_ascii_alphabetic|is_ascii_alphanumeric|is_ascii)$')
def char_class(ex, st, fr, name, args, dty):
    which = strip_generics(name).split('::')[-1]
    v = args[0]
    if isinstance(v, VRef):
        v = ex.load(st, v.cell, v.path)
    if not isinstance(v, VInt):
        return None
    c = v.e

    def rng(a, b):
        return z3.And(z3.UGE(c, ord(a)), z3.ULE(c, ord(b)))
    dig, lo, up = rng('0', '9'), rng('a', 'z'), rng('A', 'Z')
    e = {'is_ascii_hexdigit': z3.Or(dig, rng('a', 'f'), rng('A', 'F')), 'is_ascii_digit': dig,
         'is_ascii_lowercase': lo, 'is_ascii_uppercase': up, 'is_ascii_alphabetic': z3.Or(lo, up),
         'is_ascii_alphanumeric': z3.Or(dig, lo, up), 'is_ascii': z3.ULE(c, 127)}[which]
    return ok(st, VBool(e))


@model(r'^<(.*) as (std::ops::)?Deref>::deref$')
def deref_model(ex, st, fr, name, args, dty):
    m = re.match(r'^<(.*) as ', name.strip())
    t = base_ident(m.group(1))
    if t in ('Vec', 'String', 'Box'):
        v = args[0]
        if isinstance(v, VRef):
            inner = ex.load(st, v.cell, v.path)
            if isinstance(inner, VRef):
                return ok(st, inner)
    return None


@model(r'^<&?(u8|u16|u32|u64|usize|char|bool) as (std::cmp::)?PartialEq>::(eq|ne)$')
def prim_eq(ex, st, fr, name, args, dty):
    vs = []
    for a in args:
        while isinstance(a, VRef):
            a = ex.load(st, a.cell, a.path)
        vs.append(a)
    a, b = vs
    if isinstance(a, VInt) and isinstance(b, VInt):
        e = a.e == b.e
    elif isinstance(a, VBool) and isinstance(b, VBool):
        e = a.e == b.e
    else:
        return None
    if name.strip().endswith('::ne'):
        e = z3.Not(e)
    return ok(st, VBool(e))


@model(r'^<(std::option::|core::option::)?Option<.*> as (std::cmp::)?PartialEq>::(eq|ne)$')
def option_eq(ex, st, fr, name, args, dty):
    """Option == Option with definite, different variants is false (Some(_) vs None); everything else stays uninterpreted"""
    vs = []
    for a in args:
        while isinstance(a, VRef):
            a = ex.load(st, a.cell, a.path)
        vs.append(a)
    a, b = vs
    if isinstance(a, VAgg) and isinstance(b, VAgg) and a.variant in ('Some', 'None') and b.variant in ('Some', 'None'):
        if a.variant != b.variant:
            return ok(st, VBool(name.strip().endswith('::ne')))
        if a.variant == 'None':
            return ok(st, VBool(not name.strip().endswith('::ne')))
    return None


@model(r' as (num_traits::)?FromPrimitive>::from_(u8|u16|u32|i8|i16|i32|usize|isize)$')
def from_primitive_default(ex, st, fr, name, args, dty):
    """num_traits default methods: from_uN(n) = from_u64(n as u64), from_iN(n) = from_i64(n as i64)"""
    m = re.match(r'^(<.* as (?:num_traits::)?FromPrimitive>)::from_([ui])(\w+)$', strip_generics(name).strip())
    v = args[0]
    if not m or not isinstance(v, VInt):
        return None
    wide = VInt(z3.ZeroExt(64 - v.bits, v.e) if m.group(2) == 'u' else z3.SignExt(64 - v.bits, v.e), 64, m.group(2) == 'i') \
        if v.bits < 64 else v
    return ex.call_named(st, fr, '%s::from_%s64' % (m.group(1), m.group(2)), [wide], dty)


@model(r'^<(.*) as (std::cmp::)?PartialEq(<.*>)?>::ne$')
def ne_default(ex, st, fr, name, args, dty):
    """PartialEq::ne default method = !eq (derived impls only define eq)"""
    eq_name = name.strip()[:-2] + 'eq'
    f, why = ex.prog.resolve_call(eq_name, 2, fr.func)
    if f is None:
        return None
    out = []
    for (s2, v, k, msg) in ex.call_named(st, fr, eq_name, args, 'bool'):
        if k == 'ok' and isinstance(v, VBool):
            out.append((s2, VBool(z3.Not(v.e)), k, msg))
        elif k == 'ok':
            return None
        else:
            out.append((s2, v, k, msg))
    return out


def names():
    return [fn.pattern for _, fn in MODELLED]


# ---- integer methods of core::num (saturating / wrapping / checked arithmetic, min / max) -----------------------------------

@model(r'core::num::<impl ([iu](8|16|32|64|128|size))>::(saturating_add|saturating_sub|wrapping_add|wrapping_sub|wrapping_mul|checked_add|checked_sub|checked_mul|saturating_mul|min|max|abs_diff)$')
def int_methods(ex, st, fr, name, args, dty):
    m = re.search(r'<impl ([iu](?:8|16|32|64|128|size))>::(\w+)$', strip_generics(name))
    if not m or len(args) != 2 or not all(isinstance(a, VInt) for a in args):
        return None
    ity, op = m.group(1), m.group(2)
    from execu import INT_TYPES
    bits, signed = INT_TYPES[ity]
    a, b = args[0].e, args[1].e
    ext = (z3.SignExt if signed else z3.ZeroExt)
    wa, wb = ext(bits, a), ext(bits, b)           # exact results in 2*bits
    lo = z3.BitVecVal(-(1 << (bits - 1)) if signed else 0, 2 * bits)
    hi = z3.BitVecVal((1 << (bits - 1)) - 1 if signed else (1 << bits) - 1, 2 * bits)
    le = (lambda x, y: x <= y) if signed else z3.ULE
    if op in ('min', 'max'):
        c = le(a, b)
        return ok(st, VInt(z3.If(c, a, b) if op == 'min' else z3.If(c, b, a), bits, signed))
    if op == 'abs_diff':
        return None
    kind, arith = op.split('_', 1)
    exact = {'add': wa + wb, 'sub': wa - wb, 'mul': wa * wb}[arith]
    inr = z3.And((exact >= lo) if signed else z3.BoolVal(True) if arith != 'sub' else z3.UGE(wa, wb), (exact <= hi) if signed else z3.ULE(exact, hi))
    if not signed and arith == 'sub':
        inr = z3.UGE(a, b)
    trunc = z3.Extract(bits - 1, 0, exact)
    if kind == 'wrapping':
        return ok(st, VInt(trunc, bits, signed))
    if kind == 'saturating':
        if signed:
            sat = z3.If(exact < lo, z3.Extract(bits - 1, 0, lo), z3.If(exact > hi, z3.Extract(bits - 1, 0, hi), trunc))
        else:
            under = z3.ULT(a, b) if arith == 'sub' else z3.BoolVal(False)
            sat = z3.If(under, z3.BitVecVal(0, bits), z3.If(z3.And(z3.Not(under), z3.UGT(exact, hi)) if arith != 'sub' else z3.BoolVal(False), z3.BitVecVal((1 << bits) - 1, bits), trunc))
        return ok(st, VInt(z3.simplify(sat), bits, signed))
    # checked_*: Option
    out = []
    if ex.feasible(st.pc + [inr]):
        s2 = st.fork()
        s2.pc.append(inr)
        out.append((s2, mk('Option', 'Some', VInt(trunc, bits, signed)), 'ok', ''))
    if ex.feasible(st.pc + [z3.Not(inr)]):
        s2 = st.fork()
        s2.pc.append(z3.Not(inr))
        out.append((s2, mk('Option', 'None'), 'ok', ''))
    return out
