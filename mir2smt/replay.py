"""Native replay of solver counterexamples through the real, unstubbed public API (crate /verif/replay)."""
import json
import os
import subprocess

VERIF = os.path.dirname(os.path.dirname(os.path.abspath(__file__)))


def build(profile='dev'):
    env = dict(os.environ, CARGO_NET_OFFLINE='true')
    env.pop('RUSTUP_TOOLCHAIN', None)
    lock = os.path.join(VERIF, 'replay', 'Cargo.lock')
    if not os.path.exists(lock):
        import shutil
        shutil.copy(os.path.join(os.environ.get('VERIF_REPO', '/repo'), 'Cargo.lock'), lock)
    cmd = ['cargo', 'build', '--offline', '--manifest-path', os.path.join(VERIF, 'replay', 'Cargo.toml'),
           '--target-dir', os.path.join(VERIF, '.build', 'replay-target')]
    if profile == 'release':
        cmd.append('--release')
    p = subprocess.run(cmd, capture_output=True, text=True, env=env)
    if p.returncode != 0:
        raise RuntimeError('replay crate does not build:\n' + p.stderr[-3000:])
    return os.path.join(VERIF, '.build', 'replay-target', 'release' if profile == 'release' else 'debug', 'replay')


def run_replay(scn, profiles=('dev', 'release')):
    """scn: {'scenario': name, 'cex': {...}} -> {'reproduced': bool, 'detail': str}"""
    out = {'reproduced': False, 'detail': ''}
    details = []
    rep_all = True
    for prof in profiles:
        try:
            exe = build(prof)
        except Exception as e:
            return {'reproduced': False, 'detail': 'replay build failed: %s' % str(e)[-400:]}
        p = subprocess.run([exe, scn['scenario'], json.dumps(scn.get('cex', {}))], capture_output=True, text=True,
                           timeout=600)
        # the verdict is the first line starting with REPRODUCED / NOT-REPRODUCED (panic messages may span several lines)
        lines = p.stdout.strip().split('\n') or ['']
        verdicts = [i for i, l in enumerate(lines) if l.startswith('REPRODUCED') or l.startswith('NOT-REPRODUCED')]
        line = ' '.join(x.strip() for x in lines[verdicts[-1]:]) if verdicts else lines[-1]
        rep = line.startswith('REPRODUCED')
        if p.returncode == 101 and not rep:
            # the scenario itself panicked: a panic of the code under test counts only when the scenario says so
            line = 'scenario panicked: ' + p.stderr.strip().split('\n')[0][:200]
        details.append('%s: %s' % (prof, line[:300]))
        rep_all = rep_all and rep
    out['reproduced'] = rep_all if len(profiles) == 1 else any(d.split(': ', 1)[1].startswith('REPRODUCED') for d in details)
    out['detail'] = ' | '.join(details)
    return out
