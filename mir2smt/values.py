"""Value domain of the MIR symbolic executor."""
import z3

INT_TYPES = {'u8': (8, False), 'u16': (16, False), 'u32': (32, False), 'u64': (64, False), 'u128': (128, False),
             'usize': (64, False), 'i8': (8, True), 'i16': (16, True), 'i32': (32, True), 'i64': (64, True),
             'i128': (128, True), 'isize': (64, True), 'char': (32, False)}


class V:
    pass


class VInt(V):
    __slots__ = ('e', 'bits', 'signed')

    def __init__(self, e, bits, signed=False):
        if isinstance(e, int):
            e = z3.BitVecVal(e, bits)
        self.e, self.bits, self.signed = e, bits, signed

    def __repr__(self):
        return 'VInt(%s:%s%d)' % (z3.simplify(self.e), 'i' if self.signed else 'u', self.bits)


class VBool(V):
    __slots__ = ('e',)

    def __init__(self, e):
        if isinstance(e, bool):
            e = z3.BoolVal(e)
        self.e = e

    def __repr__(self):
        return 'VBool(%s)' % z3.simplify(self.e)


class VAgg(V):
    """tuple / struct / enum value with a known variant. ty: printed path or 'tuple'/'array'."""
    __slots__ = ('ty', 'variant', 'fields')

    def __init__(self, ty, variant, fields):
        self.ty, self.variant, self.fields = ty, variant, list(fields)

    def __repr__(self):
        return 'VAgg(%s::%s%r)' % (self.ty, self.variant, self.fields)


class VSym(V):
    """opaque value identified by a term (python tuple tree)."""
    __slots__ = ('term', 'ty')

    def __init__(self, term, ty=''):
        self.term, self.ty = term, ty

    def __repr__(self):
        return 'VSym(%s)' % term_str(self.term)


class VRef(V):
    """pointer to memory cell + projection path"""
    __slots__ = ('cell', 'path')

    def __init__(self, cell, path=()):
        self.cell, self.path = cell, tuple(path)

    def __repr__(self):
        return 'VRef(%s%s)' % (self.cell, ''.join('.%s' % (p,) for p in self.path))


class VBytes(V):
    """unsized byte sequence (slice / str / array of u8 backing store)"""
    __slots__ = ('arr', 'off', 'len', 'elem_bits')

    def __init__(self, arr, off, ln, elem_bits=8):
        self.arr, self.off, self.len, self.elem_bits = arr, off, ln, elem_bits

    def __repr__(self):
        return 'VBytes(len=%s)' % z3.simplify(self.len)


class VFn(V):
    __slots__ = ('name', 'caps')

    def __init__(self, name, caps=None):
        self.name, self.caps = name, caps

    def __repr__(self):
        return 'VFn(%s)' % self.name


class VUninit(V):
    def __repr__(self):
        return 'VUninit'


UNINIT = VUninit()


def term_str(t):
    if isinstance(t, tuple):
        k = t[0]
        if k == 'leaf':
            return t[1]
        if k == 'app':
            return '%s#%s(%s)' % (short(t[1]), t[3], ', '.join(term_str(a) for a in t[2]))
        if k == 'field':
            return '%s.%s%s' % (term_str(t[1]), (t[3] + '.') if t[3] else '', t[2])
        if k == 'deref':
            return '*' + term_str(t[1])
        if k == 'const':
            return 'const(%s)' % (t[1],)
        if k == 'agg':
            return '%s::%s{%s}' % (short(t[1]), t[2], ', '.join(term_str(a) for a in t[3]))
        if k == 'ref':
            return '&' + term_str(t[1])
        if k == 'z3':
            return str(t[1])
        return str(t)
    return str(t)


def short(name):
    import re
    name = re.sub(r'<impl at [^>]*>', '<impl>', name)
    return name


def term_leaves(t, acc=None):
    """all ('leaf', name) names and app names below t"""
    if acc is None:
        acc = set()
    if isinstance(t, tuple):
        if t and t[0] == 'leaf':
            acc.add(t[1])
        elif t and t[0] == 'app':
            acc.add('app:' + t[1])
            for a in t[2]:
                term_leaves(a, acc)
        else:
            for a in (t[1:] if (t and isinstance(t[0], str)) else t):
                term_leaves(a, acc)
    elif isinstance(t, list):
        for a in t:
            term_leaves(a, acc)
    return acc
