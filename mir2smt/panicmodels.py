"""Models of std callees whose documented behaviour includes a panic on a violated precondition.

Callees are otherwise uninterpreted, which hides `v[i]`, `s[a..]`, `split_at`, ... (they compile to *calls* of
Index::index etc., not to MIR-level bounds checks).  Each model forks the path: a `panic` outcome under the negated
precondition (when it is feasible) and the normal continuation under the precondition.  Where the container's length
is known symbolically (byte slices / strs represented as VBytes, or a `len()` call on the same container recorded on
the path) the precondition is exact; otherwise the length is a fresh unknown and the panic outcome is always feasible
- such a site has to be justified on a contract list or shown unreachable by a guard the executor can see.
"""
import re
import z3
from values import *
from execu import Refuse, strip_generics, base_ident
import models
from models import mk, slice_of, new_slice, slice_len

PANIC_MODELS = []


def model(pattern):
    """registers into PANIC_MODELS only: these models are switched on per audit (extra_models=PANIC_MODELS), because they
    replace call records (len, find, split_at) that binding requirements of other properties look for"""
    def deco(fn):
        PANIC_MODELS.append((re.compile(pattern), fn))
        fn.pattern = pattern
        return fn
    return deco


@model(r'(^|::)(Vec|String)(<.*>)?::len$')
def vec_len_model(ex, st, fr, name, args, dty):
    return slice_len(ex, st, fr, name, args, dty)


U64MAX = z3.BitVecVal(2 ** 64 - 1, 64)


def container_len(ex, st, v):
    """symbolic length of the indexed container, or (fresh unknown, False)"""
    b = slice_of(ex, st, v)
    if b is not None:
        return b.len, b
    t = strip_refs(ex.to_term(st, v))
    for c in reversed(st.calls):
        if c.ret is not None and re.search(r'::len$', c.name) and c.args and strip_refs(c.args[0]) == t:
            return ex.sym_int(c.ret, 64).e, None
    # one unknown per container term (the same container indexed twice has one length)
    return z3.BitVec('len?' + term_str(t), 64), None


def is_str_container(name):
    sn = strip_generics(name)
    return bool(re.search(r'<(str|String) as |impl str>::', sn))


def char_boundary(ex, st, v, ln):
    """uninterpreted predicate "byte offset i of this string is a char boundary" (one per container term), with the two facts
    that hold for every string: offsets 0 and len are boundaries.  Only offsets the code obtained from find/rfind/char_indices
    /is_char_boundary (modelled below) are known to be boundaries; anything else may fall inside a multi-byte character."""
    b = slice_of(ex, st, v)
    if b is not None:
        # a view into a backing byte array: boundaries are a property of absolute offsets, shared by every sub-view
        # (UTF-8: an offset is a boundary iff it is the end of the text or the byte there is not a continuation byte 10xxxxxx;
        # a view starts and ends at boundaries by construction - split_at / range indexing are checked before they produce one)
        def cba(i):
            return z3.Or(i == b.off + b.len, (z3.Select(b.arr, i) & 0xC0) != 0x80)
        return (lambda i: cba(b.off + i)), [z3.Or(b.len == 0, cba(b.off))]
    t = strip_refs(ex.to_term(st, v))
    # a half of `s.split_at(mid)`: its boundaries are those of s (shifted by mid for the second half)
    if isinstance(t, tuple) and len(t) >= 3 and t[0] == 'field' and t[2] in (0, 1):
        for c in reversed(st.calls):
            if c.ret is not None and c.ret == t[1] and re.search(r'::split_at$', c.name) and len(c.argvals) == 2 and isinstance(c.argvals[1], VInt):
                src_ln, _ = container_len(ex, st, c.argvals[0])
                src, facts = char_boundary(ex, st, c.argvals[0], src_ln)
                mid = c.argvals[1].e
                if t[2] == 0:
                    return src, facts + [src(mid), ln == mid]
                return (lambda i: src(mid + i)), facts + [src(mid), ln == src_ln - mid]
    cb = z3.Function('charb?' + term_str(t), z3.BitVecSort(64), z3.BoolSort())
    return cb, [cb(z3.BitVecVal(0, 64)), cb(ln)]


def strip_refs(t):
    while isinstance(t, tuple) and t and t[0] in ('ref', 'deref'):
        t = t[1]
    return t


def range_cond(kind, idx, ln):
    """(precondition, lo, length) of container[idx] for the range kind"""
    f = idx.fields if isinstance(idx, VAgg) else []
    ints = [x for x in f if isinstance(x, VInt)]
    if kind == 'Range' and len(ints) == 2:
        lo, hi = ints[0].e, ints[1].e
        return z3.And(z3.ULE(lo, hi), z3.ULE(hi, ln)), lo, hi - lo
    if kind == 'RangeFrom' and len(ints) == 1:
        lo = ints[0].e
        return z3.ULE(lo, ln), lo, ln - lo
    if kind == 'RangeTo' and len(ints) == 1:
        hi = ints[0].e
        return z3.ULE(hi, ln), z3.BitVecVal(0, 64), hi
    if kind == 'RangeInclusive' and len(ints) >= 2:
        lo, hi = ints[0].e, ints[1].e
        return z3.And(hi != U64MAX, z3.ULE(lo, hi + 1), z3.ULE(hi + 1, ln)), lo, hi + 1 - lo
    if kind == 'RangeToInclusive' and len(ints) == 1:
        hi = ints[0].e
        return z3.And(hi != U64MAX, z3.ULE(hi + 1, ln)), z3.BitVecVal(0, 64), hi + 1
    return None


def fork(ex, st, fr, cond, what, cont):
    out = []
    if ex.feasible(st.pc + [z3.Not(cond)]):
        s2 = st.fork()
        s2.pc.append(z3.Not(cond))
        out.append((s2, None, 'panic', '%s in %s' % (what, fr.func.name)))
    if ex.feasible(st.pc + [cond]):
        s2 = st.fork()
        s2.pc.append(cond)
        out.extend(cont(s2))
    return out


@model(r'<(str|\[.*\]|Vec<.*>|String|Box<\[.*\]>) as (\w+::)*Index(Mut)?<.*>>::index(_mut)?$')
def index_model(ex, st, fr, name, args, dty):
    sn = strip_generics(name)
    m = re.search(r'Index(?:Mut)?<(.*)>>::index(?:_mut)?$', sn)
    kind = base_ident(m.group(1)) if m else ''
    if kind == 'RangeFull':
        return None
    ln, b = container_len(ex, st, args[0])
    idx = args[1]
    what = 'index out of range: %s' % sn
    if kind == 'usize' and isinstance(idx, VInt):
        cond = z3.ULT(idx.e, ln)

        def cont(s2):
            if b is not None:
                cell = 'el%d' % next(ex.fresh)
                s2.mem[cell] = VInt(z3.Select(b.arr, b.off + idx.e), 8)
                return [(s2, VRef(cell), 'ok', '')]
            return ex.uninterp(s2, fr, name, args, dty)
        return fork(ex, st, fr, cond, what, cont)
    rc = range_cond(kind, idx, ln)
    if rc is None:
        # generic index type (I: SliceIndex): nothing known about it
        def cont(s2):
            return ex.uninterp(s2, fr, name, args, dty)
        return fork(ex, st, fr, z3.Bool('idx_ok!%d' % next(ex.fresh)), what, cont)
    cond, lo, n = rc

    def cont(s2):
        if b is not None:
            return [(s2, new_slice(ex, s2, b, lo, n), 'ok', '')]
        return ex.uninterp(s2, fr, name, args, dty)
    if is_str_container(name):
        cb, facts = char_boundary(ex, st, args[0], ln)

        def cont_cb(s2):
            s2.pc.extend(facts)
            return fork(ex, s2, fr, z3.And(cb(lo), cb(lo + n)), 'byte index is not a char boundary: %s' % sn, cont)
        return fork(ex, st, fr, cond, what, cont_cb)
    return fork(ex, st, fr, cond, what, cont)


@model(r'(core::slice::<impl \[.*\]>|core::str::<impl str>|<impl \[.*\]>|<impl str>)::split_at(_mut)?$')
def split_at_model(ex, st, fr, name, args, dty):
    ln, b = container_len(ex, st, args[0])
    mid = args[1]
    if not isinstance(mid, VInt):
        return None
    cond = z3.ULE(mid.e, ln)

    def cont(s2):
        if b is not None:
            return [(s2, VAgg('tuple', None, [new_slice(ex, s2, b, z3.BitVecVal(0, 64), mid.e), new_slice(ex, s2, b, mid.e, ln - mid.e)]), 'ok', '')]
        return ex.uninterp(s2, fr, name, args, dty)
    if is_str_container(name):
        cb, facts = char_boundary(ex, st, args[0], ln)

        def cont_cb(s2):
            s2.pc.extend(facts)
            return fork(ex, s2, fr, cb(mid.e), 'split_at: mid is not a char boundary (%s)' % strip_generics(name), cont)
        return fork(ex, st, fr, cond, 'split_at: mid > len (%s)' % strip_generics(name), cont_cb)
    return fork(ex, st, fr, cond, 'split_at: mid > len (%s)' % strip_generics(name), cont)


@model(r'(core::slice::<impl \[.*\]>|<impl \[.*\]>)::(copy_from_slice|clone_from_slice|swap_with_slice)$')
def copy_from_slice_model(ex, st, fr, name, args, dty):
    la, _ = container_len(ex, st, args[0])
    lb, _ = container_len(ex, st, args[1])

    def cont(s2):
        return ex.uninterp(s2, fr, name, args, dty)
    return fork(ex, st, fr, la == lb, 'slice lengths differ: %s' % strip_generics(name), cont)


@model(r'(^|::)(Vec|VecDeque|String)(<.*>)?::(remove|swap_remove|insert|insert_str|split_off|drain|replace_range)$')
def vec_index_ops_model(ex, st, fr, name, args, dty):
    sn = strip_generics(name)
    op = sn.split('::')[-1]
    if len(args) < 2 or not isinstance(args[1], VInt):
        # range-taking forms (drain / replace_range) with non-literal ranges: unknown precondition
        def cont(s2):
            return ex.uninterp(s2, fr, name, args, dty)
        return fork(ex, st, fr, z3.Bool('range_ok!%d' % next(ex.fresh)), '%s: range out of bounds' % sn, cont)
    ln, _ = container_len(ex, st, args[0])
    i = args[1].e
    cond = z3.ULT(i, ln) if op in ('remove', 'swap_remove') else z3.ULE(i, ln)

    def cont(s2):
        return ex.uninterp(s2, fr, name, args, dty)
    return fork(ex, st, fr, cond, '%s: index out of bounds' % sn, cont)


@model(r'(^|::)(OffsetDateTime|PrimitiveDateTime|UtcDateTime)::to_offset$|<(time::)?(OffsetDateTime|PrimitiveDateTime|Date|Instant|std::time::Instant|SystemTime) as (\w+::)*(Add|Sub)<.*Duration>>::(add|sub)$')
def time_panics_model(ex, st, fr, name, args, dty):
    def cont(s2):
        return ex.uninterp(s2, fr, name, args, dty)
    return fork(ex, st, fr, z3.Bool('in_range!%d' % next(ex.fresh)), 'date-time arithmetic out of range: %s' % strip_generics(name), cont)


@model(r'(^|::)RefCell(<.*>)?::(borrow|borrow_mut)$')
def refcell_model(ex, st, fr, name, args, dty):
    def cont(s2):
        return ex.uninterp(s2, fr, name, args, dty)
    return fork(ex, st, fr, z3.Bool('not_borrowed!%d' % next(ex.fresh)), 'RefCell already borrowed: %s' % strip_generics(name), cont)


@model(r'(^|::)(chunks|chunks_exact|windows|rchunks|step_by)$')
def nonzero_arg_model(ex, st, fr, name, args, dty):
    if len(args) < 2 or not isinstance(args[1], VInt):
        return None

    def cont(s2):
        return ex.uninterp(s2, fr, name, args, dty)
    return fork(ex, st, fr, args[1].e != 0, 'zero size/step: %s' % strip_generics(name), cont)


@model(r'core::str::<impl str>::(find|rfind)$|<impl str>::(find|rfind)$')
def str_find_model(ex, st, fr, name, args, dty):
    """uninterpreted, plus the documented contract: a returned byte index lies inside the string"""
    ln, _ = container_len(ex, st, args[0])
    out = ex.uninterp(st, fr, name, args, dty)
    for (s2, v, kind, msg) in out:
        if kind == 'ok' and isinstance(v, VSym):
            i = ex.sym_int(('field', v.term, 0, 'Some'), 64).e
            s2.pc.append(z3.ULT(i, ln))
            # a match starts at a char boundary; after a single-byte (ASCII) needle the next offset is one too
            cb, facts = char_boundary(ex, st, args[0], ln)
            s2.pc.extend(facts)
            s2.pc.append(cb(i))
            nd = args[1] if len(args) > 1 else None
            if isinstance(nd, VInt) and z3.is_bv_value(z3.simplify(nd.e)) and z3.simplify(nd.e).as_long() < 0x80:
                s2.pc.append(cb(i + 1))
    return out


@model(r'core::str::<impl str>::is_char_boundary$|<impl str>::is_char_boundary$')
def is_char_boundary_model(ex, st, fr, name, args, dty):
    ln, _ = container_len(ex, st, args[0])
    if not isinstance(args[1], VInt):
        return None
    cb, facts = char_boundary(ex, st, args[0], ln)
    st.pc.extend(facts)
    return [(st, VBool(z3.And(z3.ULE(args[1].e, ln), cb(args[1].e))), 'ok', '')]


@model(r'(^|::)String::(truncate|split_off|insert|insert_str|remove)$')
def string_offset_model(ex, st, fr, name, args, dty):
    """String mutators taking a byte offset panic when it is past the end or not a char boundary (truncate beyond the end is a no-op)"""
    ln, _ = container_len(ex, st, args[0])
    off = args[1] if len(args) > 1 else None
    if not isinstance(off, VInt):
        return None
    op = strip_generics(name).split('::')[-1]
    cb, facts = char_boundary(ex, st, args[0], ln)
    inside = z3.ULE(off.e, ln) if op != 'remove' else z3.ULT(off.e, ln)
    cond = z3.Or(z3.UGT(off.e, ln), cb(off.e)) if op == 'truncate' else z3.And(inside, cb(off.e))

    def cont(s2):
        return ex.uninterp(s2, fr, name, args, dty)
    st.pc.extend(facts)
    return fork(ex, st, fr, cond, 'String::%s: offset is past the end or not a char boundary' % op, cont)


@model(r'Iterator>::collect$|FromIterator<.*>>::from_iter$|GenericArray<.*>::(from_slice|from_mut_slice|clone_from_slice)$')
def generic_array_model(ex, st, fr, name, args, dty):
    """collecting / converting into a fixed-size GenericArray panics unless the source has exactly N items; the item count of an
    iterator or slice is not tracked, so the panic is reachable unless the code took a non-panicking route (from_exact_iter,
    try_from, a checked constructor)"""
    sn = strip_generics(name)
    to_array = 'GenericArray' in (dty or '') or sn.startswith('GenericArray') or 'GenericArray' in name.split(' as ')[0]
    if not to_array:
        return None

    def cont(s2):
        return ex.uninterp(s2, fr, name, args, dty)
    return fork(ex, st, fr, z3.Bool('exact_len!%d' % next(ex.fresh)), 'conversion into a fixed-size GenericArray from a source whose length is not checked (%s)' % sn.split('::')[-1], cont)


@model(r'<(\w+::)*OneOrMany<.*> as (\w+::)*Index(Mut)?<.*>>::index(_mut)?$')
def one_or_many_index_model(ex, st, fr, name, args, dty):
    """OneOrMany indexes its slice view: out of range (in particular any index into an empty Many) panics"""
    def cont(s2):
        return ex.uninterp(s2, fr, name, args, dty)
    return fork(ex, st, fr, z3.Bool('in_range!%d' % next(ex.fresh)), 'index out of range: %s' % strip_generics(name), cont)
