"""Symbolic executor over parsed MIR (path enumeration + z3 feasibility pruning).

Soundness contract (what callers may rely on):
  * every feasible normal path of the function within the unwind bound is returned, with its path condition;
  * panics of MIR `assert` terminators and of modelled unwrap/expect are separate outcomes;
  * calls that are neither inlined nor modelled are *uninterpreted*: the result is a fresh opaque term and the
    call is logged; a verdict that needs the value of such a term is the caller's business (inconclusive);
  * anything the executor does not understand raises Refuse -> the check is inconclusive, never a pass.
"""
import re
import sys
import itertools
import z3
from values import *
from mirparse import Func, split_path, find_top, split_top, match_close

sys.setrecursionlimit(20000)


class Refuse(Exception):
    pass


class CallRec:
    __slots__ = ('name', 'args', 'ret', 'depth', 'site', 'inlined', 'argvals')

    def __init__(self, name, args, ret, depth, site, inlined, argvals=None):
        self.name, self.args, self.ret, self.depth, self.site, self.inlined = name, args, ret, depth, site, inlined
        self.argvals = argvals

    def __repr__(self):
        return 'Call(%s(%s) -> %s)' % (short(self.name), ', '.join(term_str(a) for a in self.args),
                                        term_str(self.ret) if self.ret is not None else '?')


class State:
    def __init__(self):
        self.mem = {}
        self.pc = []
        self.calls = []
        self.notes = []
        self.trace = []

    def fork(self):
        s = State()
        s.mem = dict(self.mem)
        s.pc = list(self.pc)
        s.calls = list(self.calls)
        s.notes = list(self.notes)
        s.trace = list(self.trace)
        return s


class Frame:
    _ids = itertools.count()

    def __init__(self, func, depth):
        self.func = func
        self.id = next(Frame._ids)
        self.depth = depth
        self.visits = {}

    def cell(self, n):
        return 'f%d._%d' % (self.id, n)


def capture_types(f):
    """{capture index: type} read off the `_1.K: T` projections in a closure body"""
    out = {}

    def walk(x):
        if isinstance(x, tuple):
            if len(x) == 4 and x[0] == 'field' and x[1] in (('local', 1), ('deref', ('local', 1))) and isinstance(x[2], int):
                out.setdefault(x[2], x[3])
            for y in x:
                walk(y)
        elif isinstance(x, list):
            for y in x:
                walk(y)
    for b in f.blocks.values():
        walk(b.stmts)
        walk(b.term)
    return out


class Outcome:
    def __init__(self, st, kind, val=None, msg=''):
        self.st, self.kind, self.val, self.msg = st, kind, val, msg

    def __repr__(self):
        return 'Outcome(%s %s %s)' % (self.kind, self.val, self.msg)


BUILTIN_VARIANTS = {
    'Option': {'None': 0, 'Some': 1},
    'Result': {'Ok': 0, 'Err': 1},
    'ControlFlow': {'Continue': 0, 'Break': 1},
    'Ordering': {'Less': -1, 'Equal': 0, 'Greater': 1},
    'Cow': {'Borrowed': 0, 'Owned': 1},
}


def strip_generics(path):
    """remove `::<...>` turbofish segments and generic args of the last type segments"""
    segs = split_path(path)
    out = []
    for i, s in enumerate(segs):
        if s.startswith('<') and s.endswith('>') and (not s.startswith('<impl') or (i == len(segs) - 1 and i > 0)) \
                and (i > 0 or ' as ' not in s):
            # pure generic args segment (turbofish); `<T as Trait>` only occurs as the first segment
            continue
        out.append(s)
    return '::'.join(out)


def base_ident(ty):
    """last identifier of a type path without generics: std::option::Option<T> -> Option"""
    ty = ty.strip()
    while ty.startswith('&'):
        ty = ty[1:].lstrip()
        if ty.startswith('mut '):
            ty = ty[4:]
        m = re.match(r"'[a-z_]+ ", ty)
        if m:
            ty = ty[m.end():]
    k = find_top(ty, '<')
    if k > 0:
        ty = ty[:k]
    ty = ty.rstrip(':')
    return split_path(ty)[-1] if ty else ty


class Program:
    """all parsed functions of the dumped crates + enum tables from source"""

    def __init__(self, funcs, enums=None):
        self.funcs = [f for f in funcs if not f.ctfe]
        self.by_last = {}
        self.closures = {}
        self.consts = {}
        for f in self.funcs:
            segs = split_path(f.name)
            self.by_last.setdefault(strip_last(segs[-1]), []).append(f)
            if f.kind in ('const', 'static', 'promoted'):
                self.consts.setdefault(segs[-1], []).append(f)
            if re.fullmatch(r'\{closure#\d+\}', segs[-1]) and f.args:
                t = f.args[0][1]
                m = re.search(r'\{closure@[^}]*\}', t)
                if m:
                    self.closures.setdefault(m.group(0), []).append(f)
        self.enums = enums or {}

    def find(self, pattern, nargs=None, sig=None):
        """functions whose printed name matches regex `pattern` (search) and whose signature text matches `sig`"""
        r = re.compile(pattern)
        out = [f for f in self.funcs if r.search(f.name) and f.kind == 'fn' and (nargs is None or len(f.args) == nargs)]
        if sig is not None:
            rs = re.compile(sig)
            out = [f for f in out if rs.search(', '.join(a[1] for a in f.args) + ' -> ' + f.ret_ty)]
        return out

    def one(self, pattern, nargs=None, sig=None):
        c = self.find(pattern, nargs, sig)
        if len(c) != 1:
            raise Refuse('function pattern %r matches %d functions: %s' % (pattern, len(c), [f.name for f in c][:6]))
        return c[0]

    # -- call resolution ------------------------------------------------------
    def resolve_call(self, text, nargs, caller=None):
        """returns (Func|None, reason)"""
        t = strip_generics(text)
        segs = split_path(t)
        last = strip_last(segs[-1])
        cands = [f for f in self.by_last.get(last, []) if f.kind == 'fn' and len(f.args) == nargs]
        if not cands:
            return None, 'extern'
        m = re.fullmatch(r'<(.*) as (.*)>', segs[0]) if len(segs) == 2 else None
        if m:
            selfty, trait = m.group(1), m.group(2)
            sid = base_ident(selfty)
            trait_id = base_ident(trait)
            tk = find_top(trait, '<')
            targ = base_ident(trait[tk + 1:-1]) if tk > 0 else None
            c2 = []
            for f in cands:
                if '<impl at' not in f.name:
                    continue
                sig = ' '.join(a[1] for a in f.args) + ' -> ' + f.ret_ty
                idents = set(re.findall(r'[A-Za-z_][A-Za-z_0-9]*', sig))
                if sid not in idents and sid not in ('Self',):
                    continue
                if trait_id in ('From', 'TryFrom') and targ:
                    if base_ident(f.args[0][1]) != targ:
                        continue
                    if sid not in set(re.findall(r'[A-Za-z_][A-Za-z_0-9]*', f.ret_ty)):
                        continue
                c2.append(f)
            if len(c2) == 1:
                return c2[0], 'trait'
            if len(c2) > 1 and caller is not None:
                c3 = [f for f in c2 if f.crate == caller.crate]
                if len(c3) == 1:
                    return c3[0], 'trait-crate'
            return None, 'ambiguous(%d)' % len(c2) if c2 else 'extern'
        # inherent / free function: compare segment lists with <impl at> as a one-segment wildcard
        c2 = []
        for f in cands:
            fsegs = split_path(f.name)
            if seg_match(fsegs, segs):
                c2.append(f)
        if len(c2) == 1:
            return c2[0], 'path'
        if len(c2) > 1 and len(segs) >= 2:
            # the wildcard stood for a type: its identifier has to occur in the candidate's signature
            tid = base_ident(segs[-2])
            c3 = [f for f in c2 if tid in set(re.findall(r'[A-Za-z_][A-Za-z_0-9]*', ' '.join(a[1] for a in f.args) + ' -> ' + f.ret_ty))]
            if len(c3) == 1:
                return c3[0], 'path-type'
            if c3:
                c2 = c3
        if len(c2) > 1 and caller is not None:
            c3 = [f for f in c2 if f.crate == caller.crate]
            if len(c3) == 1:
                return c3[0], 'path-crate'
        if not c2 and len(segs) >= 2:
            # cross-crate: type ident must occur in the signature or be the impl's type
            tid = base_ident(segs[-2])
            c3 = []
            for f in cands:
                sig = ' '.join(a[1] for a in f.args) + ' -> ' + f.ret_ty
                if tid in set(re.findall(r'[A-Za-z_][A-Za-z_0-9]*', sig)) and '<impl at' in f.name:
                    c3.append(f)
            if len(c3) == 1:
                return c3[0], 'xcrate'
            return None, 'ambiguous-x(%d)' % len(c3) if c3 else 'extern'
        return None, 'ambiguous(%d)' % len(c2) if c2 else 'extern'

    def resolve_const(self, text, caller):
        t = strip_generics(text)
        segs = split_path(t)
        cands = self.consts.get(segs[-1], [])
        if segs[-1].startswith('promoted[') and caller is not None:
            # promoted of the calling function: same function name
            want = strip_last(split_path(caller.name)[-1]) if not caller.name.endswith(']') else None
            c2 = [f for f in cands if split_path(f.name)[:-1] == split_path(caller.name) and f.crate == caller.crate]
            if len(c2) == 1:
                return c2[0]
            c2 = [f for f in cands if f.crate == caller.crate and seg_match(split_path(f.name), segs)]
            if len(c2) == 1:
                return c2[0]
            return None
        c2 = [f for f in cands if seg_match(split_path(f.name), segs)]
        if len(c2) > 1 and caller is not None:
            c3 = [f for f in c2 if f.crate == caller.crate]
            if c3:
                c2 = c3
        if len(c2) >= 1:
            return c2[0]
        if len(cands) == 1:
            return cands[0]
        return None


def strip_last(seg):
    k = find_top(seg, '<')
    return seg[:k] if k > 0 else seg


def seg_match(fsegs, csegs):
    """def segments (may contain `<impl at ..>`) vs call segments (type names instead); suffix match on modules"""
    fs = list(fsegs)
    cs = [strip_last(c) for c in csegs]
    # align from the end
    i, j = len(fs) - 1, len(cs) - 1
    while i >= 0 and j >= 0:
        a, b = fs[i], cs[j]
        if a.startswith('<impl at'):
            pass  # wildcard for the type segment
        elif strip_last(a) != b:
            return False
        i -= 1
        j -= 1
    # whatever is left on either side must be module prefix
    return True


# ----------------------------------------------------------------------------

class Exec:
    def __init__(self, prog, inline=None, models=None, max_depth=6, unwind=1, solver_timeout_ms=20000,
                 max_paths=20000):
        self.prog = prog
        self.inline = inline or (lambda f, depth: True)
        self.models = models or []
        self.max_depth = max_depth
        self.unwind = unwind
        self.solver = z3.Solver()
        self.solver.set('timeout', solver_timeout_ms)
        self.fresh = itertools.count()
        self.max_paths = max_paths
        self.npaths = 0
        self.queries = 0
        self.solver_time = 0.0
        self.encoded = set()
        self.symvars = {}
        self.occ = {}
        self.const_cache = {}

    # -- solver helpers -------------------------------------------------------
    def feasible(self, pc):
        import time
        self.queries += 1
        t = time.time()
        self.solver.push()
        for c in pc:
            self.solver.add(c)
        r = self.solver.check()
        self.solver.pop()
        self.solver_time += time.time() - t
        if r == z3.unknown:
            raise Refuse('solver unknown on feasibility')
        return r == z3.sat

    def concrete(self, e):
        s = z3.simplify(e)
        if z3.is_bv_value(s):
            return s.as_long()
        if z3.is_true(s):
            return 1
        if z3.is_false(s):
            return 0
        return None

    # -- symbols --------------------------------------------------------------
    def sym_int(self, term, bits, signed=False):
        key = ('i', term_str(term), bits)
        if key not in self.symvars:
            self.symvars[key] = z3.BitVec('v!' + term_str(term), bits)
        return VInt(self.symvars[key], bits, signed)

    def sym_bool(self, term):
        key = ('b', term_str(term))
        if key not in self.symvars:
            self.symvars[key] = z3.Bool('v!' + term_str(term))
        return VBool(self.symvars[key])

    def discr_var(self, term):
        key = ('d', term_str(term))
        if key not in self.symvars:
            self.symvars[key] = z3.BitVec('d!' + term_str(term), 64)
        return self.symvars[key]

    def sym_bytes(self, term):
        key = ('bytes', term_str(term))
        if key not in self.symvars:
            self.symvars[key] = (z3.Array('a!' + term_str(term), z3.BitVecSort(64), z3.BitVecSort(8)),
                                 z3.BitVec('len!' + term_str(term), 64))
        arr, ln = self.symvars[key]
        return VBytes(arr, z3.BitVecVal(0, 64), ln)

    def coerce(self, v, ty):
        """materialise opaque values of primitive type"""
        if isinstance(v, VSym) and ty:
            t = ty.strip()
            if t in INT_TYPES:
                b, s = INT_TYPES[t]
                return self.sym_int(v.term, b, s)
            if t == 'bool':
                return self.sym_bool(v.term)
            if not v.ty:
                return VSym(v.term, t)
        return v

    def to_term(self, st, v, depth=0):
        if isinstance(v, VSym):
            return v.term
        if isinstance(v, VInt):
            c = self.concrete(v.e)
            return ('const', c) if c is not None else ('z3', z3.simplify(v.e))
        if isinstance(v, VBool):
            c = self.concrete(v.e)
            return ('const', bool(c)) if c is not None else ('z3', z3.simplify(v.e))
        if isinstance(v, VAgg):
            return ('agg', v.ty, v.variant, tuple(self.to_term(st, x, depth + 1) for x in v.fields))
        if isinstance(v, VOver):
            return ('over', v.base.term, tuple((k, self.to_term(st, x, depth + 1)) for k, x in sorted(v.over.items(), key=lambda kv: str(kv[0]))))
        if isinstance(v, VRef):
            if depth > 6:
                return ('ref', ('leaf', '...'))
            try:
                inner = self.load(st, v.cell, v.path)
            except Refuse:
                return ('ref', ('leaf', 'cell:' + str(v.cell)))
            return ('ref', self.to_term(st, inner, depth + 1))
        if isinstance(v, VBytes):
            c = self.bytes_const(v)
            if c is not None:
                return ('const', c)
            return ('bytes', ('z3', v.arr), ('z3', z3.simplify(v.off)), ('z3', z3.simplify(v.len)))
        if isinstance(v, VFn):
            return ('fn', v.name, self.to_term(st, v.caps, depth + 1) if v.caps is not None else None)
        if v is UNINIT:
            return ('uninit',)
        return ('other', repr(v))

    def bytes_const(self, v):
        n = self.concrete(v.len)
        if n is None or n > 256:
            return None
        out = bytearray()
        for i in range(n):
            c = self.concrete(z3.Select(v.arr, v.off + i))
            if c is None:
                return None
            out.append(c)
        return bytes(out)

    # -- memory ---------------------------------------------------------------
    def load(self, st, cell, path):
        if cell not in st.mem:
            raise Refuse('read of unknown cell %s' % cell)
        v = st.mem[cell]
        for p in path:
            v = self.project(st, v, p)
        return v

    def project(self, st, v, p):
        kind = p[0]
        if kind == 'f':
            _, idx, variant, ty = p
            if isinstance(v, VAgg):
                if variant is not None and v.variant is not None and not variant_eq(v.variant, variant):
                    raise Refuse('downcast %s on value of variant %s' % (variant, v.variant))
                if idx >= len(v.fields):
                    # newtype-like wrappers around pointers (Box/Unique/NonNull) are transparent
                    raise Refuse('field %d out of range in %r' % (idx, v))
                return self.coerce(v.fields[idx], ty)
            if isinstance(v, VOver):
                if (variant, idx) in v.over:
                    return v.over[(variant, idx)]
                return self.coerce(VSym(('field', v.base.term, idx, variant or ''), ty), ty)
            if isinstance(v, VSym):
                return self.coerce(VSym(('field', v.term, idx, variant or ''), ty), ty)
            if isinstance(v, VRef):
                # Box<T>.0 / Unique.0 / NonNull.0 : pointer wrappers are transparent
                return v
            if v is UNINIT:
                return UNINIT
            raise Refuse('field projection on %r' % (v,))
        if kind == 'i':
            idx = p[1]
            if isinstance(v, VBytes):
                return VInt(z3.Select(v.arr, v.off + idx), 8)
            if isinstance(v, VAgg) and v.ty == 'array':
                c = self.concrete(idx)
                if c is not None:
                    return v.fields[c]
                r = v.fields[-1]
                if not all(isinstance(x, VInt) for x in v.fields):
                    raise Refuse('symbolic index into non-int array')
                e = v.fields[-1].e
                for k in range(len(v.fields) - 2, -1, -1):
                    e = z3.If(idx == k, v.fields[k].e, e)
                return VInt(e, v.fields[0].bits, v.fields[0].signed)
            if isinstance(v, VSym):
                return VSym(('index', v.term, ('z3', z3.simplify(idx))))
            raise Refuse('index projection on %r' % (v,))
        raise Refuse('projection %r' % (p,))

    def store(self, st, cell, path, val):
        if not path:
            st.mem[cell] = val
            return
        old = st.mem.get(cell, UNINIT)
        st.mem[cell] = self.updated(st, old, path, val)

    def updated(self, st, old, path, val):
        if not path:
            return val
        p = path[0]
        if p[0] == 'f':
            _, idx, variant, ty = p
            if isinstance(old, VAgg):
                fields = list(old.fields)
                while len(fields) <= idx:
                    fields.append(UNINIT)
                fields[idx] = self.updated(st, fields[idx], path[1:], val)
                return VAgg(old.ty, old.variant if variant is None else variant, fields)
            if old is UNINIT:
                fields = [UNINIT] * (idx + 1)
                fields[idx] = self.updated(st, UNINIT, path[1:], val)
                return VAgg('?', variant, fields)
            if isinstance(old, VSym):
                old = VOver(old, {})
            if isinstance(old, VOver):
                over = dict(old.over)
                cur = over.get((variant, idx))
                if cur is None:
                    cur = self.coerce(VSym(('field', old.base.term, idx, variant or ''), ty), ty)
                over[(variant, idx)] = self.updated(st, cur, path[1:], val)
                return VOver(old.base, over)
            raise Refuse('field store into %r' % (old,))
        if p[0] == 'i':
            idx = p[1]
            if isinstance(old, VBytes):
                if path[1:]:
                    raise Refuse('nested store in bytes')
                if not isinstance(val, VInt):
                    raise Refuse('non-int store in bytes')
                return VBytes(z3.Store(old.arr, old.off + idx, val.e), old.off, old.len)
            if isinstance(old, VAgg) and old.ty == 'array':
                c = self.concrete(idx)
                if c is None:
                    raise Refuse('symbolic index store in array')
                fields = list(old.fields)
                fields[c] = self.updated(st, fields[c], path[1:], val)
                return VAgg(old.ty, old.variant, fields)
            raise Refuse('index store into %r' % (old,))
        raise Refuse('store path %r' % (p,))

    # -- places ---------------------------------------------------------------
    def resolve(self, st, fr, place):
        """-> (cell, path)"""
        k = place[0]
        if k == 'local':
            return fr.cell(place[1]), ()
        if k == 'deref':
            v = self.read_place(st, fr, place[1])
            if isinstance(v, VRef):
                return v.cell, v.path
            if isinstance(v, VSym):
                # opaque pointer: give it a backing cell holding an opaque pointee (memoised by term)
                cell = 'sym:' + term_str(v.term)
                if cell not in st.mem:
                    st.mem[cell] = VSym(('deref', v.term), deref_ty(v.ty))
                return cell, ()
            raise Refuse('deref of %r in %s' % (v, fr.func.name))
        if k == 'field':
            cell, path = self.resolve(st, fr, place[1])
            variant = None
            if path and path[-1][0] == 'dc':
                variant = path[-1][1]
                path = path[:-1]
            return cell, path + (('f', place[2], variant, place[3]),)
        if k == 'downcast':
            cell, path = self.resolve(st, fr, place[1])
            return cell, path + (('dc', place[2]),)
        if k == 'index':
            cell, path = self.resolve(st, fr, place[1])
            iv = self.load(st, fr.cell(place[2]), ())
            if not isinstance(iv, VInt):
                raise Refuse('index by %r' % (iv,))
            return cell, path + (('i', iv.e),)
        if k == 'cindex':
            cell, path = self.resolve(st, fr, place[1])
            if place[4]:
                raise Refuse('from-end const index')
            return cell, path + (('i', z3.BitVecVal(place[2], 64)),)
        raise Refuse('place kind %s' % k)

    def read_place(self, st, fr, place):
        cell, path = self.resolve(st, fr, place)
        path = tuple(p for p in path if p[0] != 'dc')
        v = self.load(st, cell, path)
        return self.coerce(v, self.place_ty(fr, place))

    def write_place(self, st, fr, place, val):
        cell, path = self.resolve(st, fr, place)
        path = tuple(p for p in path if p[0] != 'dc')
        self.store(st, cell, path, val)

    def place_ty(self, fr, place):
        k = place[0]
        if k == 'local':
            return fr.func.locals.get(place[1], '')
        if k == 'field':
            return place[3]
        if k == 'deref':
            return deref_ty(self.place_ty(fr, place[1]))
        if k in ('index', 'cindex'):
            t = self.place_ty(fr, place[1]).strip()
            m = re.fullmatch(r'\[(.*?)(; .*)?\]', t)
            return m.group(1) if m else ''
        if k == 'downcast':
            return self.place_ty(fr, place[1])
        return ''

    # -- operands -------------------------------------------------------------
    def recover_captures(self, fr, cname, ops):
        """rustc's MIR printer names closure captures after the captured *variable*, so several disjoint captures of
        one variable (`self.decoder`, `self.payload`) print as a single operand.  The hidden operands are the temporaries
        assigned immediately before the aggregate, in capture order; they are recovered only if count, position and
        types agree with the closure body's `_1.K: T` projections - otherwise the printed list is kept (and a later
        out-of-range projection refuses)."""
        cands = self.prog.closures.get(cname) or []
        if len(cands) != 1:
            return ops
        want = capture_types(cands[0])
        n = (max(want) + 1) if want else 0
        if n <= len(ops):
            return ops
        recent = getattr(fr, 'recent', [])
        if len(recent) < n:
            return ops
        tail = recent[-n:]
        norm = lambda t: re.sub(r'\b(?:\w+::)+', '', t or '').replace(' ', '')   # noqa
        for k, (loc, ty) in enumerate(tail):
            if k in want and norm(want[k]) != norm(ty):
                return ops
        if ops and not (ops[0][0] in ('copy', 'move') and ops[0][1] == ('local', tail[0][0])):
            return ops
        return [('copy', ('local', loc)) for loc, _ in tail]

    def operand(self, st, fr, op, ty_hint=''):
        k = op[0]
        if k in ('copy', 'move'):
            return self.read_place(st, fr, op[1])
        if k == 'const':
            return self.const(st, fr, op[1], ty_hint)
        if k == 'fnitem':
            return VFn(op[1])
        raise Refuse('operand %r' % (op,))

    def const(self, st, fr, text, ty_hint=''):
        t = text.strip()
        m = re.fullmatch(r'(-?\d+)_([iu](?:8|16|32|64|128|size))', t)
        if m:
            b, s = INT_TYPES[m.group(2)]
            return VInt(int(m.group(1)) & ((1 << b) - 1), b, s)
        if t in ('true', 'false'):
            return VBool(t == 'true')
        if t == '()':
            return VAgg('tuple', None, [])
        if t.startswith('ZeroSized: '):
            body = t[len('ZeroSized: '):]
            m = re.match(r'\{closure@[^}]*\}', body)
            if m:
                return VFn(m.group(0), VAgg('closure', None, []))
            return VAgg(base_ident(body), None, [])
        if t.startswith("'"):
            body = t[1:-1]
            ch = decode_char(body)
            return VInt(ch, 32)
        if t.startswith('"') or t.startswith('b"'):
            data = decode_str(t[t.index('"'):])
            return self.alloc_bytes(st, data)
        m = re.fullmatch(r'(\d+(?:\.\d+)?)f(32|64)', t)
        if m:
            raise Refuse('float const')
        # associated constants of the primitive integer types (core has no MIR here)
        m = re.fullmatch(r'(?:core::num::)?<impl ([iu](?:8|16|32|64|128|size))>::(BITS|MAX|MIN)|([iu](?:8|16|32|64|128|size))::(BITS|MAX|MIN)', t)
        if m:
            ity, which = (m.group(1), m.group(2)) if m.group(1) else (m.group(3), m.group(4))
            b, sg = INT_TYPES[ity]
            if which == 'BITS':
                return VInt(b, 32, False)
            if which == 'MAX':
                return VInt((1 << (b - 1)) - 1 if sg else (1 << b) - 1, b, sg)
            return VInt((1 << (b - 1)) if sg else 0, b, sg)
        # named constant / promoted / unit-like ADT value
        f = self.prog.resolve_const(t, fr.func if fr else None)
        if f is not None:
            return self.eval_const(st, f)
        # `const Type::Variant` or `const Type {..}` printed values of ZST / unit variants
        m = re.fullmatch(r'([A-Za-z_][\w:<>, ]*)', t)
        if m:
            segs = split_path(t)
            if len(segs) >= 2:
                return VAgg('::'.join(segs[:-1]), segs[-1], [])
            return VSym(('const', t), ty_hint)
        return VSym(('const', t), ty_hint)

    def eval_const(self, st, f):
        key = (f.crate, f.name)
        stack = getattr(self, '_const_stack', ())
        if key in stack:
            # a constant defined in terms of a same-named constant elsewhere (e.g. IotaDID::SCHEME = CoreDID::SCHEME):
            # try another candidate with that name, else stay opaque
            last = split_path(f.name)[-1]
            others = [g for g in self.prog.consts.get(last, []) if (g.crate, g.name) not in stack]
            if others:
                return self.eval_const(st, others[0])
            return VSym(('const', f.name), f.ret_ty)
        self._const_stack = stack + (key,)
        try:
            if f.const_val is not None:
                return self.const(st, None, f.const_val, f.ret_ty)
            # constants are evaluated in the current state (they only allocate fresh cells)
            outs = self.run(f, [], st, depth=0, is_const=True)
            outs = [o for o in outs if o.kind == 'return']
            if len(outs) != 1:
                raise Refuse('constant %s has %d outcomes' % (f.name, len(outs)))
            st.mem.update(outs[0].st.mem)
            return outs[0].val
        finally:
            self._const_stack = stack

    def alloc_bytes(self, st, data):
        n = next(self.fresh)
        cell = 'lit%d' % n
        arr = z3.K(z3.BitVecSort(64), z3.BitVecVal(0, 8))
        for i, b in enumerate(data):
            arr = z3.Store(arr, z3.BitVecVal(i, 64), z3.BitVecVal(b, 8))
        st.mem[cell] = VBytes(arr, z3.BitVecVal(0, 64), z3.BitVecVal(len(data), 64))
        return VRef(cell)

    # -- rvalues --------------------------------------------------------------
    def rvalue(self, st, fr, rv, dest_ty):
        k = rv[0]
        if k == 'use':
            return self.coerce(self.operand(st, fr, rv[1], dest_ty), dest_ty)
        if k == 'ref':
            cell, path = self.resolve(st, fr, rv[2])
            path = tuple(p for p in path if p[0] != 'dc')
            return VRef(cell, path)
        if k == 'binop':
            return self.binop(st, rv[1], self.operand(st, fr, rv[2]), self.operand(st, fr, rv[3]))
        if k == 'unop':
            a = self.operand(st, fr, rv[2])
            if rv[1] == 'Not':
                if isinstance(a, VBool):
                    return VBool(z3.Not(a.e))
                if isinstance(a, VInt):
                    return VInt(~a.e, a.bits, a.signed)
            if rv[1] == 'Neg' and isinstance(a, VInt):
                return VInt(-a.e, a.bits, a.signed)
            if rv[1] == 'PtrMetadata':
                return self.ptr_len(st, a)
            raise Refuse('unop %s on %r' % (rv[1], a))
        if k == 'len':
            cell, path = self.resolve(st, fr, rv[1])
            v = self.load(st, cell, tuple(p for p in path if p[0] != 'dc'))
            return self.len_of(v)
        if k == 'discr':
            v = self.read_place(st, fr, rv[1])
            return self.discriminant(st, v, self.place_ty(fr, rv[1]))
        if k == 'cast':
            return self.cast(st, self.operand(st, fr, rv[1]), rv[2], rv[3])
        if k == 'agg':
            if rv[1] == 'tuple':
                return VAgg('tuple', None, [self.operand(st, fr, o) for o in rv[3]])
            if rv[1] == 'array':
                return VAgg('array', None, [self.operand(st, fr, o) for o in rv[3]])
            path = strip_generics(rv[2])
            fields = [self.operand(st, fr, o) for (_, o) in rv[3]]
            segs = split_path(path)
            dty = base_ident(dest_ty) if dest_ty else ''
            # `Type::Variant(..)` vs `Type(..)` / `Type {..}`: use the destination type's ident
            if len(segs) >= 2 and base_ident(segs[-2]) == dty:
                return VAgg(dty, segs[-1], fields)
            if base_ident(segs[-1]) == dty or not dty:
                return VAgg(base_ident(segs[-1]), None, fields)
            # enum variant referenced by bare name (`InvalidDocument(..)`) or via alias
            return VAgg(dty, segs[-1], fields)
        if k == 'closure':
            ops = [o for (_, o) in rv[2]]
            m = re.search(r'\{closure@[^}]*\}', rv[1])
            cname = m.group(0) if m else rv[1]
            ops = self.recover_captures(fr, cname, ops)
            caps = VAgg('closure', None, [self.operand(st, fr, o) for o in ops])
            return VFn(cname, caps)
        if k == 'repeat':
            v = self.operand(st, fr, rv[1])
            n = re.match(r'(?:const )?(\d+)', rv[2])
            if n and int(n.group(1)) <= 64:
                return VAgg('array', None, [v] * int(n.group(1)))
            raise Refuse('repeat %s' % rv[2])
        raise Refuse('rvalue %r' % (rv,))

    def len_of(self, v):
        if isinstance(v, VBytes):
            return VInt(v.len, 64)
        if isinstance(v, VAgg) and v.ty == 'array':
            return VInt(len(v.fields), 64)
        if isinstance(v, VSym):
            return self.sym_int(('len', v.term), 64)
        raise Refuse('len of %r' % (v,))

    def ptr_len(self, st, a):
        if isinstance(a, VRef):
            return self.len_of(self.load(st, a.cell, a.path))
        if isinstance(a, VSym):
            return self.sym_int(('len', a.term), 64)
        raise Refuse('PtrMetadata of %r' % (a,))

    def discriminant(self, st, v, ty):
        if isinstance(v, VAgg):
            idx = self.variant_index(v.ty, v.variant, ty)
            return VInt(idx & ((1 << 64) - 1), 64, True)
        if isinstance(v, (VSym, VOver)):
            term = v.term if isinstance(v, VSym) else v.base.term
            d = self.discr_var(term)
            n = self.variant_count(ty or (v.ty if isinstance(v, VSym) else ''))
            if n is not None:
                st.pc.append(z3.ULT(d, n))
            return VInt(d, 64, True)
        if isinstance(v, VBool):
            return VInt(z3.If(v.e, z3.BitVecVal(1, 64), z3.BitVecVal(0, 64)), 64)
        if v is UNINIT:
            # zero-sized single-variant enums are never written in MIR
            tab = self.prog.enums.get(base_ident(ty) if ty else '')
            if tab and len(tab) == 1:
                return VInt(list(tab.values())[0] & ((1 << 64) - 1), 64, True)
        raise Refuse('discriminant of %r (%s)' % (v, ty))

    def variant_count(self, ty):
        b = base_ident(ty) if ty else ''
        if b in BUILTIN_VARIANTS and b != 'Ordering':
            return len(BUILTIN_VARIANTS[b])
        if b in self.prog.enums and self.prog.enums[b] is not None:
            vs = self.prog.enums[b]
            if all(isinstance(x, int) for x in vs.values()) and sorted(vs.values()) == list(range(len(vs))):
                return len(vs)
        return None

    def variant_index(self, ty, variant, ty2=''):
        if isinstance(variant, int):
            return variant
        for t in (ty, ty2):
            b = base_ident(t) if t else ''
            if b in BUILTIN_VARIANTS and variant in BUILTIN_VARIANTS[b]:
                return BUILTIN_VARIANTS[b][variant]
            if b in self.prog.enums and self.prog.enums[b] is not None and variant in self.prog.enums[b]:
                return self.prog.enums[b][variant]
        if variant is None:
            raise Refuse('discriminant of struct-like value %s' % ty)
        raise Refuse('unknown variant index %s::%s' % (ty, variant))

    def variant_name(self, ty, idx):
        b = base_ident(ty) if ty else ''
        tab = BUILTIN_VARIANTS.get(b) or self.prog.enums.get(b)
        if tab:
            for k, v in tab.items():
                if v == idx:
                    return k
        return idx

    def cast(self, st, v, ty, kind):
        ty = ty.strip()
        if kind.startswith('IntToInt') or kind == 'Misc':
            if isinstance(v, VBool):
                v = VInt(z3.If(v.e, z3.BitVecVal(1, 8), z3.BitVecVal(0, 8)), 8)
            if isinstance(v, VInt) and ty in INT_TYPES:
                b, s = INT_TYPES[ty]
                if b == v.bits:
                    return VInt(v.e, b, s)
                if b < v.bits:
                    return VInt(z3.Extract(b - 1, 0, v.e), b, s)
                return VInt(z3.SignExt(b - v.bits, v.e) if v.signed else z3.ZeroExt(b - v.bits, v.e), b, s)
            if isinstance(v, VAgg) and ty in INT_TYPES:
                # fieldless enum -> int
                b, s = INT_TYPES[ty]
                return VInt(self.variant_index(v.ty, v.variant) & ((1 << b) - 1), b, s)
        if kind.startswith('PointerCoercion') or kind in ('Transmute', 'PtrToPtr', 'PointerExposeProvenance',
                                                           'PointerWithExposedProvenance', 'Subtype'):
            if kind.startswith('PointerCoercion(Unsize') and isinstance(v, VRef):
                inner = self.load(st, v.cell, v.path)
                if isinstance(inner, VAgg) and inner.ty == 'array' and all(isinstance(x, VInt) and x.bits == 8 for x in inner.fields):
                    # [u8; N] -> [u8]
                    cell = 'unsz%d' % next(self.fresh)
                    arr = z3.K(z3.BitVecSort(64), z3.BitVecVal(0, 8))
                    for i, x in enumerate(inner.fields):
                        arr = z3.Store(arr, z3.BitVecVal(i, 64), x.e)
                    st.mem[cell] = VBytes(arr, z3.BitVecVal(0, 64), z3.BitVecVal(len(inner.fields), 64))
                    return VRef(cell)
            return v
        if isinstance(v, VSym):
            return self.coerce(VSym(('cast', v.term, ty), ty), ty)
        raise Refuse('cast %s of %r to %s' % (kind, v, ty))

    def binop(self, st, op, a, b):
        # an operand the executor has no value for (a constant of another crate, e.g. `Signature::LENGTH`) next to an integer: an
        # unknown integer of the same width, one per constant (over-approximation: both outcomes of a comparison stay reachable)
        if isinstance(a, VInt) and isinstance(b, (VAgg, VSym)) and not isinstance(b, VInt) and not (isinstance(b, VAgg) and b.fields):
            b = self.sym_int(('extconst', term_str(self.to_term(st, b))), a.bits, a.signed)
        elif isinstance(b, VInt) and isinstance(a, (VAgg, VSym)) and not isinstance(a, VInt) and not (isinstance(a, VAgg) and a.fields):
            a = self.sym_int(('extconst', term_str(self.to_term(st, a))), b.bits, b.signed)
        if isinstance(a, VBool) and isinstance(b, VBool):
            if op == 'Eq':
                return VBool(a.e == b.e)
            if op == 'Ne':
                return VBool(a.e != b.e)
            if op == 'BitAnd':
                return VBool(z3.And(a.e, b.e))
            if op == 'BitOr':
                return VBool(z3.Or(a.e, b.e))
            if op == 'BitXor':
                return VBool(z3.Xor(a.e, b.e))
        if isinstance(a, VInt) and isinstance(b, VInt):
            if op in ('Shl', 'Shr', 'ShlUnchecked', 'ShrUnchecked') and a.bits != b.bits:
                be = z3.Extract(a.bits - 1, 0, b.e) if b.bits > a.bits else z3.ZeroExt(a.bits - b.bits, b.e)
            else:
                be = b.e
                if a.bits != b.bits:
                    raise Refuse('binop width mismatch %s %r %r' % (op, a, b))
            s = a.signed
            x, y = a.e, be
            if op in ('Add', 'AddUnchecked'):
                return VInt(x + y, a.bits, s)
            if op in ('Sub', 'SubUnchecked'):
                return VInt(x - y, a.bits, s)
            if op in ('Mul', 'MulUnchecked'):
                return VInt(x * y, a.bits, s)
            if op == 'Div':
                return VInt(x / y if s else z3.UDiv(x, y), a.bits, s)
            if op == 'Rem':
                return VInt(z3.SRem(x, y) if s else z3.URem(x, y), a.bits, s)
            if op == 'BitAnd':
                return VInt(x & y, a.bits, s)
            if op == 'BitOr':
                return VInt(x | y, a.bits, s)
            if op == 'BitXor':
                return VInt(x ^ y, a.bits, s)
            if op in ('Shl', 'ShlUnchecked'):
                return VInt(x << y, a.bits, s)
            if op in ('Shr', 'ShrUnchecked'):
                return VInt((x >> y) if s else z3.LShR(x, y), a.bits, s)
            if op == 'Eq':
                return VBool(x == y)
            if op == 'Ne':
                return VBool(x != y)
            if op == 'Lt':
                return VBool(x < y if s else z3.ULT(x, y))
            if op == 'Le':
                return VBool(x <= y if s else z3.ULE(x, y))
            if op == 'Gt':
                return VBool(x > y if s else z3.UGT(x, y))
            if op == 'Ge':
                return VBool(x >= y if s else z3.UGE(x, y))
            if op in ('AddWithOverflow', 'SubWithOverflow', 'MulWithOverflow'):
                w = a.bits
                if op == 'AddWithOverflow':
                    r = x + y
                    ov = z3.Not(z3.BVAddNoOverflow(x, y, s)) if not s else z3.Or(z3.Not(z3.BVAddNoOverflow(x, y, True)), z3.Not(z3.BVAddNoUnderflow(x, y)))
                elif op == 'SubWithOverflow':
                    r = x - y
                    ov = z3.Not(z3.BVSubNoUnderflow(x, y, s)) if not s else z3.Or(z3.Not(z3.BVSubNoOverflow(x, y)), z3.Not(z3.BVSubNoUnderflow(x, y, True)))
                else:
                    r = x * y
                    ov = z3.Not(z3.BVMulNoOverflow(x, y, s)) if not s else z3.Or(z3.Not(z3.BVMulNoOverflow(x, y, True)), z3.Not(z3.BVMulNoUnderflow(x, y)))
                return VAgg('tuple', None, [VInt(r, w, s), VBool(ov)])
            if op == 'Cmp':
                lt = x < y if s else z3.ULT(x, y)
                e = z3.If(lt, z3.BitVecVal(-1, 8), z3.If(x == y, z3.BitVecVal(0, 8), z3.BitVecVal(1, 8)))
                return VSymOrdering(e)
        raise Refuse('binop %s on %r, %r' % (op, a, b))

    # -- running --------------------------------------------------------------
    def run(self, func, args, st=None, depth=0, is_const=False):
        """execute `func` with argument values; returns list of Outcome"""
        if st is None:
            st = State()
        if not func.blocks:
            raise Refuse('no body for %s' % func.name)
        self.encoded.add(short(func.name))
        fr = Frame(func, depth)
        if len(args) != len(func.args):
            raise Refuse('arity mismatch calling %s' % func.name)
        for (n, ty), v in zip(func.args, args):
            st.mem[fr.cell(n)] = self.coerce(v, ty)
        for n in func.locals:
            if fr.cell(n) not in st.mem:
                st.mem[fr.cell(n)] = UNINIT
        return self.run_block(st, fr, 0)

    def run_block(self, st, fr, bb):
        outs = []
        work = [(st, bb)]
        while work:
            st, bb = work.pop()
            while True:
                n = fr.visits.get(bb, 0)
                # visits are per frame *and* per path: store in state trace
                key = (fr.id, bb)
                cnt = sum(1 for t in st.trace if t == key)
                if cnt > self.unwind:
                    outs.append(Outcome(st, 'bound', msg='loop bound at bb%d of %s' % (bb, fr.func.name)))
                    break
                st.trace.append(key)
                blk = fr.func.blocks.get(bb)
                if blk is None or blk.term is None:
                    raise Refuse('missing block bb%s in %s' % (bb, fr.func.name))
                fr.recent = []
                for s in blk.stmts:
                    self.stmt(st, fr, s)
                    if s[0] == 'assign' and s[1][0] == 'local':
                        fr.recent.append((s[1][1], fr.func.locals.get(s[1][1])))
                t = blk.term
                k = t[0]
                if k == 'goto':
                    bb = t[1]
                    continue
                if k == 'return':
                    self.npaths += 1
                    if self.npaths > self.max_paths:
                        raise Refuse('path budget exceeded')
                    outs.append(Outcome(st, 'return', self.load(st, fr.cell(0), ())))
                    break
                if k == 'unreachable':
                    outs.append(Outcome(st, 'unreachable'))
                    break
                if k == 'resume':
                    break
                if k == 'drop':
                    bb = t[2]
                    continue
                if k == 'switch':
                    v = self.operand(st, fr, t[1])
                    e = v.e
                    if isinstance(v, VBool):
                        e = z3.If(v.e, z3.BitVecVal(1, 8), z3.BitVecVal(0, 8))
                        bits = 8
                    elif isinstance(v, VInt):
                        bits = v.bits
                    else:
                        raise Refuse('switch on %r' % (v,))
                    c = self.concrete(e)
                    if c is not None:
                        nxt = t[3]
                        for val, tgt in t[2]:
                            if (val & ((1 << bits) - 1)) == c:
                                nxt = tgt
                                break
                        if nxt is None:
                            outs.append(Outcome(st, 'unreachable'))
                            break
                        bb = nxt
                        continue
                    branches = []
                    neg = []
                    for val, tgt in t[2]:
                        cond = e == z3.BitVecVal(val, bits)
                        branches.append((cond, tgt))
                        neg.append(z3.Not(cond))
                    if t[3] is not None:
                        branches.append((z3.And(*neg) if neg else z3.BoolVal(True), t[3]))
                    feas = []
                    for cond, tgt in branches:
                        if self.feasible(st.pc + [cond]):
                            feas.append((cond, tgt))
                    if not feas:
                        break
                    for cond, tgt in feas[1:]:
                        s2 = st.fork()
                        s2.pc.append(cond)
                        work.append((s2, tgt))
                    st.pc.append(feas[0][0])
                    bb = feas[0][1]
                    continue
                if k == 'assert':
                    v = self.operand(st, fr, t[1])
                    if not isinstance(v, VBool):
                        raise Refuse('assert on %r' % (v,))
                    cond = z3.Not(v.e) if t[2] else v.e
                    if self.feasible(st.pc + [z3.Not(cond)]):
                        s2 = st.fork()
                        s2.pc.append(z3.Not(cond))
                        outs.append(Outcome(s2, 'panic', msg='%s in %s bb%d' % (t[3], short(fr.func.name), bb)))
                    if not self.feasible(st.pc + [cond]):
                        break
                    st.pc.append(cond)
                    bb = t[4]
                    continue
                if k == 'call':
                    results = self.call(st, fr, t)
                    tgt_blk = fr.func.blocks.get(t[4]) if t[4] is not None else None
                    if t[4] is None or (tgt_blk is not None and tgt_blk.cleanup):
                        # `-> bbN` with bbN a cleanup block is the unwind edge of a call that never returns
                        # diverging call
                        for (s2, v, kind, msg) in results:
                            if kind == 'panic':
                                outs.append(Outcome(s2, 'panic', msg=msg))
                            elif kind == 'bound':
                                outs.append(Outcome(s2, 'bound', msg=msg))
                            else:
                                outs.append(Outcome(s2, 'panic', msg='diverging call %s' % (t[2],)))
                        break
                    cont = []
                    for (s2, v, kind, msg) in results:
                        if kind == 'panic':
                            outs.append(Outcome(s2, 'panic', msg=msg))
                        elif kind == 'bound':
                            outs.append(Outcome(s2, 'bound', msg=msg))
                        else:
                            self.write_place(s2, fr, t[1], self.coerce(v, self.place_ty(fr, t[1])))
                            cont.append(s2)
                    if not cont:
                        break
                    for s2 in cont[1:]:
                        work.append((s2, t[4]))
                    st = cont[0]
                    bb = t[4]
                    continue
                raise Refuse('terminator %r in %s' % (t, fr.func.name))
        return outs

    def stmt(self, st, fr, s):
        k = s[0]
        if k == 'assign':
            dty = self.place_ty(fr, s[1])
            v = self.rvalue(st, fr, s[2], dty)
            self.write_place(st, fr, s[1], v)
            return
        if k == 'setdiscr':
            cell, path = self.resolve(st, fr, s[1])
            path = tuple(p for p in path if p[0] != 'dc')
            old = self.load(st, cell, path)
            ty = self.place_ty(fr, s[1])
            name = self.variant_name(ty, s[2])
            if isinstance(old, VAgg):
                self.store(st, cell, path, VAgg(old.ty, name, old.fields))
            else:
                self.store(st, cell, path, VAgg(base_ident(ty), name, []))
            return
        if k == 'raw':
            raise Refuse('unparsed statement %s' % s[1])
        raise Refuse('statement %r' % (s,))

    # -- calls ----------------------------------------------------------------
    def call(self, st, fr, t):
        """returns list of (state, value, kind, msg); kind in ok|panic|bound"""
        _, dest, callee, argops, ret = t
        args = [self.operand(st, fr, a) for a in argops]
        self._argtys = [self.place_ty(fr, a[1]) if a[0] in ('copy', 'move') else '' for a in argops]
        if callee[0] != 'fnitem':
            fv = self.operand(st, fr, callee)
            if isinstance(fv, VFn):
                name = fv.name
            else:
                return self.uninterp(st, fr, 'indirect', [fv] + args, self.place_ty(fr, dest))
        else:
            name = callee[1]
        dest_ty = self.place_ty(fr, dest)
        return self.call_named(st, fr, name, args, dest_ty)

    def call_named(self, st, fr, name, args, dest_ty):
        sname = strip_generics(name)
        for pat, fn in self.models:
            if pat.search(sname):
                r = fn(self, st, fr, name, args, dest_ty)
                if r is not None:
                    return r
        f, why = self.prog.resolve_call(name, len(args), fr.func)
        if f is not None and f.blocks and fr.depth < self.max_depth and self.inline(f, fr.depth):
            return self.inline_call(st, fr, f, args, name)
        return self.uninterp(st, fr, name, args, dest_ty, why)

    def inline_call(self, st, fr, f, args, name):
        rec = CallRec(f.name, [self.to_term(st, a) for a in args], None, fr.depth, short(fr.func.name), True, args)
        st.calls.append(rec)
        res = []
        for o in self.run(f, args, st, fr.depth + 1):
            if o.kind == 'return':
                res.append((o.st, o.val, 'ok', ''))
            elif o.kind == 'panic':
                res.append((o.st, None, 'panic', o.msg))
            elif o.kind == 'bound':
                res.append((o.st, None, 'bound', o.msg))
        return res

    def call_closure(self, st, fr, fv, args):
        """invoke closure value `fv` (VFn with caps) with argument values `args`"""
        if not isinstance(fv, VFn):
            return None
        cands = self.prog.closures.get(fv.name)
        if cands:
            f = cands[0]
            self_ty = f.args[0][1]
            caps = fv.caps if fv.caps is not None else VAgg('closure', None, [])
            if self_ty.startswith('&'):
                cell = 'clos%d' % next(self.fresh)
                st.mem[cell] = caps
                a0 = VRef(cell)
            else:
                a0 = caps
            if len(f.args) != 1 + len(args):
                raise Refuse('closure arity %s' % f.name)
            return self.inline_call(st, fr, f, [a0] + list(args), f.name)
        # plain fn item (e.g. `CoreDID` ctor, `From::from`, `error::Error::InvalidDoc`)
        return None

    def uninterp(self, st, fr, name, args, dest_ty, why='extern'):
        sname = strip_generics(name)
        key = sname
        terms = [self.to_term(st, a) for a in args]
        argtys = getattr(self, '_argtys', [])
        mut_idx = [i for i, t in enumerate(argtys) if i < len(args) and t.strip().startswith('&mut')]
        stateful = bool(mut_idx)
        n = self.occ.get(key, 0)
        occ_id = 0
        # functional consistency: same callee + same argument terms => same result term
        tkey = (key, repr(terms))
        tab = self.occ.setdefault('__tab__', {})
        if tkey in tab and not stateful:
            occ_id = tab[tkey]
        else:
            self.occ[key] = n + 1
            occ_id = n
            tab[tkey] = occ_id
        term = ('app', sname, tuple(terms), occ_id)
        v = self.coerce(VSym(term, dest_ty), dest_ty)
        st.calls.append(CallRec(sname, terms, term, fr.depth, short(fr.func.name), False, args))
        for i in mut_idx:
            a = args[i]
            if isinstance(a, VRef):
                # the callee may have mutated the pointee: havoc it (opaque post-state)
                try:
                    self.store(st, a.cell, a.path, VSym(('post', term, i), deref_ty(argtys[i])))
                except Refuse:
                    st.notes.append('could not havoc &mut argument %d of %s' % (i, sname))
        if why.startswith('ambiguous'):
            st.notes.append('ambiguous callee %s (%s)' % (sname, why))
        return [(st, v, 'ok', '')]

    def is_mut_arg(self, fr, a):
        return False


class VOver(V):
    """opaque struct with some fields overwritten"""
    __slots__ = ('base', 'over')

    def __init__(self, base, over):
        self.base, self.over = base, over

    def __repr__(self):
        return 'VOver(%s, %r)' % (term_str(self.base.term), self.over)


def VSymOrdering(e):
    return VInt(e, 8, True)


def variant_eq(a, b):
    return str(a) == str(b) or str(b) == 'variant#%s' % a


def deref_ty(t):
    t = (t or '').strip()
    m = re.match(r"&(?:'[a-z_]+ )?(?:mut )?(.*)", t, re.S)
    if m:
        return m.group(1)
    m = re.match(r'\*(?:const|mut) (.*)', t, re.S)
    if m:
        return m.group(1)
    m = re.match(r'(?:std::boxed::)?Box<(.*)>$', t, re.S)
    if m:
        return m.group(1)
    return ''


def decode_char(body):
    if body.startswith('\\'):
        esc = {'n': 10, 't': 9, 'r': 13, '0': 0, '\\': 92, "'": 39, '"': 34}
        if body[1] in esc:
            return esc[body[1]]
        m = re.fullmatch(r'\\u\{([0-9a-fA-F]+)\}', body)
        if m:
            return int(m.group(1), 16)
        m = re.fullmatch(r'\\x([0-9a-fA-F]{2})', body)
        if m:
            return int(m.group(1), 16)
        raise Refuse('char literal %s' % body)
    return ord(body)


def decode_str(lit):
    assert lit[0] == '"' and lit[-1] == '"', lit
    body = lit[1:-1]
    out = bytearray()
    i = 0
    while i < len(body):
        c = body[i]
        if c == '\\':
            n = body[i + 1]
            esc = {'n': 10, 't': 9, 'r': 13, '0': 0, '\\': 92, "'": 39, '"': 34}
            if n in esc:
                out.append(esc[n])
                i += 2
            elif n == 'x':
                out.append(int(body[i + 2:i + 4], 16))
                i += 4
            elif n == 'u':
                j = body.index('}', i)
                out += chr(int(body[i + 3:j], 16)).encode()
                i = j + 1
            else:
                raise Refuse('string escape in %s' % lit)
        else:
            out += c.encode()
            i += 1
    return bytes(out)
