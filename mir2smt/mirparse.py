"""Parser for rustc's `-Zunpretty=mir` text dumps (nightly 1.97).

Produces plain python structures; no semantics here.  Everything the
encoder cannot parse is kept as ('raw', text) so that the executor can
refuse (inconclusive) instead of guessing.
"""
import re
from dataclasses import dataclass, field

# ----------------------------------------------------------------------------
# data

@dataclass
class Func:
    name: str            # full printed path, e.g. status_list::<impl at ...>::set
    kind: str            # 'fn' | 'const' | 'static' | 'promoted'
    args: list           # [(local:int, type:str)]
    ret_ty: str
    locals: dict         # local:int -> type:str
    blocks: dict         # id:int -> Block
    ctfe: bool
    src: str = ''        # file:line of the surrounding impl when known
    debug: dict = field(default_factory=dict)   # name -> local
    line: int = 0
    crate: str = ''
    const_val: str = None   # for `const X: T = const ...;`
    debug_raw: dict = field(default_factory=dict)

    @property
    def last(self):
        return split_path(self.name)[-1]


@dataclass
class Block:
    id: int
    stmts: list
    term: tuple
    cleanup: bool = False


# ----------------------------------------------------------------------------
# helpers

OPEN = '([{<'
CLOSE = ')]}>'
PAIR = {')': '(', ']': '[', '}': '{', '>': '<'}


def find_top(s, needle, start=0):
    """index of `needle` at bracket depth 0 outside string/char literals, or -1"""
    depth = 0
    i = start
    n = len(s)
    while i < n:
        c = s[i]
        if c == '"':
            i = skip_string(s, i)
            continue
        if c == "'" and is_char_lit(s, i):
            i = skip_char(s, i)
            continue
        if depth == 0 and s.startswith(needle, i):
            return i
        if c in '([{':
            depth += 1
        elif c in ')]}':
            depth -= 1
        elif c == '<':
            depth += 1
        elif c == '>':
            if i > 0 and s[i - 1] in '-=':   # -> or =>
                pass
            else:
                depth -= 1
        i += 1
    return -1


def skip_string(s, i):
    assert s[i] == '"'
    i += 1
    while i < len(s):
        if s[i] == '\\':
            i += 2
            continue
        if s[i] == '"':
            return i + 1
        i += 1
    return i


def is_char_lit(s, i):
    # 'x' or '\n' or '\u{..}' ; lifetimes look like 'a without closing quote
    if i + 2 < len(s) and s[i + 1] != '\\' and s[i + 2] == "'":
        return True
    if i + 1 < len(s) and s[i + 1] == '\\':
        return True
    return False


def skip_char(s, i):
    i += 1
    if s[i] == '\\':
        i += 2
        while s[i] != "'":
            i += 1
        return i + 1
    return i + 2


def split_top(s, sep=','):
    out = []
    cur = 0
    while True:
        j = find_top(s, sep, cur)
        if j < 0:
            out.append(s[cur:].strip())
            break
        out.append(s[cur:j].strip())
        cur = j + len(sep)
    if out and out[-1] == '':
        out.pop()
    return out


def match_close(s, i):
    """s[i] is an opening bracket; return index of its matching close"""
    depth = 0
    n = len(s)
    j = i
    while j < n:
        c = s[j]
        if c == '"':
            j = skip_string(s, j)
            continue
        if c == "'" and is_char_lit(s, j):
            j = skip_char(s, j)
            continue
        if c in '([{':
            depth += 1
        elif c in ')]}':
            depth -= 1
            if depth == 0:
                return j
        j += 1
    raise ValueError('unbalanced: ' + s[i:i + 80])


def split_path(name):
    """split a rust path at top-level `::`"""
    out = []
    cur = 0
    while True:
        j = find_top(name, '::', cur)
        if j < 0:
            out.append(name[cur:])
            break
        out.append(name[cur:j])
        cur = j + 2
    return out


# ----------------------------------------------------------------------------
# places / operands / rvalues

def parse_place(s):
    """returns (place, rest). place = ('local', n) | ('deref', p) | ('field', p, idx, ty)
       | ('downcast', p, variant) | ('index', p, local) | ('cindex', p, off, minlen, from_end)
       | ('subslice', p, a, b, from_end)"""
    s = s.lstrip()
    if s.startswith('_'):
        m = re.match(r'_(\d+)', s)
        p = ('local', int(m.group(1)))
        rest = s[m.end():]
    elif s.startswith('(*'):
        inner, rest = parse_place(s[2:])
        rest = rest.lstrip()
        assert rest.startswith(')'), s
        p = ('deref', inner)
        rest = rest[1:]
    elif s.startswith('('):
        inner, rest = parse_place(s[1:])
        rest = rest.lstrip()
        if rest.startswith('.'):
            m = re.match(r'\.(\d+): ', rest)
            assert m, s
            # type extends to the matching ')'
            close = match_close('(' + rest[m.end():], 0) - 1
            ty = rest[m.end():m.end() + close]
            p = ('field', inner, int(m.group(1)), ty.strip())
            rest = rest[m.end() + close + 1:]
        elif rest.startswith('as '):
            j = rest.index(')')
            p = ('downcast', inner, rest[3:j].strip())
            rest = rest[j + 1:]
        else:
            raise ValueError('place? ' + s)
    else:
        raise ValueError('place? ' + s)
    # postfix index projections
    while rest.startswith('['):
        j = match_close(rest, 0)
        inside = rest[1:j]
        m = re.fullmatch(r'_(\d+)', inside)
        if m:
            p = ('index', p, int(m.group(1)))
        else:
            m = re.fullmatch(r'(-?)(\d+) of (\d+)', inside)
            if m:
                p = ('cindex', p, int(m.group(2)), int(m.group(3)), m.group(1) == '-')
            else:
                m = re.fullmatch(r'(\d+):(-?)(\d+)', inside) or re.fullmatch(r'(\d+)\.\.(-?)(\d+)', inside)
                if not m:
                    raise ValueError('index? ' + rest)
                p = ('subslice', p, int(m.group(1)), int(m.group(3)), m.group(2) == '-')
        rest = rest[j + 1:]
    return p, rest


def parse_operand(s):
    """returns (operand, rest); operand = ('copy', place) | ('move', place) | ('const', text) | ('fnitem', text)"""
    s = s.lstrip()
    if s.startswith('no_retag '):
        s = s[9:]
    if s.startswith('copy '):
        p, rest = parse_place(s[5:])
        return ('copy', p), rest
    if s.startswith('move '):
        p, rest = parse_place(s[5:])
        return ('move', p), rest
    if s.startswith('const '):
        # constant text extends to top-level ',' or end or ' as '
        body = s[6:]
        j = len(body)
        for needle in (',', ' as '):
            k = find_top(body, needle)
            if 0 <= k < j:
                j = k
        return ('const', body[:j].strip()), body[j:]
    # bare path = function item / unit ctor
    j = find_top(s, ',')
    if j < 0:
        j = len(s)
    return ('fnitem', s[:j].strip()), s[j:]


BINOPS = {'Add', 'Sub', 'Mul', 'Div', 'Rem', 'BitAnd', 'BitOr', 'BitXor', 'Shl', 'Shr', 'Eq', 'Ne', 'Lt', 'Le',
          'Gt', 'Ge', 'AddWithOverflow', 'SubWithOverflow', 'MulWithOverflow', 'AddUnchecked', 'SubUnchecked',
          'MulUnchecked', 'ShlUnchecked', 'ShrUnchecked', 'Offset', 'Cmp'}
UNOPS = {'Not', 'Neg', 'PtrMetadata'}


def parse_operands(s):
    return [parse_operand(x)[0] for x in split_top(s, ',')]


def parse_rvalue(s):
    s = s.strip()
    if s.startswith('no_retag '):
        s = s[9:]
    m = re.match(r'([A-Za-z]+)\(', s)
    if m and s.endswith(')'):
        name = m.group(1)
        inner = s[m.end():-1]
        if match_close(s, m.end() - 1) == len(s) - 1:
            if name in BINOPS:
                a, b = split_top(inner, ',')
                return ('binop', name, parse_operand(a)[0], parse_operand(b)[0])
            if name in UNOPS:
                return ('unop', name, parse_operand(inner)[0])
            if name == 'discriminant':
                return ('discr', parse_place(inner)[0])
            if name == 'Len':
                return ('len', parse_place(inner)[0])
            if name == 'CopyForDeref':
                return ('use', ('copy', parse_place(inner)[0]))
            if name == 'ShallowInitBox':
                return ('use', parse_operand(split_top(inner, ',')[0])[0])
    if s.startswith('&'):
        m = re.match(r'&(raw const |raw mut |mut )?(\(fake( shallow)?\) |\(two-phase\) )?', s)
        kind = (m.group(1) or '').strip() or 'shared'
        p, rest = parse_place(s[m.end():])
        if rest.strip():
            raise ValueError('ref rest: ' + s)
        return ('ref', kind, p)
    if s.startswith(('copy ', 'move ', 'const ')):
        op, rest = parse_operand(s)
        rest = rest.strip()
        if not rest:
            return ('use', op)
        if rest.startswith('as '):
            m = re.fullmatch(r'as (.*) \(([A-Za-z]+(?:\(.*\))?)\)', rest)
            if m:
                return ('cast', op, m.group(1).strip(), m.group(2))
        raise ValueError('use rest: ' + s)
    if s == '()':
        return ('agg', 'tuple', None, [])
    if s.startswith('('):
        j = match_close(s, 0)
        if j == len(s) - 1:
            return ('agg', 'tuple', None, parse_operands(s[1:-1]))
    if s.startswith('['):
        j = match_close(s, 0)
        if j == len(s) - 1:
            inner = s[1:-1]
            k = find_top(inner, ';')
            if k >= 0:
                return ('repeat', parse_operand(inner[:k])[0], inner[k + 1:].strip())
            return ('agg', 'array', None, parse_operands(inner))
    if s.startswith('{closure@') or s.startswith('{coroutine@') or s.startswith('{async'):
        j = match_close(s, 0)
        head = s[:j + 1]
        rest = s[j + 1:].strip()
        caps = []
        if rest.startswith('{'):
            for item in split_top(rest[1:-1], ','):
                k = item.index(':')
                caps.append((item[:k].strip(), parse_operand(item[k + 1:])[0]))
        return ('closure', head, caps)
    # ADT aggregate:  Path(args) | Path { f: a } | Path
    k = find_top(s, ' {')
    if k >= 0 and s.endswith('}'):
        path = s[:k].strip()
        fields = []
        for item in split_top(s[k + 2:-1], ','):
            kk = item.index(':')
            fields.append((item[:kk].strip(), parse_operand(item[kk + 1:])[0]))
        return ('agg', 'adt', path, fields)
    if s.endswith(')'):
        # find the '(' that matches the last ')'
        depth = 0
        for i in range(len(s) - 1, -1, -1):
            if s[i] in ')]}':
                depth += 1
            elif s[i] in '([{':
                depth -= 1
                if depth == 0:
                    break
        path = s[:i].strip()
        if path and s[i] == '(':
            return ('agg', 'adt', path, [(None, o) for o in parse_operands(s[i + 1:-1])])
    if re.fullmatch(r'[A-Za-z_<][^ ]*( as [^ ]+>(::[A-Za-z_0-9<>:]+)?)?', s) or re.fullmatch(r'[A-Za-z_<].*', s):
        return ('agg', 'adt', s, [])
    return ('raw', s)


# ----------------------------------------------------------------------------
# statements / terminators

def parse_targets(s):
    """'[return: bb1, unwind continue]' or 'bb3' or 'unwind continue' -> dict"""
    s = s.strip()
    out = {}
    if s.startswith('['):
        for item in split_top(s[1:-1], ','):
            if ':' in item:
                k, v = item.split(':', 1)
                out[k.strip()] = v.strip()
            else:
                out[item.split()[0]] = item.split()[-1]
    elif s.startswith('bb'):
        out['return'] = s
    else:
        out[s.split()[0]] = s.split()[-1] if ' ' in s else s
    return out


def bbnum(t):
    m = re.fullmatch(r'bb(\d+)', t.strip())
    return int(m.group(1)) if m else None


def parse_line(line):
    """returns ('stmt', ...) or ('term', ...)"""
    s = line.strip()
    assert s.endswith(';'), s
    s = s[:-1]
    if s.startswith(('StorageLive(', 'StorageDead(', 'FakeRead(', 'PlaceMention(', 'Retag(', 'AscribeUserType(',
                     'Coverage', 'nop', 'ConstEvalCounter', 'BackwardIncompatibleDropHint')):
        return ('stmt', ('nop',))
    if s == 'return':
        return ('term', ('return',))
    if s == 'unreachable':
        return ('term', ('unreachable',))
    if s.startswith('resume') or s in ('abort', 'terminate') or s.startswith('terminate('):
        return ('term', ('resume',))
    if s.startswith('goto -> '):
        return ('term', ('goto', bbnum(s[8:])))
    if s.startswith('switchInt('):
        j = match_close(s, len('switchInt'))
        op = parse_operand(s[len('switchInt('):j])[0]
        rest = s[j + 1:].strip()
        assert rest.startswith('-> ['), s
        tg = []
        other = None
        for item in split_top(rest[4:-1], ','):
            k, v = item.split(':')
            if k.strip() == 'otherwise':
                other = bbnum(v)
            else:
                tg.append((int(k.strip()), bbnum(v)))
        return ('term', ('switch', op, tg, other))
    if s.startswith('assert('):
        j = match_close(s, len('assert'))
        inner = split_top(s[len('assert('):j], ',')
        cond = inner[0]
        neg = False
        if cond.startswith('!'):
            neg = True
            cond = cond[1:]
        op = parse_operand(cond)[0]
        msg = inner[1] if len(inner) > 1 else ''
        tg = parse_targets(s[j + 1:].strip()[2:].strip())
        return ('term', ('assert', op, neg, msg, bbnum(tg.get('success', ''))))
    if s.startswith('drop('):
        j = match_close(s, len('drop'))
        p = parse_place(s[5:j])[0]
        tg = parse_targets(s[j + 1:].strip()[2:].strip())
        return ('term', ('drop', p, bbnum(tg.get('return', ''))))
    if s.startswith(('falseEdge', 'falseUnwind')):
        tg = parse_targets(s[s.index('->') + 2:])
        first = next(iter(tg.values()))
        return ('term', ('goto', bbnum(first)))
    if s.startswith('yield(') or s.startswith('coroutine_drop') or s.startswith('asm!') or s.startswith('tailcall'):
        return ('term', ('raw', s))
    if s.startswith('discriminant('):
        j = match_close(s, len('discriminant'))
        p = parse_place(s[len('discriminant('):j])[0]
        val = s[j + 1:].strip()
        assert val.startswith('='), s
        return ('stmt', ('setdiscr', p, int(val[1:].strip())))
    if s.startswith('Deinit('):
        return ('stmt', ('nop',))
    # assignment or call
    place, rest = parse_place(s)
    rest = rest.strip()
    assert rest.startswith('='), s
    rhs = rest[1:].strip()
    k = find_top(rhs, ' -> ')
    if k >= 0:
        callpart = rhs[:k].strip()
        tg = parse_targets(rhs[k + 4:])
        # callee( args )  : find the '(' matching the final ')'
        assert callpart.endswith(')'), s
        depth = 0
        for i in range(len(callpart) - 1, -1, -1):
            if callpart[i] in ')]}':
                depth += 1
            elif callpart[i] in '([{':
                depth -= 1
                if depth == 0:
                    break
        callee_s = callpart[:i].strip()
        args = parse_operands(callpart[i + 1:-1])
        if callee_s.startswith(('move ', 'copy ')):
            callee = parse_operand(callee_s)[0]
        else:
            callee = ('fnitem', callee_s)
        return ('term', ('call', place, callee, args, bbnum(tg.get('return', '')) if 'return' in tg else None))
    return ('stmt', ('assign', place, parse_rvalue(rhs)))


# ----------------------------------------------------------------------------
# whole file

HDR_FN = re.compile(r'^fn (.*) \{$')
HDR_CONST = re.compile(r'^(const|static(?: mut)?) (.*) = (\{|const .*;)$')


def parse_sig(sig):
    """'path(_1: T, _2: U) -> R'"""
    # find the '(' that starts the argument list: the first top-level '(' followed by '_1:' or ')'
    i = 0
    while True:
        i = find_top(sig, '(', i)
        if i < 0:
            return sig, [], ''
        if re.match(r'\((_\d+: |\))', sig[i:]):
            break
        i += 1
    j = match_close(sig, i)
    name = sig[:i]
    args = []
    for a in split_top(sig[i + 1:j], ','):
        m = re.match(r'_(\d+): (.*)', a, re.S)
        args.append((int(m.group(1)), m.group(2).strip()))
    ret = sig[j + 1:].strip()
    if ret.startswith('->'):
        ret = ret[2:].strip()
    return name, args, ret


def parse_file(path, crate=''):
    funcs = []
    lines = open(path, encoding='utf-8', errors='replace').read().split('\n')
    i = 0
    n = len(lines)
    ctfe_next = False
    errors = []
    while i < n:
        line = lines[i]
        if line.startswith('// MIR FOR CTFE'):
            ctfe_next = True
            i += 1
            continue
        m = HDR_FN.match(line)
        mc = HDR_CONST.match(line) if not m else None
        if not m and not mc:
            i += 1
            continue
        start = i
        if m:
            name, args, ret = parse_sig(m.group(1))
            kind = 'fn'
            const_val = None
        else:
            decl = mc.group(2)
            k = find_top(decl, ': ')
            name = decl[:k]
            ret = decl[k + 2:]
            args = []
            kind = 'promoted' if 'promoted[' in name else mc.group(1).split()[0]
            const_val = None
            if mc.group(3) != '{':
                const_val = mc.group(3)[6:-1].strip()
                funcs.append(Func(name, kind, [], ret, {}, {}, ctfe_next, line=start + 1, crate=crate,
                                  const_val=const_val))
                ctfe_next = False
                i += 1
                continue
        f = Func(name, kind, args, ret, {}, {}, ctfe_next, line=start + 1, crate=crate)
        ctfe_next = False
        for a, t in args:
            f.locals[a] = t
        f.locals[0] = ret
        i += 1
        cur = None
        ok = True
        while i < n and lines[i] != '}':
            l = lines[i]
            ls = l.strip()
            mm = re.match(r'let (?:mut )?_(\d+): (.*);$', ls)
            if mm and cur is None:
                f.locals[int(mm.group(1))] = mm.group(2)
            elif ls.startswith('debug ') and cur is None:
                md = re.match(r'debug (\S+) => _(\d+);', ls)
                if md:
                    f.debug.setdefault(md.group(1), int(md.group(2)))
                else:
                    md = re.match(r'debug (\S+) => (.*);$', ls)
                    if md:
                        f.debug_raw.setdefault(md.group(1), md.group(2))
            else:
                mb = re.match(r'bb(\d+)( \(cleanup\))?: \{$', ls)
                if mb:
                    cur = Block(int(mb.group(1)), [], None, bool(mb.group(2)))
                    f.blocks[cur.id] = cur
                elif ls == '}' and cur is not None and l.startswith('    }'):
                    cur = None
                elif cur is not None and ls:
                    if cur.cleanup:
                        pass
                    else:
                        try:
                            k, v = parse_line(ls)
                            if k == 'stmt':
                                if v[0] != 'nop':
                                    cur.stmts.append(v)
                            else:
                                cur.term = v
                        except Exception as e:   # keep going; executor refuses raw
                            errors.append((path, i + 1, ls[:160], repr(e)))
                            cur.stmts.append(('raw', ls))
            i += 1
        funcs.append(f)
        i += 1
    return funcs, errors


if __name__ == '__main__':
    import sys
    tot = 0
    for p in sys.argv[1:]:
        fs, errs = parse_file(p)
        tot += len(fs)
        print(p, len(fs), 'functions', len(errs), 'unparsed lines')
        for e in errs[:15]:
            print('   ', e)
