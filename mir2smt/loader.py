"""Regenerate MIR dumps from /repo's working tree and load them."""
import os
import re
import subprocess
import time
import glob

REPO = os.environ.get('VERIF_REPO', '/repo')
VERIF = os.path.dirname(os.path.dirname(os.path.abspath(__file__)))
BUILD = os.path.join(VERIF, '.build')
MIRDIR = os.path.join(BUILD, 'mir')

FEATURES = {
    'identity_credential': ['--no-default-features', '--features',
                            'revocation-bitmap,status-list-2021,validator,credential,presentation,sd-jwt,sd-jwt-vc'],
}


def dump(crate, log=None):
    """cargo +nightly rustc -Zunpretty=mir for one crate of /repo; returns (path, seconds)"""
    os.makedirs(MIRDIR, exist_ok=True)
    out = os.path.join(MIRDIR, crate + '.mir')
    tmp = out + '.tmp'
    env = dict(os.environ, CARGO_NET_OFFLINE='true', RUSTFLAGS='')
    env.pop('RUSTUP_TOOLCHAIN', None)
    # a changing --cfg forces rustc to re-run for this crate only (cargo otherwise prints nothing when fresh)
    nonce = 'verif_mir_nonce_%d' % int(time.time() * 1000)
    cmd = ['cargo', '+nightly', 'rustc', '--offline', '-p', package_spec(crate), '--lib', '--target-dir',
           os.path.join(BUILD, 'nightly')] + FEATURES.get(crate, []) + [
        '--', '-Zunpretty=mir', '-C', 'debug-assertions=off', '-C', 'overflow-checks=on', '--cfg', nonce,
        '-A', 'unexpected_cfgs']
    t = time.time()
    with open(tmp, 'w') as fh:
        p = subprocess.run(cmd, cwd=REPO, stdout=fh, stderr=subprocess.PIPE, env=env, text=True)
    dt = time.time() - t
    if p.returncode != 0 or os.path.getsize(tmp) == 0:
        raise RuntimeError('MIR dump of %s failed (rc=%s):\n%s' % (crate, p.returncode, p.stderr[-4000:]))
    os.replace(tmp, out)
    return out, dt


def crate_dir(c):
    d = os.path.join(REPO, c)
    return d if os.path.isdir(d) else (registry_src(c) or d)


def package_spec(crate):
    """`-p` argument: workspace members by name; a registry dependency by name@version, the version being the one the
    workspace crate that uses it is locked to (Cargo.lock), e.g. did_url_parser@0.3.0 as used by identity_did"""
    if os.path.isdir(os.path.join(REPO, crate)):
        return crate
    lock = open(os.path.join(REPO, 'Cargo.lock')).read()
    vers = re.findall(r'name = "%s"\nversion = "([^"]+)"' % re.escape(crate), lock)
    if len(vers) <= 1:
        return crate
    users = {'did_url_parser': 'identity_did'}
    u = users.get(crate)
    if u:
        m = re.search(r'name = "%s"\nversion = "[^"]+"\n(?:source[^\n]*\n)?(?:checksum[^\n]*\n)?dependencies = \[(.*?)\]' % u, lock, re.S)
        if m:
            d = re.search(r'"%s ([^" ]+)' % re.escape(crate), m.group(1))
            if d:
                return '%s@%s' % (crate, d.group(1))
    return '%s@%s' % (crate, sorted(vers)[-1])


def registry_src(crate):
    """source directory of a registry dependency (for struct / enum scanning)"""
    spec = package_spec(crate)
    if '@' not in spec:
        return None
    name, ver = spec.split('@')
    c = glob.glob(os.path.expanduser('~/.cargo/registry/src/*/%s-%s' % (name, ver)))
    return c[0] if c else None


def load(crates, fresh=True, src_only=()):
    """returns (Program, info)"""
    import sys
    sys.path.insert(0, os.path.dirname(os.path.abspath(__file__)))
    from mirparse import parse_file
    from execu import Program
    funcs = []
    info = {'crates': {}, 'dump_s': 0.0}
    for c in crates:
        path = os.path.join(MIRDIR, c + '.mir')
        if fresh or not os.path.exists(path):
            path, dt = dump(c)
            info['dump_s'] += dt
        fs, errs = parse_file(path, crate=c)
        info['crates'][c] = {'functions': len(fs), 'unparsed_lines': len(errs)}
        funcs += fs
    prog = Program(funcs, scan_enums(list(crates) + list(src_only)))
    prog.structs = scan_structs(list(crates) + list(src_only))
    return prog, info


STRUCT_RE = re.compile(r'\bstruct\s+([A-Za-z_][A-Za-z_0-9]*)\s*(?:<[^{(;]*>)?\s*(?:where[^{]*)?\{')


def scan_structs(crates):
    """struct name -> [field names in declaration order]; None when ambiguous. Also enum struct-variants as Enum::Variant."""
    out = {}
    for c in crates:
        for path in glob.glob(os.path.join(crate_dir(c), 'src', '**', '*.rs'), recursive=True):
            try:
                src = strip_comments(open(path, encoding='utf-8').read())
            except Exception:
                continue
            for m in STRUCT_RE.finditer(src):
                name = m.group(1)
                i = m.end()
                depth = 1
                j = i
                while j < len(src) and depth:
                    if src[j] == '{':
                        depth += 1
                    elif src[j] == '}':
                        depth -= 1
                    j += 1
                fields = field_names(src[i:j - 1])
                if name in out and out[name] != fields:
                    out[name] = None
                else:
                    out[name] = fields
    return out


def strip_attributes(text):
    """remove `#[...]` attributes (possibly spanning lines, with nested brackets and string literals)"""
    out, i, n = [], 0, len(text)
    while i < n:
        if text[i] == '#' and re.match(r'#\s*!?\s*\[', text[i:]):
            j = text.index('[', i)
            depth, k, instr = 0, j, False
            while k < n:
                ch = text[k]
                if instr:
                    if ch == '\\':
                        k += 1
                    elif ch == '"':
                        instr = False
                elif ch == '"':
                    instr = True
                elif ch == '[':
                    depth += 1
                elif ch == ']':
                    depth -= 1
                    if depth == 0:
                        break
                k += 1
            i = k + 1
            continue
        out.append(text[i])
        i += 1
    return ''.join(out)


def field_names(body):
    items = []
    depth = 0
    cur = ''
    body = strip_attributes(body)
    for ch in body:
        if ch in '({[<':
            depth += 1
        elif ch in ')}]>':
            depth -= 1
        if ch == ',' and depth == 0:
            items.append(cur)
            cur = ''
        else:
            cur += ch
    if cur.strip():
        items.append(cur)
    names = []
    for it in items:
        it = strip_attributes(it).strip()
        m = re.match(r'(?:pub(?:\([^)]*\))?\s+)?([A-Za-z_][A-Za-z_0-9]*)\s*:', it)
        if m:
            names.append(m.group(1))
    return names


ENUM_RE = re.compile(r'\benum\s+([A-Za-z_][A-Za-z_0-9]*)\s*(?:<[^{]*>)?\s*(?:where[^{]*)?\{')


def scan_enums(crates):
    """enum name -> {variant: discriminant}; None when two enums share a name with different tables"""
    out = {}
    for c in crates:
        for path in glob.glob(os.path.join(crate_dir(c), 'src', '**', '*.rs'), recursive=True):
            try:
                src = open(path, encoding='utf-8').read()
            except Exception:
                continue
            src = strip_comments(src)
            for m in ENUM_RE.finditer(src):
                name = m.group(1)
                i = m.end()
                depth = 1
                j = i
                while j < len(src) and depth:
                    if src[j] == '{':
                        depth += 1
                    elif src[j] == '}':
                        depth -= 1
                    j += 1
                body = src[i:j - 1]
                tab = parse_variants(body)
                if name in out and out[name] != tab:
                    out[name] = None
                else:
                    out[name] = tab
    return out


def strip_comments(src):
    src = re.sub(r'//[^\n]*', '', src)
    src = re.sub(r'/\*.*?\*/', '', src, flags=re.S)
    return src


def parse_variants(body):
    tab = {}
    depth = 0
    cur = ''
    items = []
    for ch in body:
        if ch in '({[<':
            depth += 1
        elif ch in ')}]>':
            depth -= 1
        if ch == ',' and depth == 0:
            items.append(cur)
            cur = ''
        else:
            cur += ch
    if cur.strip():
        items.append(cur)
    nxt = 0
    for it in items:
        it = re.sub(r'#\s*\[[^\]]*\]', '', it, flags=re.S).strip()
        # attributes with nested brackets (e.g. #[error("..[..]..")]) : strip greedily line-wise
        it = '\n'.join(l for l in it.split('\n') if not l.strip().startswith('#')).strip()
        m = re.match(r'([A-Za-z_][A-Za-z_0-9]*)', it)
        if not m:
            continue
        name = m.group(1)
        md = re.search(r'=\s*(-?\d+|0x[0-9a-fA-F]+)\s*$', it)
        if md and '(' not in it and '{' not in it:
            nxt = int(md.group(1), 0)
        tab[name] = nxt
        nxt += 1
    return tab
