"""Models of the lazy iterator algebra used by the validators (once_with / chain / filter_map / take / collect).

An iterator value is VAgg('PyIter', kind, [...]); evaluation happens at `collect` (and branches on the outcomes of
the thunks).  Only these adaptors are modelled; anything else on an iterator stays uninterpreted.
"""
import re
import z3
from values import *
from execu import Refuse
from models import call_fn_value, enum_split, mk, ok

ITER = []


def imodel(pattern):
    def deco(fn):
        ITER.append((re.compile(pattern), fn))
        return fn
    return deco


def is_iter(v):
    return isinstance(v, VAgg) and v.ty == 'PyIter'


@imodel(r'(^|::)once_with$')
def once_with(ex, st, fr, name, args, dty):
    return ok(st, VAgg('PyIter', 'thunks', [args[0]]))


@imodel(r' as (std::iter::)?Iterator>::chain$')
def chain(ex, st, fr, name, args, dty):
    a, b = args
    if is_iter(a) and is_iter(b) and a.variant == 'thunks' and b.variant == 'thunks':
        return ok(st, VAgg('PyIter', 'thunks', a.fields + b.fields))
    return None


@imodel(r' as (std::iter::)?Iterator>::filter_map$')
def filter_map(ex, st, fr, name, args, dty):
    if is_iter(args[0]):
        return ok(st, VAgg('PyIter', 'filter_map', [args[0], args[1]]))
    return None


@imodel(r' as (std::iter::)?Iterator>::take$')
def take(ex, st, fr, name, args, dty):
    if is_iter(args[0]) and isinstance(args[1], VInt) and ex.concrete(args[1].e) is not None:
        return ok(st, VAgg('PyIter', 'take', [args[0], ex.concrete(args[1].e)]))
    return None


def gen(ex, st, fr, it, limit):
    """-> list of (state, [elements], kind, msg)"""
    if it.variant == 'thunks':
        cur = [(st, [])]
        for th in it.fields:
            nxt = []
            for (s, acc) in cur:
                if limit is not None and len(acc) >= limit:
                    nxt.append((s, acc))
                    continue
                for (s2, v, k, msg) in call_fn_value(ex, s, fr, th, []):
                    if k != 'ok':
                        raise Refuse('thunk outcome %s: %s' % (k, msg))
                    nxt.append((s2, acc + [v]))
            cur = nxt
        return cur
    if it.variant == 'take':
        n = it.fields[1]
        return gen(ex, st, fr, it.fields[0], n if limit is None else min(n, limit))
    if it.variant == 'filter_map':
        inner, g = it.fields
        if inner.variant != 'thunks':
            raise Refuse('filter_map over %s' % inner.variant)
        cur = [(st, [])]
        for th in inner.fields:
            nxt = []
            for (s, acc) in cur:
                if limit is not None and len(acc) >= limit:
                    nxt.append((s, acc))      # lazily: the remaining thunks are never run
                    continue
                for (s2, v, k, msg) in call_fn_value(ex, s, fr, th, []):
                    if k != 'ok':
                        raise Refuse('thunk outcome %s: %s' % (k, msg))
                    for (s3, r, k2, msg2) in call_fn_value(ex, s2, fr, g, [v]):
                        if k2 != 'ok':
                            raise Refuse('filter_map closure outcome %s' % k2)
                        for s4, nm, get in enum_split(ex, s3, r, 'Option', ['None', 'Some']):
                            nxt.append((s4, acc + [get()] if nm == 'Some' else acc))
            cur = nxt
        return cur
    raise Refuse('iterator kind %s' % it.variant)


@imodel(r' as (std::iter::)?Iterator>::collect$')
def collect(ex, st, fr, name, args, dty):
    if not is_iter(args[0]):
        return None
    out = []
    for (s, elems) in gen(ex, st, fr, args[0], None):
        out.append((s, VAgg('Vec', None, list(elems)), 'ok', ''))
    return out


@imodel(r'(^|::)Vec(<.*>)?::is_empty$')
def vec_is_empty(ex, st, fr, name, args, dty):
    v = args[0]
    if isinstance(v, VRef):
        v = ex.load(st, v.cell, v.path)
    if isinstance(v, VAgg) and v.ty == 'Vec':
        return ok(st, VBool(len(v.fields) == 0))
    return None


@imodel(r'(^|::)(Option|Result)::(err|ok)$')
def passthrough(ex, st, fr, name, args, dty):
    return None
