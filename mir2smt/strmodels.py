"""Iterator models over *ASCII* strings represented as VBytes (kernel use only, switched on with extra_models=STR_MODELS).

str::chars / char_indices, their next(), Iterator::take on them, all() over a Take with a closure, and `<F as Fn<(char,)>>::call`
for function items / closures.  On ASCII input a char is one byte, so positions are byte offsets and the models are exact; the
kernels that use them constrain their inputs to ASCII and say so in their bounds."""
import re
import z3
from values import *
from execu import Refuse, strip_generics
import models
from models import mk, slice_of, call_fn_value

STR_MODELS = []


def model(pattern):
    def deco(fn):
        STR_MODELS.append((re.compile(pattern), fn))
        return fn
    return deco


def _iter_new(ex, st, b, indices):
    cell = 'it%d' % next(ex.fresh)
    data = 'itd%d' % next(ex.fresh)
    st.mem[data] = b
    st.mem[cell] = VAgg('AsciiIter', 'indices' if indices else 'chars', [VRef(data), VInt(z3.BitVecVal(0, 64), 64)])
    return VRef(cell)


def _deref_iter(ex, st, v):
    """returns (cell, iterator aggregate)"""
    seen = 0
    while isinstance(v, VRef) and seen < 4:
        inner = ex.load(st, v.cell, v.path)
        if isinstance(inner, VAgg) and inner.ty in ('AsciiIter', 'AsciiTake'):
            return v, inner
        v = inner
        seen += 1
    return None, None


@model(r'core::str::<impl str>::(chars|char_indices)$|<impl str>::(chars|char_indices)$')
def str_iter(ex, st, fr, name, args, dty):
    b = slice_of(ex, st, args[0])
    if b is None:
        return None
    it = _iter_new(ex, st, b, name.strip().endswith('char_indices'))
    return [(st, ex.load(st, it.cell, ()), 'ok', '')]


def _next(ex, st, ref, it):
    """advance the iterator stored behind `ref`; returns [(state, Option value)]"""
    data = ex.load(st, it.fields[0].cell, it.fields[0].path)
    pos = it.fields[1].e
    out = []
    has = z3.ULT(pos, data.len)
    if ex.feasible(st.pc + [has]):
        s2 = st.fork()
        s2.pc.append(has)
        ch = VInt(z3.ZeroExt(24, z3.Select(data.arr, data.off + pos)), 32)
        ex.store(s2, ref.cell, ref.path, VAgg(it.ty, it.variant, [it.fields[0], VInt(z3.simplify(pos + 1), 64)]))
        item = VAgg('tuple', None, [VInt(pos, 64), ch]) if it.variant == 'indices' else ch
        out.append((s2, mk('Option', 'Some', item)))
    if ex.feasible(st.pc + [z3.Not(has)]):
        s2 = st.fork()
        s2.pc.append(z3.Not(has))
        out.append((s2, mk('Option', 'None')))
    return out


@model(r'<(std::str::|core::str::)?(Chars|CharIndices)<.*> as (\w+::)*Iterator>::next$')
def iter_next(ex, st, fr, name, args, dty):
    ref, it = _deref_iter(ex, st, args[0])
    if it is None or it.ty != 'AsciiIter':
        return None
    return [(s2, v, 'ok', '') for s2, v in _next(ex, st, ref, it)]


@model(r'<(std::str::|core::str::)?(Chars|CharIndices)<.*> as (\w+::)*Iterator>::take$')
def iter_take(ex, st, fr, name, args, dty):
    it = args[0]
    if isinstance(it, VRef):
        it = ex.load(st, it.cell, it.path)
    if not (isinstance(it, VAgg) and it.ty == 'AsciiIter') or not isinstance(args[1], VInt):
        return None
    n = ex.concrete(args[1].e)
    if n is None or n > 8:
        return None
    cell = 'it%d' % next(ex.fresh)
    st.mem[cell] = it
    return [(st, VAgg('AsciiTake', None, [VRef(cell), VInt(n, 64)]), 'ok', '')]


@model(r'<(std::iter::|core::iter::)?(adapters::take::)?Take<.*(Chars|CharIndices)<.*>> as (\w+::)*Iterator>::all$')
def take_all(ex, st, fr, name, args, dty):
    ref, tk = _deref_iter(ex, st, args[0])
    if tk is None or tk.ty != 'AsciiTake':
        return None
    n = ex.concrete(tk.fields[1].e)
    inner_ref = tk.fields[0]
    results = []
    work = [(st, 0)]
    while work:
        s, k = work.pop()
        if k >= n:
            results.append((s, VBool(True), 'ok', ''))
            continue
        it = ex.load(s, inner_ref.cell, inner_ref.path)
        for s2, item in _next(ex, s, inner_ref, it):
            if item.variant == 'None':
                results.append((s2, VBool(True), 'ok', ''))
                continue
            for (s3, r, kind, msg) in call_fn_value(ex, s2, fr, args[1], [item.fields[0]]):
                if kind != 'ok':
                    results.append((s3, r, kind, msg))
                    continue
                if not isinstance(r, VBool):
                    raise Refuse('all(): predicate result is not a bool')
                for val, cond in ((True, r.e), (False, z3.Not(r.e))):
                    if ex.feasible(s3.pc + [cond]):
                        s4 = s3.fork()
                        s4.pc.append(cond)
                        if val:
                            work.append((s4, k + 1))
                        else:
                            results.append((s4, VBool(False), 'ok', ''))
    return results


@model(r'^<&?F as (\w+::)*Fn(Mut|Once)?<\((char|u8),\)>>::call(_mut|_once)?$')
def fn_call_char(ex, st, fr, name, args, dty):
    fv = args[0]
    seen = 0
    while isinstance(fv, VRef) and seen < 4:
        fv = ex.load(st, fv.cell, fv.path)
        seen += 1
    if not isinstance(fv, VFn):
        return None
    tup = args[1]
    if isinstance(tup, VRef):
        tup = ex.load(st, tup.cell, tup.path)
    a = tup.fields[0] if isinstance(tup, VAgg) and tup.fields else tup
    return call_fn_value(ex, st, fr, fv, [a])


@model(r'<(std::str::|core::str::)?(Chars|CharIndices)<.*> as (\w+::)*Iterator>::(nth|skip|advance_by)$')
def iter_nth(ex, st, fr, name, args, dty):
    ref, it = _deref_iter(ex, st, args[0])
    if it is None or it.ty != 'AsciiIter' or not isinstance(args[1], VInt) or not name.strip().endswith('nth'):
        return None
    n = ex.concrete(args[1].e)
    if n is None or n > 16:
        return None
    data = ex.load(st, it.fields[0].cell, it.fields[0].path)
    pos = it.fields[1].e
    out = []
    has = z3.ULT(pos + n, data.len)
    if ex.feasible(st.pc + [has]):
        s2 = st.fork()
        s2.pc.append(has)
        at = z3.simplify(pos + n)
        ch = VInt(z3.ZeroExt(24, z3.Select(data.arr, data.off + at)), 32)
        ex.store(s2, ref.cell, ref.path, VAgg(it.ty, it.variant, [it.fields[0], VInt(z3.simplify(at + 1), 64)]))
        item = VAgg('tuple', None, [VInt(at, 64), ch]) if it.variant == 'indices' else ch
        out.append((s2, mk('Option', 'Some', item), 'ok', ''))
    if ex.feasible(st.pc + [z3.Not(has)]):
        s2 = st.fork()
        s2.pc.append(z3.Not(has))
        ex.store(s2, ref.cell, ref.path, VAgg(it.ty, it.variant, [it.fields[0], VInt(data.len, 64)]))
        out.append((s2, mk('Option', 'None'), 'ok', ''))
    return out


@model(r'core::str::<impl str>::(is_empty|len)$|<impl str>::(is_empty|len)$')
def str_len(ex, st, fr, name, args, dty):
    """length / emptiness of a string view with a symbolic backing array"""
    from models import slice_of
    b = slice_of(ex, st, args[0])
    if b is None:
        return None
    if strip_generics(name).endswith('is_empty'):
        return [(st, VBool(b.len == 0), 'ok', '')]
    return [(st, VInt(b.len, 64), 'ok', '')]


@model(r'<(std::str::|core::str::)?(Chars|CharIndices)<.*> as (\w+::)*Iterator>::(all|any)$')
def iter_all_any(ex, st, fr, name, args, dty):
    """all / any over the rest of an ASCII string iterator (strings of at most 8 characters)"""
    ref, it = _deref_iter(ex, st, args[0])
    if it is None or it.ty != 'AsciiIter' or not isinstance(ref, VRef):
        return None
    is_all = strip_generics(name).endswith('::all')
    results = []
    work = [(st, 0)]
    while work:
        s, k = work.pop()
        if k > 9:
            raise Refuse('all()/any(): string longer than the modelled bound')
        cur = ex.load(s, ref.cell, ref.path)
        for s2, item in _next(ex, s, ref, cur):
            if item.variant == 'None':
                results.append((s2, VBool(is_all), 'ok', ''))
                continue
            for (s3, r, kind, msg) in call_fn_value(ex, s2, fr, args[1], [item.fields[0]]):
                if kind != 'ok':
                    results.append((s3, r, kind, msg))
                    continue
                if not isinstance(r, VBool):
                    raise Refuse('all()/any(): predicate result is not a bool')
                for val, cond in ((True, r.e), (False, z3.Not(r.e))):
                    if ex.feasible(s3.pc + [cond]):
                        s4 = s3.fork()
                        s4.pc.append(cond)
                        if val == is_all:
                            work.append((s4, k + 1))
                        else:
                            results.append((s4, VBool(not is_all), 'ok', ''))
    return results


@model(r'core::str::<impl str>::get$|<impl str>::get$')
def str_get(ex, st, fr, name, args, dty):
    """str::get(lo..hi) on an ASCII view: Some(sub-view) iff lo <= hi <= len (every offset is a char boundary on ASCII)"""
    from models import new_slice
    b = slice_of(ex, st, args[0])
    idx = args[1]
    if b is None or not (isinstance(idx, VAgg) and 'Range' in str(idx.ty)):
        return None
    ints = [x for x in idx.fields if isinstance(x, VInt)]
    kind = str(idx.ty).split('::')[-1]
    if kind == 'Range' and len(ints) == 2:
        lo, hi = ints[0].e, ints[1].e
    elif kind == 'RangeFrom' and len(ints) == 1:
        lo, hi = ints[0].e, b.len
    elif kind == 'RangeTo' and len(ints) == 1:
        lo, hi = z3.BitVecVal(0, 64), ints[0].e
    else:
        return None
    okc = z3.And(z3.ULE(lo, hi), z3.ULE(hi, b.len))
    out = []
    if ex.feasible(st.pc + [okc]):
        s2 = st.fork()
        s2.pc.append(okc)
        out.append((s2, mk('Option', 'Some', new_slice(ex, s2, b, lo, hi - lo)), 'ok', ''))
    if ex.feasible(st.pc + [z3.Not(okc)]):
        s2 = st.fork()
        s2.pc.append(z3.Not(okc))
        out.append((s2, mk('Option', 'None'), 'ok', ''))
    return out


@model(r'<impl u8>::from_str_radix$')
def u8_from_str_radix(ex, st, fr, name, args, dty):
    """u8::from_str_radix(s, 16) on a two-byte ASCII string: Ok(value) iff "hh" or "+h" (unsigned: a leading '+' is accepted, '-' is not)"""
    b = slice_of(ex, st, args[0])
    if b is None or not isinstance(args[1], VInt) or ex.concrete(args[1].e) != 16 or ex.concrete(b.len) != 2:
        return None
    c0, c1 = z3.Select(b.arr, b.off), z3.Select(b.arr, b.off + 1)

    def hx(c):
        return z3.Or(z3.And(z3.UGE(c, 48), z3.ULE(c, 57)), z3.And(z3.UGE(c, 65), z3.ULE(c, 70)), z3.And(z3.UGE(c, 97), z3.ULE(c, 102)))

    def val(c):
        return z3.If(z3.ULE(c, 57), c - 48, z3.If(z3.ULE(c, 70), c - 55, c - 87))
    okc = z3.Or(z3.And(hx(c0), hx(c1)), z3.And(c0 == 43, hx(c1)))
    out = []
    if ex.feasible(st.pc + [okc]):
        s2 = st.fork()
        s2.pc.append(okc)
        out.append((s2, mk('Result', 'Ok', VInt(z3.If(c0 == 43, val(c1), val(c0) * 16 + val(c1)), 8)), 'ok', ''))
    if ex.feasible(st.pc + [z3.Not(okc)]):
        s2 = st.fork()
        s2.pc.append(z3.Not(okc))
        out.append((s2, mk('Result', 'Err', VSym(('err', 'ParseIntError'), 'ParseIntError')), 'ok', ''))
    return out
