//! Native battery for C09: generate_method / purge_method under every single and double storage fault.
use crate::*;
use async_trait::async_trait;
use identity_core::common::Object;
use identity_did::{CoreDID, DIDUrl, DID};
use identity_document::document::CoreDocument;
use identity_jose::jwk::Jwk;
use identity_jose::jws::JwsAlgorithm;
use identity_storage::key_id_storage::{KeyIdMemstore, KeyIdStorage, KeyIdStorageError, KeyIdStorageErrorKind, KeyIdStorageResult, MethodDigest};
use identity_storage::key_storage::{JwkGenOutput, JwkMemStore, JwkStorage, KeyId, KeyStorageError, KeyStorageErrorKind, KeyStorageResult, KeyType};
use identity_storage::storage::{JwkDocumentExt, JwkStorageDocumentError, Storage};
use identity_verification::{MethodRelationship, MethodScope};
use std::cell::Cell;
use std::future::Future;
use std::rc::Rc;
use std::sync::Arc;
use std::task::{Context, Poll, Wake, Waker};

struct Noop;
impl Wake for Noop {
  fn wake(self: Arc<Self>) {}
}
fn block_on<F: Future>(f: F) -> F::Output {
  let w = Waker::from(Arc::new(Noop));
  let mut cx = Context::from_waker(&w);
  let mut f = Box::pin(f);
  loop {
    if let Poll::Ready(v) = f.as_mut().poll(&mut cx) {
      return v;
    }
  }
}

thread_local! {
  /// which error kind injected faults carry: 0 = Unavailable, 1 = the store's "not found" kind
  static FAULT_KIND: Cell<u8> = Cell::new(0);
}
fn key_err() -> KeyStorageError {
  KeyStorageError::new(if FAULT_KIND.with(|k| k.get()) == 1 { KeyStorageErrorKind::KeyNotFound } else { KeyStorageErrorKind::Unavailable })
}
fn id_err() -> KeyIdStorageError {
  KeyIdStorageError::new(if FAULT_KIND.with(|k| k.get()) == 1 { KeyIdStorageErrorKind::KeyIdNotFound } else { KeyIdStorageErrorKind::Unavailable })
}
/// fails the calls whose global occurrence number is in `fail`
#[derive(Clone)]
struct Faults {
  n: Rc<Cell<u32>>,
  fail: Rc<Vec<u32>>,
  log: Rc<std::cell::RefCell<Vec<String>>>,
}
impl Faults {
  fn hit(&self, what: &str) -> bool {
    let i = self.n.get();
    self.n.set(i + 1);
    let f = self.fail.contains(&i);
    self.log.borrow_mut().push(format!("{i}:{what}{}", if f { "!" } else { "" }));
    f
  }
}
struct FKeys(JwkMemStore, Faults);
struct FIds(KeyIdMemstore, Faults);

#[async_trait(?Send)]
impl JwkStorage for FKeys {
  async fn generate(&self, key_type: KeyType, alg: JwsAlgorithm) -> KeyStorageResult<JwkGenOutput> {
    if self.1.hit("generate") {
      return Err(key_err());
    }
    self.0.generate(key_type, alg).await
  }
  async fn insert(&self, jwk: Jwk) -> KeyStorageResult<KeyId> {
    self.0.insert(jwk).await
  }
  async fn sign(&self, key_id: &KeyId, data: &[u8], public_key: &Jwk) -> KeyStorageResult<Vec<u8>> {
    self.0.sign(key_id, data, public_key).await
  }
  async fn delete(&self, key_id: &KeyId) -> KeyStorageResult<()> {
    if self.1.hit("delete") {
      return Err(key_err());
    }
    self.0.delete(key_id).await
  }
  async fn exists(&self, key_id: &KeyId) -> KeyStorageResult<bool> {
    if self.1.hit("exists") {
      return Err(key_err());
    }
    self.0.exists(key_id).await
  }
}
#[async_trait(?Send)]
impl KeyIdStorage for FIds {
  async fn insert_key_id(&self, d: MethodDigest, k: KeyId) -> KeyIdStorageResult<()> {
    if self.1.hit("insert_key_id") {
      return Err(id_err());
    }
    self.0.insert_key_id(d, k).await
  }
  async fn get_key_id(&self, d: &MethodDigest) -> KeyIdStorageResult<KeyId> {
    if self.1.hit("get_key_id") {
      return Err(id_err());
    }
    self.0.get_key_id(d).await
  }
  async fn delete_key_id(&self, d: &MethodDigest) -> KeyIdStorageResult<()> {
    if self.1.hit("delete_key_id") {
      return Err(id_err());
    }
    self.0.delete_key_id(d).await
  }
}

fn snapshot(doc: &CoreDocument) -> String {
  identity_core::convert::ToJson::to_json(doc).unwrap()
}

pub fn faults(cex: &Value) -> Result<String, String> {
  for kind in [0u8, 1] {
    FAULT_KIND.with(|k| k.set(kind));
    let r = faults_with_kind(cex);
    FAULT_KIND.with(|k| k.set(0));
    if let Ok(msg) = r {
      return Ok(format!("{} {msg}", if kind == 1 { "(faults reported as not-found)" } else { "" }));
    }
  }
  Err("storage fault battery: all expectations met".to_owned())
}

fn faults_with_kind(cex: &Value) -> Result<String, String> {
  let only: Option<String> = cex.get("only").and_then(Value::as_str).map(str::to_owned);
  let r = no_panic(|| -> Vec<String> {
    let mut out = Vec::new();
    let did = CoreDID::parse("did:example:doc").unwrap();
    let mut schedules: Vec<Vec<u32>> = vec![vec![]];
    for a in 0..8u32 {
      schedules.push(vec![a]);
      for b in (a + 1)..8 {
        schedules.push(vec![a, b]);
      }
    }
    {
      for scope in [MethodScope::VerificationMethod, MethodScope::authentication()] {
        for sched in &schedules {
          // the requested fragment is already taken: the call fails in the document, not in a store; whatever it did to the
          // stores before that point has to be undone, or the failed undo reported
          {
            let f2 = Faults { n: Rc::new(Cell::new(0)), fail: Rc::new(sched.clone()), log: Rc::new(Default::default()) };
            let storage = Storage::new(FKeys(JwkMemStore::new(), f2.clone()), FIds(KeyIdMemstore::new(), f2.clone()));
            let mut doc = CoreDocument::builder(Object::new()).id(did.clone()).build().unwrap();
            let clean = Storage::new(JwkMemStore::new(), KeyIdMemstore::new());
            block_on(doc.generate_method(&clean, JwkMemStore::ED25519_KEY_TYPE, JwsAlgorithm::EdDSA, Some("#k"), MethodScope::VerificationMethod)).unwrap();
            let before = snapshot(&doc);
            let res = block_on(doc.generate_method(&storage, JwkMemStore::ED25519_KEY_TYPE, JwsAlgorithm::EdDSA, Some("#k"), scope));
            let trace = f2.log.borrow().join(",");
            f2.n.set(100_000);
            match &res {
              Ok(_) => out.push(format!("[generate] taken fragment, schedule {sched:?} ({trace}): reported success")),
              Err(JwkStorageDocumentError::UndoOperationFailed { .. }) => {}
              Err(_) => {
                if snapshot(&doc) != before {
                  out.push(format!("[generate] taken fragment, schedule {sched:?} ({trace}): error returned but the document changed"));
                }
                if block_on(storage.key_storage().0.count()) != 0 {
                  out.push(format!("[generate] taken fragment, schedule {sched:?} ({trace}): error returned but the generated key stays in the store"));
                }
                if block_on(storage.key_id_storage().0.count()) != 0 {
                  out.push(format!("[generate] taken fragment, schedule {sched:?} ({trace}): error returned but a key id stays recorded"));
                }
              }
            }
          }
          // a fresh world: document with one pre-existing method (so that ordering is observable), empty stores
          let faults = Faults { n: Rc::new(Cell::new(1000)), fail: Rc::new(vec![]), log: Rc::new(Default::default()) };
          let storage = Storage::new(FKeys(JwkMemStore::new(), faults.clone()), FIds(KeyIdMemstore::new(), faults.clone()));
          let mut doc = CoreDocument::builder(Object::new()).id(did.clone()).build().unwrap();
          block_on(doc.generate_method(&storage, JwkMemStore::ED25519_KEY_TYPE, JwsAlgorithm::EdDSA, Some("#other"), MethodScope::VerificationMethod)).unwrap();
          // ---- generate under the schedule
          let before = snapshot(&doc);
          let f2 = Faults { n: Rc::new(Cell::new(0)), fail: Rc::new(sched.clone()), log: Rc::new(Default::default()) };
          let storage = Storage::new(FKeys(JwkMemStore::new(), f2.clone()), FIds(KeyIdMemstore::new(), f2.clone()));
          let res = block_on(doc.generate_method(&storage, JwkMemStore::ED25519_KEY_TYPE, JwsAlgorithm::EdDSA, Some("#k"), scope));
          let trace = f2.log.borrow().join(",");
          f2.n.set(100_000); // observation must not be disturbed by the schedule
          match &res {
            Ok(frag) => {
              let m = doc.resolve_method(frag.as_str(), None);
              if m.is_none() {
                out.push(format!("[generate] schedule {sched:?} ({trace}): Ok but the method does not resolve"));
              } else {
                let digest = MethodDigest::new(m.unwrap()).unwrap();
                match block_on(storage.key_id_storage().get_key_id(&digest)) {
                  Ok(kid) => {
                    if !block_on(storage.key_storage().exists(&kid)).unwrap_or(false) {
                      out.push(format!("[generate] schedule {sched:?} ({trace}): Ok but the key is not in the store"));
                    }
                  }
                  Err(_) => out.push(format!("[generate] schedule {sched:?} ({trace}): Ok but no key id recorded")),
                }
              }
            }
            Err(JwkStorageDocumentError::UndoOperationFailed { .. }) => {}
            Err(_) => {
              if snapshot(&doc) != before {
                out.push(format!("[generate] schedule {sched:?} ({trace}): error returned but the document changed"));
              }
              // no orphaned key: every generate must have been followed by a successful delete
              // no orphaned key: whatever was generated has been deleted again (asked of the underlying store directly)
              if block_on(storage.key_storage().0.count()) != 0 {
                out.push(format!("[generate] schedule {sched:?} ({trace}): error returned but the generated key stays in the store"));
              }
              if block_on(storage.key_id_storage().0.count()) != 0 {
                out.push(format!("[generate] schedule {sched:?} ({trace}): error returned but a key id stays recorded"));
              }
            }
          }
        }
      }
    }
    // generation of a general-purpose method whose id is already referenced (legal), with the key-id recording failing: the
    // rollback must not take the pre-existing references with it
    {
      use identity_core::convert::FromJson;
      let text = format!(r#"{{"id":"{did}","authentication":["{did}#k"],"assertionMethod":["{did}#k"]}}"#);
      if let Ok(mut doc) = CoreDocument::from_json(&text) {
        for fail_at in 0..4u32 {
          let f2 = Faults { n: Rc::new(Cell::new(0)), fail: Rc::new(vec![fail_at]), log: Rc::new(Default::default()) };
          let storage = Storage::new(FKeys(JwkMemStore::new(), f2.clone()), FIds(KeyIdMemstore::new(), f2.clone()));
          let before = snapshot(&doc);
          let res = block_on(doc.generate_method(&storage, JwkMemStore::ED25519_KEY_TYPE, JwsAlgorithm::EdDSA, Some("#k"), MethodScope::VerificationMethod));
          let trace = f2.log.borrow().join(",");
          f2.n.set(100_000);
          match res {
            Ok(_) => {
              let _ = doc.remove_method(&did.to_url().join("#k").unwrap());
              doc = CoreDocument::from_json(&text).unwrap();
            }
            Err(JwkStorageDocumentError::UndoOperationFailed { .. }) => {
              doc = CoreDocument::from_json(&text).unwrap();
            }
            Err(_) => {
              if snapshot(&doc) != before {
                out.push(format!("[generate-referenced] schedule [{fail_at}] ({trace}): error returned but the document changed (references to the id existed before the call)"));
                doc = CoreDocument::from_json(&text).unwrap();
              }
            }
          }
        }
      }
    }
    if let Some(line) = purge_dangling(&did) {
      out.push(line);
    }
    out.extend(purge_non_jwk(&did));
    out.extend(generate_odd_fragments(&did));
    for with_refs in [false, true] {
      for scope in [MethodScope::VerificationMethod, MethodScope::authentication()] {
        for psched in &schedules {
          match purge_world(&did, scope, with_refs, psched) {
            Ok(Some(l)) => out.push(l),
            Ok(None) => {}
            Err(e) => out.push(format!("[purge] world construction failed: {e}")),
          }
          if out.len() > 12 {
            return out;
          }
        }
      }
    }
    out
  });
  match r {
    Err(msg) => Ok(format!("storage fault battery panicked: {msg}")),
    Ok(log) => {
      let mut log: Vec<String> = log.into_iter().filter(|l| only.as_ref().map(|o| l.contains(o.as_str())).unwrap_or(true)).collect();
      log.dedup();
      if log.is_empty() {
        Err("storage fault battery: all expectations met".to_owned())
      } else {
        Ok(format!("{} deviations, e.g. {}", log.len(), log[..log.len().min(3)].join("; ")))
      }
    }
  }
}

/// one purge under `sched` (occurrence numbers count from the purge call) in a freshly built world
/// purge of an id that exists only as a reference (its method lives elsewhere): MethodNotFound, document unchanged
/// generate_method with fragments that cannot become a method id (empty, "#", with spaces, ...): an error, and nothing is left behind
/// in the key store - or success with the method in place; never an error with an orphaned key
fn generate_odd_fragments(did: &CoreDID) -> Vec<String> {
  let mut out = Vec::new();
  for frag in ["#", "", "a b", "#a b", "##", "#é", " ", "#ok-fragment"] {
    for scope in [MethodScope::VerificationMethod, MethodScope::authentication()] {
      let f = Faults { n: Rc::new(Cell::new(100_000)), fail: Rc::new(vec![]), log: Rc::new(Default::default()) };
      let keys = FKeys(JwkMemStore::new(), f.clone());
      let st = Storage::new(keys, FIds(KeyIdMemstore::new(), f.clone()));
      let mut doc = CoreDocument::builder(Object::new()).id(did.clone()).build().unwrap();
      let before = snapshot(&doc);
      let res = block_on(doc.generate_method(&st, JwkMemStore::ED25519_KEY_TYPE, JwsAlgorithm::EdDSA, Some(frag), scope));
      let stored = block_on(st.key_storage().0.count());
      match res {
        Ok(fr) => {
          let id = did.to_url().join(format!("#{}", fr.trim_start_matches('#'))).ok();
          if id.as_ref().and_then(|i| doc.resolve_method(i, None)).is_none() || stored != 1 {
            out.push(format!("[generate-fragment] fragment {frag:?}: Ok({fr:?}) but the method does not resolve / {stored} keys stored"));
          }
        }
        Err(JwkStorageDocumentError::UndoOperationFailed { .. }) => {}
        Err(e) => {
          if stored != 0 {
            out.push(format!("[generate-fragment] fragment {frag:?} (scope {scope:?}): error ({e}) and {stored} key(s) left in the key store"));
          }
          if snapshot(&doc) != before {
            out.push(format!("[generate-fragment] fragment {frag:?}: error returned but the document changed"));
          }
        }
      }
    }
  }
  out
}

/// purge of a method that holds no JWK (nothing is stored for it): an error, and the document stays as it was - in every
/// scope, with and without references to it
fn purge_non_jwk(did: &CoreDID) -> Vec<String> {
  use identity_core::convert::FromJson;
  let mut out = Vec::new();
  let m = format!(r#"{{"id":"{did}#mb","controller":"{did}","type":"Ed25519VerificationKey2018","publicKeyMultibase":"zH3C2AVvLMv6gmMNam3uVAjZpfkcJCwDwnZn6z3wXmqPV"}}"#);
  for text in [
    format!(r#"{{"id":"{did}","verificationMethod":[{m}]}}"#),
    format!(r#"{{"id":"{did}","verificationMethod":[{m}],"authentication":["{did}#mb"],"keyAgreement":["{did}#mb"]}}"#),
    format!(r#"{{"id":"{did}","assertionMethod":[{m}]}}"#),
  ] {
    let Ok(mut doc) = CoreDocument::from_json(&text) else {
      out.push("[purge-non-jwk] fixture rejected".to_owned());
      continue;
    };
    let st = Storage::new(JwkMemStore::new(), KeyIdMemstore::new());
    let before = snapshot(&doc);
    let id = did.to_url().join("#mb").unwrap();
    match block_on(doc.purge_method(&st, &id)) {
      Ok(()) => out.push("[purge-non-jwk] purge of a method without stored key material reported success".to_owned()),
      Err(JwkStorageDocumentError::UndoOperationFailed { .. }) => {}
      Err(e) if snapshot(&doc) != before => out.push(format!("[purge-non-jwk] error returned ({e}) but the method is gone from the document")),
      Err(_) => {}
    }
  }
  out
}

fn purge_dangling(did: &CoreDID) -> Option<String> {
  use identity_core::convert::FromJson;
  let text = format!(
    r#"{{"id":"{did}","authentication":["{did}#ghost"],"assertionMethod":["{did}#ghost","did:example:elsewhere#key"]}}"#
  );
  let mut doc = CoreDocument::from_json(&text).ok()?;
  let st = Storage::new(JwkMemStore::new(), KeyIdMemstore::new());
  let before = snapshot(&doc);
  let id = did.to_url().join("#ghost").unwrap();
  let res = block_on(doc.purge_method(&st, &id));
  match res {
    Ok(()) => Some("[purge-dangling] purge of an id that only exists as a reference reported success".to_owned()),
    Err(JwkStorageDocumentError::UndoOperationFailed { .. }) => None,
    Err(_) if snapshot(&doc) != before => Some("[purge-dangling] MethodNotFound returned but the references to the id were removed from the document".to_owned()),
    Err(_) => None,
  }
}

fn purge_world(did: &CoreDID, scope: MethodScope, with_refs: bool, sched: &[u32]) -> Result<Option<String>, String> {
  // set-up calls: generate#other (generate, insert_key_id), generate#k (generate, insert_key_id) = 4 storage calls
  let f = Faults { n: Rc::new(Cell::new(100_000)), fail: Rc::new(sched.to_vec()), log: Rc::new(Default::default()) };
  let st = Storage::new(FKeys(JwkMemStore::new(), f.clone()), FIds(KeyIdMemstore::new(), f.clone()));
  let mut doc = CoreDocument::builder(Object::new()).id(did.clone()).build().unwrap();
  block_on(doc.generate_method(&st, JwkMemStore::ED25519_KEY_TYPE, JwsAlgorithm::EdDSA, Some("#other"), MethodScope::VerificationMethod)).map_err(|e| e.to_string())?;
  let fr = block_on(doc.generate_method(&st, JwkMemStore::ED25519_KEY_TYPE, JwsAlgorithm::EdDSA, Some("#k"), scope)).map_err(|e| e.to_string())?;
  let id: DIDUrl = did.to_url().join(format!("#{}", fr.trim_start_matches('#'))).unwrap();
  // the method to purge is not the last entry of its collection: a rollback that re-inserts it would move it to the end
  block_on(doc.generate_method(&st, JwkMemStore::ED25519_KEY_TYPE, JwsAlgorithm::EdDSA, Some("#later"), scope)).map_err(|e| e.to_string())?;
  let refs = with_refs && scope == MethodScope::VerificationMethod;
  if refs {
    doc.attach_method_relationship(&id, MethodRelationship::Authentication).map_err(|e| e.to_string())?;
    doc.attach_method_relationship(&id, MethodRelationship::AssertionMethod).map_err(|e| e.to_string())?;
  }
  let digest = MethodDigest::new(doc.resolve_method(&id, None).unwrap()).unwrap();
  let kid = block_on(st.key_id_storage().get_key_id(&digest)).unwrap();
  let before = snapshot(&doc);
  f.log.borrow_mut().clear();
  f.n.set(0); // the schedule counts storage calls from here
  let res = block_on(doc.purge_method(&st, &id));
  let trace = f.log.borrow().join(",");
  // observation must not be disturbed by the schedule any more
  f.n.set(100_000);
  let has_key = block_on(st.key_storage().exists(&kid)).unwrap_or(false);
  let has_id = block_on(st.key_id_storage().get_key_id(&digest)).is_ok();
  let tag = if refs { "[purge-refs]" } else { "[purge]" };
  Ok(match res {
    Ok(()) => {
      let still_referenced = [doc.authentication(), doc.assertion_method(), doc.key_agreement(), doc.capability_delegation(), doc.capability_invocation()]
        .iter()
        .any(|set| set.iter().any(|r| r.id() == &id));
      if still_referenced {
        Some(format!("{tag} schedule {sched:?} ({trace}): Ok but a relationship still refers to the purged method"))
      } else if doc.resolve_method(&id, None).is_some() || has_key || has_id {
        Some(format!("{tag} schedule {sched:?} ({trace}): Ok but method/key/key id remain ({}, {has_key}, {has_id})", doc.resolve_method(&id, None).is_some()))
      } else {
        None
      }
    }
    Err(JwkStorageDocumentError::UndoOperationFailed { .. }) => None,
    Err(_) => {
      if snapshot(&doc) != before {
        Some(format!("{tag} schedule {sched:?} ({trace}): error returned but the document is not as before (scope {scope:?}, references {refs})"))
      } else if !has_key || !has_id {
        Some(format!("{tag} schedule {sched:?} ({trace}): error returned but key present={has_key}, key id present={has_id}"))
      } else {
        None
      }
    }
  })
}
