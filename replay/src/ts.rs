//! Native battery for C13 (timestamps) - confirmation only.
use crate::*;
use identity_core::common::{Duration, Timestamp};

const MIN: i64 = -62167219200;
const MAX: i64 = 253402300799;

pub fn timestamp(_cex: &Value) -> Result<String, String> {
  let mut log: Vec<String> = Vec::new();
  let dates = [("0000-01-01T00:00:00", MIN), ("0000-01-01T23:59:59", MIN + 86399), ("9999-12-31T23:59:59", MAX), ("9999-12-31T00:00:00", MAX - 86399), ("1970-01-01T00:00:00", 0), ("2024-02-29T12:00:00", 1709208000)];
  let mut offsets: Vec<(String, i64)> = vec![("Z".into(), 0)];
  for h in [0i64, 1, 5, 12, 23] {
    for m in [0i64, 1, 30, 59] {
      offsets.push((format!("+{h:02}:{m:02}"), h * 3600 + m * 60));
      offsets.push((format!("-{h:02}:{m:02}"), -(h * 3600 + m * 60)));
    }
  }
  for (d, base) in dates {
    for frac in ["", ".5", ".123456789", ".999999999"] {
      for (o, secs) in &offsets {
        let s = format!("{d}{frac}{o}");
        let denoted = base - secs;
        let s2 = s.clone();
        match no_panic(move || Timestamp::parse(&s2).ok().map(|t| (t.to_unix(), no_panic(move || t.to_rfc3339())))) {
          Err(msg) => log.push(format!("[parse-panic] Timestamp::parse({s:?}) panicked: {msg}")),
          Ok(None) => {
            if (MIN..=MAX).contains(&denoted) {
              log.push(format!("[parse] {s:?} denotes an instant inside the range but is rejected"));
            }
          }
          Ok(Some((unix, text))) => {
            if !(MIN..=MAX).contains(&unix) {
              log.push(format!("[parse-range] {s:?} accepted with unix {unix} outside 0000..9999"));
            } else if unix != denoted {
              log.push(format!("[parse] {s:?} parsed to {unix}, denotes {denoted}"));
            }
            match text {
              Err(msg) => log.push(format!("[parse-format-panic] formatting the timestamp parsed from {s:?} panicked: {msg}")),
              Ok(text) => {
                if Timestamp::parse(&text).ok().map(|t| t.to_unix()) != Some(unix) {
                  log.push(format!("[parse-format] {s:?} -> {text:?} does not parse back"));
                }
              }
            }
          }
        }
      }
    }
  }
  // every text form of a value is the same 20-character RFC 3339 string: to_rfc3339, Display / to_string, String::from, JSON - for
  // years of every width (0000, 0001, 0099, 0999, 1000, 9999)
  for unix in [MIN, MIN + 1, -62135596800, -62135596801, -59011459200, -30610224000, -30610224001, 0, 1709208000, MAX - 1, MAX] {
    let t = Timestamp::from_unix(unix).unwrap();
    let canon = t.to_rfc3339();
    let shown = t.to_string();
    let owned: String = t.into();
    let json = serde_json::to_string(&t).unwrap();
    if canon.len() != 20 || shown != canon || owned != canon || json != format!("\"{canon}\"") {
      log.push(format!("[parse-text] unix {unix}: to_rfc3339 {canon:?}, Display {shown:?}, String::from {owned:?}, JSON {json}"));
    }
    if Timestamp::parse(&shown).ok() != Some(t) || serde_json::from_str::<Timestamp>(&json).ok() != Some(t) {
      log.push(format!("[parse-text] unix {unix}: Display {shown:?} / JSON {json} do not read back to the same value"));
    }
  }
  // leap seconds, all-nines fractions and range edges reached only through an offset: accepted values are canonical whole
  // seconds (equal to from_unix of their own unix value, 20 characters when formatted), truncated - never rounded - and in range
  let special: Vec<(String, Option<i64>)> = vec![
    ("2016-12-31T23:59:60Z".into(), Some(1483228799)),
    ("2016-12-31T23:59:60.5Z".into(), Some(1483228799)),
    ("2016-12-31T23:59:60.999999999Z".into(), Some(1483228799)),
    ("2017-01-01T00:59:60+01:00".into(), Some(1483228799)),
    ("2016-12-31T18:29:60-05:30".into(), Some(1483228799)),
    ("9999-12-31T23:59:60Z".into(), Some(MAX)),
    ("1972-06-30T23:59:60Z".into(), Some(78796799)),
    ("2024-02-29T12:34:56.999999999Z".into(), Some(1709210096)),
    ("2024-02-29T12:34:56.99999999Z".into(), Some(1709210096)),
    ("2024-02-29T12:34:56.9999999999Z".into(), Some(1709210096)),
    ("2024-02-29T12:34:59.999999999+00:00".into(), Some(1709210099)),
    ("2024-02-29T23:59:59.999999999Z".into(), Some(1709251199)),
    ("9999-12-31T23:59:59.999999999Z".into(), Some(MAX)),
    ("0000-01-01T00:00:59.999999999+00:01".into(), None),
    ("0000-01-01T00:00:00.999999999Z".into(), Some(MIN)),
    ("1969-12-31T23:59:59.999999999Z".into(), Some(-1)),
    ("1970-01-01T00:00:00.999999999Z".into(), Some(0)),
  ];
  for (s, want) in special {
    let s2 = s.clone();
    match no_panic(move || Timestamp::parse(&s2).ok().map(|t| (t, t.to_unix(), no_panic(move || t.to_rfc3339())))) {
      Err(msg) => log.push(format!("[parse-panic] Timestamp::parse({s:?}) panicked: {msg}")),
      Ok(None) => {
        // a leap second may be refused; an ordinary instant inside the range may not
        if want.is_some() && !s.contains(":60") {
          log.push(format!("[parse-special] {s:?} rejected"));
        }
      }
      Ok(Some((t, unix, text))) => {
        if want != Some(unix) {
          log.push(format!("[parse-special] {s:?} parsed to unix {unix}, expected {want:?} (truncation to the second, inside 0000..9999)"));
        }
        if Timestamp::from_unix(unix).ok() != Some(t) {
          log.push(format!("[parse-special] {s:?}: the parsed value is not the canonical whole-second instant of its unix seconds"));
        }
        match text {
          Err(msg) => log.push(format!("[parse-format-panic] formatting the timestamp parsed from {s:?} panicked: {msg}")),
          Ok(text) => {
            if text.len() != 20 || Timestamp::parse(&text).ok() != Some(t) {
              log.push(format!("[parse-format] {s:?} formats as {text:?}, which is not the 20-character form that parses back to the same value"));
            }
          }
        }
      }
    }
  }
  for s in [MIN - 1, MIN, MIN + 1, -1, 0, 1, MAX - 1, MAX, MAX + 1, i64::MIN, i64::MAX] {
    match no_panic(move || Timestamp::from_unix(s).ok().map(|t| (t.to_unix(), t.to_rfc3339()))) {
      Err(msg) => log.push(format!("[unix] from_unix({s}) panicked: {msg}")),
      Ok(r) => {
        if r.is_some() != (MIN..=MAX).contains(&s) || r.as_ref().map(|x| x.0 != s).unwrap_or(false) {
          log.push(format!("[unix] from_unix({s}) = {r:?}"));
        }
      }
    }
  }
  for (s, d) in [(MAX, 1u32), (MAX - 5, 5), (MAX - 5, 6), (MIN, 1), (MIN + 5, 5), (MIN + 5, 6), (0, u32::MAX), (MAX, 0)] {
    let t = Timestamp::from_unix(s).unwrap();
    match no_panic(move || (t.checked_add(Duration::seconds(d)).map(|x| x.to_unix()), t.checked_sub(Duration::seconds(d)).map(|x| x.to_unix()))) {
      Err(msg) => log.push(format!("[arith] checked add/sub panicked at {s} +- {d}: {msg}")),
      Ok((a, b)) => {
        let wa = Some(s + d as i64).filter(|x| (MIN..=MAX).contains(x));
        let wb = Some(s - d as i64).filter(|x| (MIN..=MAX).contains(x));
        if a != wa || b != wb {
          log.push(format!("[arith] {s} +- {d}: got ({a:?},{b:?}), integer arithmetic gives ({wa:?},{wb:?})"));
        }
      }
    }
  }
  // durations as long as the whole range (3 652 424 days and 86399 s from the first to the last instant): the sum is returned exactly
  // when it is inside the range, from starts at both ends, in both directions
  for days in [3_649_999u32, 3_650_000, 3_650_001, 3_652_000, 3_652_423, 3_652_424, 3_652_425, 3_700_000, 7_300_000, 7_400_000, 20_000_000, u32::MAX / 86400, u32::MAX] {
    let d = days as i64 * 86400;
    for (base, sign) in [(MIN, 1i64), (MIN + 86399, 1), (MIN + 86400 * 2000, 1), (MAX, -1), (MAX - 86399, -1), (MAX - 86400 * 2000, -1)] {
      let t = Timestamp::from_unix(base).unwrap();
      let got = no_panic(move || if sign > 0 { t.checked_add(Duration::days(days)) } else { t.checked_sub(Duration::days(days)) }.map(|x| x.to_unix()));
      let want = Some(base + sign * d).filter(|x| (MIN..=MAX).contains(x));
      match got {
        Err(msg) => log.push(format!("[arith] {base} {} days({days}) panicked: {msg}", if sign > 0 { "+" } else { "-" })),
        Ok(g) if g != want => log.push(format!("[arith] {base} {} days({days}) = {g:?}, integer arithmetic gives {want:?}", if sign > 0 { "+" } else { "-" })),
        Ok(_) => {}
      }
    }
  }
  // every unit constructor is count * unit seconds as an integer, also past u32::MAX seconds
  type Ctor = fn(u32) -> Duration;
  let units: [(&str, Ctor, i64); 5] =
    [("seconds", Duration::seconds, 1), ("minutes", Duration::minutes, 60), ("hours", Duration::hours, 3600), ("days", Duration::days, 86400), ("weeks", Duration::weeks, 604800)];
  for (name, ctor, k) in units {
    let edge = (u32::MAX as i64 / k) as u32;
    for n in [0u32, 1, 59, 60, edge.saturating_sub(1), edge, edge.saturating_add(1), edge.saturating_add(1000), u32::MAX / 2, u32::MAX] {
      for base in [MIN, 0] {
        let t = Timestamp::from_unix(base).unwrap();
        match no_panic(move || t.checked_add(ctor(n)).map(|x| x.to_unix())) {
          Err(msg) => log.push(format!("[duration] {name}({n}) added to {base} panicked: {msg}")),
          Ok(got) => {
            let want = Some(base + n as i64 * k).filter(|x| (MIN..=MAX).contains(x));
            if got != want {
              log.push(format!("[duration] {base} + {name}({n}) = {got:?}, integer arithmetic gives {want:?}"));
            }
          }
        }
      }
    }
  }
  // Duration derives Deserialize over time::Duration ([seconds, nanoseconds]): negative and sub-second values exist
  for (text, secs, nanos) in [("[-1,0]", -1i64, 0i32), ("[0,500000000]", 0, 500_000_000), ("[1,0]", 1, 0), ("[-5,-500000000]", -5, -500_000_000), ("[0,-1]", 0, -1)] {
    if let Ok(d) = serde_json::from_str::<Duration>(text) {
      for base in [MIN, MIN + 1, 0, MAX - 1, MAX] {
        let t = Timestamp::from_unix(base).unwrap();
        match no_panic(move || (t.checked_add(d).map(|x| (x.to_unix(), x.to_rfc3339())), t.checked_sub(d).map(|x| (x.to_unix(), x.to_rfc3339())))) {
          Err(msg) => log.push(format!("[arith] checked add/sub of the deserialised duration {text} at {base} panicked: {msg}")),
          Ok((a, b)) => {
            for (which, got) in [("add", a), ("sub", b)] {
              if let Some((u, text_form)) = got {
                // whatever comes back is a whole-second instant inside the range whose text re-parses to it
                let back = Timestamp::parse(&text_form).ok().map(|x| x.to_unix());
                if !(MIN..=MAX).contains(&u) || back != Some(u) || Timestamp::from_unix(u).ok().map(|x| x.to_rfc3339()) != Some(text_form.clone()) {
                  log.push(format!("[arith] {base} {which} deserialised duration {text} ({secs}s {nanos}ns): result {u} / {text_form:?} is not a canonical in-range instant"));
                }
              }
            }
          }
        }
      }
    }
  }
  // serde: a timestamp read from JSON is the one parse() yields (UTC, whole seconds, in range)
  for text in ["2023-06-01T12:34:56.789+01:30", "2023-06-01T12:34:56Z", "2023-06-01T00:00:00-23:59", "0000-01-01T00:00:00+00:01", "9999-12-31T23:59:59-00:01", "2023-06-01T12:34:56.999999999Z"] {
    let via_parse = no_panic(move || Timestamp::parse(text).ok().map(|t| (t.to_unix(), t.to_rfc3339())));
    let via_serde = no_panic(move || serde_json::from_str::<Timestamp>(&format!("\"{text}\"")).ok().map(|t| (t.to_unix(), t.to_rfc3339())));
    match (via_parse, via_serde) {
      (Ok(a), Ok(b)) => {
        if a != b {
          log.push(format!("[parse-serde] {text:?}: parse gives {a:?}, JSON deserialisation gives {b:?}"));
        }
      }
      (a, b) => log.push(format!("[parse-serde] {text:?}: panicked ({:?} / {:?})", a.err(), b.err())),
    }
  }
  let only: Option<String> = _cex.get("only").and_then(Value::as_str).map(str::to_owned);
  let log: Vec<String> = log.into_iter().filter(|l| only.as_ref().map(|o| l.contains(o.as_str())).unwrap_or(true)).collect();
  if log.is_empty() {
    Err("timestamp battery: all expectations met".into())
  } else {
    Ok(format!("{} deviations, e.g. {}", log.len(), log[..log.len().min(3)].join("; ")))
  }
}
