//! Malformed-input corpus for C05: every prefix and every single-byte mutation of valid inputs, plus short junk, through
//! the public parsers / decoders.  Only panics are of interest (used by the `panic_sweep` scenario to confirm candidates).
use crate::*;
use identity_core::common::{Object, Timestamp, Url};
use identity_core::convert::FromJson;
use identity_credential::revocation::RevocationBitmap;
use identity_did::{CoreDID, DIDUrl, DID};
use identity_document::service::{Service, ServiceEndpoint};
use identity_iota_core::{IotaDID, StateMetadataDocument};
use identity_jose::jwk::Jwk;
use identity_jose::jws::Decoder;
use identity_storage::key_id_storage::MethodDigest;

fn variants(valid: &[u8]) -> Vec<Vec<u8>> {
  let mut out: Vec<Vec<u8>> = Vec::new();
  for n in 0..=valid.len().min(96) {
    out.push(valid[..n].to_vec());
  }
  for i in 0..valid.len().min(64) {
    for m in [0x01u8, 0x80, 0xff] {
      let mut v = valid.to_vec();
      v[i] ^= m;
      out.push(v);
    }
  }
  out
}

pub fn malformed(_cex: &Value) -> Result<String, String> {
  let mut log: Vec<String> = Vec::new();
  let mut probe = |what: &str, input: &[u8], f: &(dyn Fn(&[u8]) + std::panic::RefUnwindSafe)| {
    let i2 = input.to_vec();
    if let Err(msg) = no_panic(move || f(&i2)) {
      if log.len() < 8 {
        log.push(format!("[panic] {what} on {:?}: {msg}", String::from_utf8_lossy(input)));
      }
    }
  };
  // revocation bitmap endpoints
  let did = CoreDID::parse("did:example:1234").unwrap();
  let sid = did.to_url().join("#revocation").unwrap();
  let mut b = RevocationBitmap::new();
  for i in 0..40u32 {
    b.revoke(i * 7);
  }
  let valid_payload = match b.to_service(sid.clone()).map(|s| s.service_endpoint().clone()) {
    Ok(ServiceEndpoint::One(u)) => u.as_str().trim_start_matches("data:application/octet-stream;base64,").to_owned(),
    _ => String::new(),
  };
  let mut payloads = variants(valid_payload.as_bytes());
  for s in ["", "e", "eJ", "eJw", "eJx", "eJy", "eJz", "Z", "ZU", "ZUp", "ZUp5", "ZUp3", "=", "==", "-", "_", "A"] {
    payloads.push(s.as_bytes().to_vec());
  }
  let sid2 = sid.clone();
  for p in &payloads {
    let sid3 = sid2.clone();
    probe("RevocationBitmap::try_from(&Service)", p, &move |p: &[u8]| {
      let text = String::from_utf8_lossy(p).into_owned();
      if let Ok(url) = Url::parse(format!("data:application/octet-stream;base64,{text}")) {
        if let Ok(svc) = Service::builder(Object::new()).id(sid3.clone()).type_(RevocationBitmap::TYPE).service_endpoint(ServiceEndpoint::One(url)).build() {
          let _ = RevocationBitmap::try_from(&svc);
        }
      }
    });
  }
  // state metadata
  let (doc, did_self, _) = crate::iota::document();
  let packed = doc.pack().unwrap_or_default();
  for v in variants(&packed) {
    let d = did_self.clone();
    probe("StateMetadataDocument::unpack", &v, &move |p: &[u8]| {
      if let Ok(s) = StateMetadataDocument::unpack(p) {
        let _ = s.into_iota_document(&d);
      }
    });
  }
  for hdr in [&b"DID\x01\x00"[..], b"DID\x01\x00\x00", b"DID\x01\x00\x00\x00", b"DID\x01\x00\xff\xff", b"DID\x01\x01\x02\x00{}", b"DID"] {
    probe("StateMetadataDocument::unpack", hdr, &|p: &[u8]| {
      let _ = StateMetadataDocument::unpack(p);
    });
  }
  // method digest
  for n in 0..=10usize {
    for fill in [0u8, 1, 0xff] {
      let v = vec![fill; n];
      probe("MethodDigest::unpack", &v, &|p: &[u8]| {
        let _ = MethodDigest::unpack(p.to_vec());
      });
    }
  }
  // textual parsers ('%' is left out of the DID corpus: the third-party parser's escape handling is a recorded deviation)
  for v in variants(b"2023-06-01T12:34:56.789+01:30") {
    probe("Timestamp::parse", &v, &|p: &[u8]| {
      let _ = Timestamp::parse(&String::from_utf8_lossy(p));
    });
  }
  for valid in [&b"did:example:abc:DEF-1_2.3/path/x?query=1&b=2#frag"[..], b"did:iota:rms:0x1111111111111111111111111111111111111111111111111111111111111111"] {
    for v in variants(valid) {
      if v.contains(&b'%') {
        continue;
      }
      probe("DID parsers", &v, &|p: &[u8]| {
        let s = String::from_utf8_lossy(p).into_owned();
        let _ = CoreDID::parse(&s);
        let _ = IotaDID::parse(&s);
        if let Ok(u) = DIDUrl::parse(&s) {
          let _ = (u.to_string(), u.query().map(str::len), u.fragment().map(str::len), u.path().map(str::len));
          let _ = u.did().method_id().len();
        }
      });
    }
  }
  // queries against a document: any text, in particular with a multi-byte character at the offset where the DID of an entry
  // would end, resolves or does not - without a panic
  {
    use identity_document::document::CoreDocument;
    let did = CoreDID::parse("did:example:abc").unwrap();
    let m = identity_verification::VerificationMethod::new_from_jwk(did.clone(), crate::cred::method_key("did:example:abc", "#k"), Some("#k")).unwrap();
    let svc = Service::builder(Object::new()).id(did.to_url().join("#s").unwrap()).type_("T").service_endpoint(Url::parse("https://example.com/").unwrap()).build().unwrap();
    let doc = CoreDocument::builder(Object::new()).id(did).verification_method(m).service(svc).build().unwrap();
    let mut queries: Vec<String> = vec!["did:example:abc#k".into(), "#k".into(), "k".into(), "".into(), "#".into(), "did:".into(), "did:example:abc".into()];
    for filler in ["\u{e9}", "\u{20ac}", "\u{1f600}"] {
      // the filler straddles every byte offset from 0 to the length of the document's DID (15) and beyond
      for lead in 0..=17usize {
        let base = "did:example:abc#k";
        let cut = lead.min(base.len());
        queries.push(format!("{}{}{}", &base[..cut], filler, &base[cut..]));
        queries.push(format!("{}{}", &base[..cut], filler));
        queries.push(format!("{}{}#k", &"did:example:ab"[..cut.min(14)], filler));
      }
    }
    for q in queries {
      let d2 = doc.clone();
      probe("resolve_method / resolve_service query", q.as_bytes(), &move |p: &[u8]| {
        let q2 = String::from_utf8_lossy(p).into_owned();
        let _ = d2.resolve_method(q2.as_str(), None).is_some();
        let _ = d2.resolve_method(q2.as_str(), Some(identity_verification::MethodScope::authentication())).is_some();
        let _ = d2.resolve_service(q2.as_str()).is_some();
      });
    }
  }
  // SD-JWT VC type metadata: claim paths of any shape (positions at, before and past the end of the addressed array, names that
  // are missing, wildcard on scalars) against values of any shape, for every disclosability setting - an error or Ok, no panic
  {
    use identity_credential::sd_jwt_vc::metadata::ClaimMetadata;
    let values = [
      serde_json::json!({}),
      serde_json::json!({"a": []}),
      serde_json::json!({"a": [1]}),
      serde_json::json!({"a": [1, {"b": [2, 3]}, []]}),
      serde_json::json!({"a": {"b": []}, "_sd": ["x"]}),
      serde_json::json!({"a": [[], [[]], [1, 2, 3]]}),
      serde_json::json!([1, 2]),
      serde_json::json!(null),
      serde_json::json!("text"),
    ];
    let mut paths: Vec<serde_json::Value> = Vec::new();
    for i in [0u64, 1, 2, 3, 4, u32::MAX as u64, u64::MAX >> 1] {
      paths.push(serde_json::json!(["a", i]));
      paths.push(serde_json::json!(["a", i, "b", i]));
      paths.push(serde_json::json!(["a", null, i]));
      paths.push(serde_json::json!(["a", 2, i]));
      paths.push(serde_json::json!([i]));
      paths.push(serde_json::json!(["a", "b", i]));
    }
    paths.push(serde_json::json!(["a"]));
    paths.push(serde_json::json!(["missing", 0]));
    paths.push(serde_json::json!([null]));
    paths.push(serde_json::json!(["a", null, null]));
    for path in &paths {
      for sd in ["always", "allowed", "never"] {
        let Ok(meta) = serde_json::from_value::<ClaimMetadata>(serde_json::json!({"path": path, "sd": sd})) else {
          continue;
        };
        for v in &values {
          let (m2, v2) = (meta.clone(), v.clone());
          probe("ClaimMetadata::check_value_disclosability", format!("{path} / {sd} / {v}").as_bytes(), &move |_p: &[u8]| {
            let _ = m2.check_value_disclosability(&v2);
          });
        }
      }
    }
  }
  // SD-JWT VC tokens whose issuer / type identifiers are URLs of any scheme (did:, urn:, data:, mailto:, https with odd parts): the
  // metadata look-ups answer with an error or a value - they do not panic while building the well-known URL
  {
    use async_trait::async_trait;
    use identity_credential::sd_jwt_vc::resolver::{Error as RErr, Resolver};
    use identity_credential::sd_jwt_vc::SdJwtVc;
    struct Nothing;
    #[async_trait]
    impl Resolver<Url, Vec<u8>> for Nothing {
      async fn resolve(&self, input: &Url) -> Result<Vec<u8>, RErr> {
        Err(RErr::NotFound(input.to_string()))
      }
    }
    #[async_trait]
    impl Resolver<identity_core::common::StringOrUrl, Vec<u8>> for Nothing {
      async fn resolve(&self, input: &identity_core::common::StringOrUrl) -> Result<Vec<u8>, RErr> {
        Err(RErr::NotFound(input.to_string()))
      }
    }
    #[async_trait]
    impl Resolver<Url, serde_json::Value> for Nothing {
      async fn resolve(&self, input: &Url) -> Result<serde_json::Value, RErr> {
        Err(RErr::NotFound(input.to_string()))
      }
    }
    for iss in ["https://issuer.example", "https://issuer.example/tenant/1", "did:example:123", "urn:uuid:6e8bc430-9c3a-11d9-9669-0800200c9a66", "mailto:a@b.example", "data:text/plain,x", "file:///etc/x", "http://[::1]:8080/p", "https://user:pw@issuer.example:444/a?b#c"] {
      for vct in ["https://type.example/t", "did:example:type", "urn:x:y", "plain-name"] {
        let header = identity_jose::jwu::encode_b64(br#"{"alg":"EdDSA","typ":"vc+sd-jwt","kid":"k1"}"#);
        let claims = identity_jose::jwu::encode_b64(serde_json::json!({"iss": iss, "vct": vct, "iat": 1700000000, "_sd_alg": "sha-256"}).to_string());
        let token = format!("{header}.{claims}.c2ln~");
        let Ok(vc) = SdJwtVc::parse(&token) else {
          continue;
        };
        let text = format!("iss {iss} / vct {vct}");
        probe("SdJwtVc metadata look-ups", text.as_bytes(), &move |_p: &[u8]| {
          let _ = crate::storage_block_on(vc.issuer_metadata(&Nothing));
          let _ = crate::storage_block_on(vc.type_metadata(&Nothing));
          let _ = crate::storage_block_on(vc.issuer_jwk(&Nothing));
        });
      }
    }
  }
  // type metadata of every shape (schema embedded / referenced / absent) x (extends present / absent / unresolvable / cyclic) through
  // the resolver-driven validation: an error or Ok, not a panic
  {
    use async_trait::async_trait;
    use identity_credential::sd_jwt_vc::metadata::TypeMetadata;
    use identity_credential::sd_jwt_vc::resolver::{Error as RErr, Resolver};
    struct Types;
    #[async_trait]
    impl Resolver<Url, serde_json::Value> for Types {
      async fn resolve(&self, input: &Url) -> Result<serde_json::Value, RErr> {
        match input.as_str() {
          "https://example.com/base" => Ok(serde_json::json!({"name": "base", "schema": {"type": "object", "required": ["name"]}})),
          "https://example.com/schema" => Ok(serde_json::json!({"type": "object"})),
          "https://example.com/loop" => Ok(serde_json::json!({"name": "loop", "extends": "https://example.com/loop"})),
          "https://example.com/bare" => Ok(serde_json::json!({"name": "bare"})),
          "https://example.com/not-an-object" => Ok(serde_json::json!([1, 2])),
          _ => Err(RErr::NotFound(input.to_string())),
        }
      }
    }
    let schemas = [None, Some(serde_json::json!({"schema": {"type": "object"}})), Some(serde_json::json!({"schema_uri": "https://example.com/schema"})), Some(serde_json::json!({"schema_uri": "https://example.com/unknown"}))];
    let extends = [None, Some("https://example.com/base"), Some("https://example.com/unknown"), Some("https://example.com/loop"), Some("https://example.com/bare"), Some("https://example.com/not-an-object")];
    for sc in &schemas {
      for ex in &extends {
        let mut v = serde_json::json!({"name": "t"});
        if let Some(serde_json::Value::Object(o)) = sc {
          for (k, val) in o {
            v[k] = val.clone();
          }
        }
        if let Some(e) = ex {
          v["extends"] = serde_json::json!(e);
        }
        let Ok(meta) = serde_json::from_value::<TypeMetadata>(v.clone()) else {
          continue;
        };
        let text = v.to_string();
        probe("TypeMetadata::validate_credential_with_resolver", text.as_bytes(), &move |_p: &[u8]| {
          let cred = serde_json::json!({"name": "John", "age": 42});
          let _ = crate::storage_block_on(meta.validate_credential_with_resolver(&cred, &Types));
          let _ = meta.validate_credential(&cred);
        });
      }
    }
  }
  // serialisers of values the deserialiser accepts: credentials with zero, one (as an array) or several subjects
  for subject in [serde_json::json!([]), serde_json::json!([{"id": "did:example:s"}]), serde_json::json!([{"id": "did:example:s"}, {"id": "did:example:t"}]), serde_json::json!({"x": 1})] {
    let v = serde_json::json!({
      "@context": ["https://www.w3.org/2018/credentials/v1"], "type": ["VerifiableCredential"], "issuer": "did:example:i",
      "issuanceDate": "2020-01-01T00:00:00Z", "credentialSubject": subject
    });
    if let Ok(c) = identity_credential::credential::Credential::<Object>::from_json_value(v.clone()) {
      probe("Credential::serialize_jwt", v.to_string().as_bytes(), &move |_p: &[u8]| {
        let _ = c.serialize_jwt(None);
      });
    }
  }
  // JOSE
  let k = crate::jws::key("keyA", None);
  for ser in [crate::jws::Ser::Compact, crate::jws::Ser::Flattened, crate::jws::Ser::General] {
    if let Ok(token) = crate::jws::encode(ser, b"{\"iss\":\"joe\"}", None, false, &k) {
      for v in variants(token.as_bytes()) {
        let k2 = k.clone();
        probe("JWS decoder", &v, &move |p: &[u8]| {
          let _ = crate::jws::decode_verify(ser, p, None, &k2);
          let _ = crate::jws::decode_verify(ser, p, Some(b"x"), &k2);
        });
      }
    }
  }
  let jwk_json = br#"{"kty":"OKP","crv":"Ed25519","x":"11qYAYKxCrfVS_7TyWQHOg7hcvPapiMlrwIaaPcHURo","d":"nWGxne_9WmC6hEr0kuwsxERJxWl7MmkZcDusAxyuf2A","alg":"EdDSA","key_ops":["sign"]}"#;
  for v in variants(jwk_json) {
    probe("Jwk::from_json", &v, &|p: &[u8]| {
      if let Ok(j) = Jwk::from_json_slice(p) {
        let _ = (j.to_public(), j.thumbprint_sha256_b64(), j.is_public(), j.is_private());
      }
    });
  }
  // integrity metadata (sd_jwt_vc): whatever parse / serde accept can be taken apart by every accessor
  {
    use identity_credential::sd_jwt_vc::metadata::IntegrityMetadata;
    let mut texts: Vec<String> = Vec::new();
    let good = "sha384-dOTZf16X8p34q2/kYyEFm0jh89uTjikhnzjeLeF0FHsEaYKb1A1cv+Lyv4Hk8vHd";
    for v in variants(good.as_bytes()) {
      texts.push(String::from_utf8_lossy(&v).into_owned());
    }
    for t in ["", "-", "--", "sha", "sha-", "sha--", "sha-AAAA", "sha-AAAA-opt", "sha-AAAA?opt", "sha-AAAA-a-b", "sha-AA?A", "sha?AAAA", "sha-AAAA=", "sha-!!!!", "-AAAA", "sha-AAAA-", "sha-QUJD?x=1", "a-QUJD-x?y"] {
      texts.push(t.to_owned());
    }
    for t in &texts {
      probe("[integrity] IntegrityMetadata", t.as_bytes(), &|p: &[u8]| {
        let s = String::from_utf8_lossy(p).into_owned();
        let mut all = Vec::new();
        if let Ok(m) = IntegrityMetadata::parse(&s) {
          all.push(m);
        }
        if let Ok(m) = serde_json::from_value::<IntegrityMetadata>(serde_json::Value::String(s.clone())) {
          all.push(m);
        }
        for m in all {
          let _ = (m.alg().len(), m.digest().len(), m.digest_bytes().len(), m.options().map(str::len), m.to_string());
        }
      });
    }
  }
  let only: Option<String> = _cex.get("only").and_then(Value::as_str).map(str::to_owned);
  let log: Vec<String> = log.into_iter().filter(|l| only.as_ref().map(|o| l.contains(o.as_str())).unwrap_or(true)).collect();
  if log.is_empty() {
    Err("malformed-input corpus: no panic".to_owned())
  } else {
    Ok(format!("{} panics, e.g. {}", log.len(), log[..log.len().min(3)].join("; ")))
  }
}
