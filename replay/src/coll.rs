//! Native battery for C19 (collections) - confirmation only: exhaustive operation sequences over a 3-key universe.
use crate::*;
use identity_core::common::{OneOrMany, OneOrSet, OrderedSet};

fn model_change(l: &mut Vec<u8>, keys: [u8; 2], new: u8) -> bool {
  if let Some(i) = l.iter().position(|x| keys.contains(x)) {
    let tail: Vec<u8> = l.drain(i..).filter(|x| !keys.contains(x)).collect();
    l.push(new);
    l.extend(tail);
    let n = l.len();
    // `new` has to sit at position i
    let v = l.remove(i);
    let _ = n;
    l.insert(i, v);
    true
  } else {
    false
  }
}

pub fn collections(cex: &Value) -> Result<String, String> {
  let only: Option<String> = cex.get("only").and_then(Value::as_str).map(str::to_owned);
  let r = no_panic(|| -> Vec<String> {
    let mut log = Vec::new();
    // ops: 0 append, 1 prepend, 2 remove, 3 update, 4 replace(cur, upd)
    let keys = [1u8, 2, 3];
    let mut seqs: Vec<Vec<(u8, u8, u8)>> = vec![vec![]];
    for _ in 0..3 {
      let mut next = Vec::new();
      for s in &seqs {
        for op in 0..5u8 {
          for a in keys {
            for b in if op == 4 { keys.to_vec() } else { vec![0] } {
              let mut t = s.clone();
              t.push((op, a, b));
              next.push(t);
            }
          }
        }
      }
      seqs = next;
    }
    for s in &seqs {
      let mut set: OrderedSet<u8> = OrderedSet::new();
      let mut model: Vec<u8> = Vec::new();
      for (op, a, b) in s {
        let (got, want) = match op {
          0 => (set.append(*a), if model.contains(a) { false } else { model.push(*a); true }),
          1 => (set.prepend(*a), if model.contains(a) { false } else { model.insert(0, *a); true }),
          2 => (set.remove(a).is_some(), if let Some(i) = model.iter().position(|x| x == a) { model.remove(i); true } else { false }),
          3 => (set.update(*a), model_change(&mut model, [*a, *a], *a)),
          _ => (set.replace(a, *b), model_change(&mut model, [*a, *b], *b)),
        };
        if got != want || set.as_slice() != model.as_slice() {
          log.push(format!("sequence {s:?}: flag {got} (model {want}), set {:?}, model {model:?}", set.as_slice()));
          break;
        }
      }
      if log.len() > 3 {
        return log;
      }
    }
    // one step from every duplicate-free start of length 4 and 5 over six keys: all update / replace arguments
    for start in [vec![1u8, 2, 3, 4], vec![1, 2, 3, 4, 5], vec![5, 3, 1, 4, 2], vec![2, 4, 1, 3]] {
      for a in 0..7u8 {
        for b in 0..7u8 {
          for op in [3u8, 4] {
            let mut set = OrderedSet::try_from(start.clone()).unwrap();
            let mut model = start.clone();
            let (got, want) = if op == 3 { (set.update(a), model_change(&mut model, [a, a], a)) } else { (set.replace(&a, b), model_change(&mut model, [a, b], b)) };
            if got != want || set.as_slice() != model.as_slice() {
              log.push(format!("{start:?} {}({a},{b}): flag {got} (model {want}), set {:?}, model {model:?}", if op == 3 { "update" } else { "replace" }, set.as_slice()));
            }
          }
        }
      }
      if log.len() > 3 {
        return log;
      }
    }
    for v in [vec![], vec![1u8], vec![1, 2], vec![1, 1], vec![1, 2, 1]] {
      let dup = (1..v.len()).any(|i| v[..i].contains(&v[i]));
      if OrderedSet::try_from(v.clone()).is_ok() == dup {
        log.push(format!("OrderedSet::try_from({v:?}) {}", if dup { "accepted" } else { "rejected" }));
      }
      let c: OrderedSet<u8> = v.iter().copied().collect();
      let mut first: Vec<u8> = Vec::new();
      for x in &v {
        if !first.contains(x) {
          first.push(*x);
        }
      }
      if c.as_slice() != first.as_slice() {
        log.push(format!("collect({v:?}) = {:?}", c.as_slice()));
      }
      match OrderedSet::try_from(first.clone()).map(OneOrSet::new_set) {
        Ok(Ok(s)) => {
          let json = serde_json::to_string(&s).unwrap();
          if first.len() == 1 && json.starts_with('[') {
            log.push(format!("singleton OneOrSet serialises as {json}"));
          }
          if s.len() == 0 || serde_json::from_str::<OneOrSet<u8>>(&json).ok().as_ref() != Some(&s) {
            log.push(format!("OneOrSet {json} does not deserialise to itself"));
          }
        }
        Ok(Err(_)) => {
          if !first.is_empty() {
            log.push(format!("OneOrSet::new_set({first:?}) rejected"));
          }
        }
        Err(_) => {}
      }
      let m: OneOrMany<u8> = OneOrMany::from(first.clone());
      let json = serde_json::to_string(&m).unwrap();
      if first.len() == 1 && json.starts_with('[') {
        log.push(format!("singleton OneOrMany serialises as {json}"));
      }
      if serde_json::from_str::<OneOrMany<u8>>(&json).ok().as_ref() != Some(&m) {
        log.push(format!("OneOrMany {json} does not deserialise to itself"));
      }
    }
    // JSON offered for deserialisation: duplicates and empties are refused, everything else round-trips in order
    for text in ["[]", "[1]", "[1,2]", "[2,1]", "[4,4]", "[1,2,1]", "[1,1,2]", "[3,2,1,3]", "7"] {
      let v: Vec<u8> = serde_json::from_str::<serde_json::Value>(text).ok().map(|x| match x {
        serde_json::Value::Array(a) => a.iter().filter_map(|e| e.as_u64().map(|n| n as u8)).collect(),
        serde_json::Value::Number(n) => vec![n.as_u64().unwrap_or(0) as u8],
        _ => vec![],
      }).unwrap_or_default();
      let mut dedup = v.clone();
      dedup.sort();
      dedup.dedup();
      let has_dup = dedup.len() != v.len();
      let want_ok = !v.is_empty() && !has_dup;
      let got = serde_json::from_str::<OneOrSet<u8>>(text);
      if got.is_ok() != want_ok {
        log.push(format!("[serde] OneOrSet from {text}: {}", if got.is_ok() { "accepted" } else { "rejected" }));
      }
      if let Ok(s) = &got {
        if s.iter().copied().collect::<Vec<u8>>() != v {
          log.push(format!("[serde] OneOrSet from {text} holds {:?}", s.iter().collect::<Vec<_>>()));
        }
        if serde_json::from_str::<OneOrSet<u8>>(&serde_json::to_string(s).unwrap()).ok().as_ref() != Some(s) {
          log.push(format!("[serde] OneOrSet from {text} does not survive its own JSON"));
        }
      }
      if text.starts_with('[') {
        let os = serde_json::from_str::<OrderedSet<u8>>(text);
        if os.is_ok() == has_dup {
          log.push(format!("[serde] OrderedSet from {text}: {}", if os.is_ok() { "accepted" } else { "rejected" }));
        }
      }
    }
    // every OneOrMany the API builds - the empty one included - reads back from its own JSON
    for m in [OneOrMany::<u8>::default(), OneOrMany::from(Vec::<u8>::new()), OneOrMany::One(3u8), OneOrMany::from(vec![1u8, 2])] {
      let out = serde_json::to_string(&m).unwrap();
      if serde_json::from_str::<OneOrMany<u8>>(&out).ok().as_ref() != Some(&m) {
        log.push(format!("[serde] OneOrMany {m:?} serialises as {out}, which does not read back to an equal value"));
      }
    }
    // OneOrMany read from JSON is a fixpoint of its own serialisation (a one-element array included)
    for text in ["1", "[1]", "[1,2]", "[]", "[7,7]"] {
      if let Ok(m) = serde_json::from_str::<OneOrMany<u8>>(text) {
        let out = serde_json::to_string(&m).unwrap();
        match serde_json::from_str::<OneOrMany<u8>>(&out) {
          Ok(back) if back == m => {}
          _ => log.push(format!("[serde] OneOrMany read from {text} serialises as {out}, which does not read back to an equal value")),
        }
      }
    }
    // OneOrSet::append against a list model, on elements whose key is a projection (a refused duplicate must leave the stored element
    // as it was), from the One state and from the Set state
    {
      #[derive(Clone, Debug, PartialEq, Eq, serde::Serialize, serde::Deserialize)]
      struct Kv(u8, u8);
      impl identity_core::common::KeyComparable for Kv {
        type Key = u8;
        fn key(&self) -> &u8 {
          &self.0
        }
      }
      for start in [vec![Kv(1, 10)], vec![Kv(1, 10), Kv(2, 20)]] {
        for item in [Kv(1, 11), Kv(2, 21), Kv(3, 30)] {
          let mut model = start.clone();
          let mut s: OneOrSet<Kv> = if start.len() == 1 { OneOrSet::new_one(start[0].clone()) } else { OneOrSet::try_from(start.clone()).unwrap() };
          let want = !model.iter().any(|e| e.0 == item.0);
          if want {
            model.push(item.clone());
          }
          let got = s.append(item.clone());
          let held: Vec<Kv> = s.iter().cloned().collect();
          if got != want || held != model {
            log.push(format!("[append] OneOrSet {start:?}.append({item:?}) = {got}, holds {held:?}; the list model gives {want}, {model:?}"));
          }
        }
      }
      // collecting exactly one element into OneOrMany gives One whatever the iterator's size hint says
      let singles: Vec<(&str, OneOrMany<u8>)> = vec![
        ("filter", [1u8, 2, 3].into_iter().filter(|x| *x == 2).collect()),
        ("flat_map", [2u8].into_iter().flat_map(|x| vec![x]).collect()),
        ("take_while", [2u8, 9].into_iter().take_while(|x| *x < 5).collect()),
        ("from_fn", {
          let mut n = 0;
          std::iter::from_fn(move || {
            n += 1;
            if n == 1 {
              Some(2u8)
            } else {
              None
            }
          })
          .collect()
        }),
        ("exact", vec![2u8].into_iter().collect()),
      ];
      for (how, m) in singles {
        if m != OneOrMany::One(2u8) || serde_json::to_string(&m).unwrap() != "2" {
          log.push(format!("[collect] one element collected through {how} gives {m:?} / {}", serde_json::to_string(&m).unwrap()));
        }
      }
      // push onto an empty Many gives One(value), however that Many came about (fresh, with spare capacity, emptied)
      let mut emptied = vec![1u8, 2, 3];
      emptied.clear();
      for (how, mut m) in [("Vec::new", OneOrMany::Many(Vec::new())), ("with_capacity", OneOrMany::Many(Vec::with_capacity(8))), ("cleared", OneOrMany::Many(emptied)), ("from(with_capacity)", OneOrMany::from(Vec::<u8>::with_capacity(3)))] {
        m.push(2u8);
        if m != OneOrMany::One(2u8) || serde_json::to_string(&m).unwrap() != "2" {
          log.push(format!("[collect] push onto an empty Many ({how}) gives {m:?}"));
        }
        m.push(3u8);
        if m != OneOrMany::Many(vec![2, 3]) {
          log.push(format!("[collect] second push gives {m:?}"));
        }
      }
      let none: OneOrMany<u8> = [1u8].into_iter().filter(|x| *x == 2).collect();
      let two: OneOrMany<u8> = [1u8, 2, 3].into_iter().filter(|x| *x != 2).collect();
      if none.len() != 0 || two != OneOrMany::Many(vec![1, 3]) {
        log.push(format!("[collect] filtered collections give {none:?} / {two:?}"));
      }
    }
    let mapped = OneOrSet::new_set(OrderedSet::try_from(vec![1u8, 2]).unwrap()).unwrap().map(|_| 7u8);
    if mapped.len() != 1 || serde_json::to_string(&mapped).unwrap().starts_with('[') {
      log.push("OneOrSet::map collapsing keys does not normalise to One".into());
    }
    log
  });
  match r {
    Err(msg) => Ok(format!("collections panicked: {msg}")),
    Ok(log) => {
      let log: Vec<String> = log.into_iter().filter(|l| only.as_ref().map(|o| l.contains(o.as_str())).unwrap_or(true)).collect();
      if log.is_empty() {
        Err("collections battery: all expectations met".to_owned())
      } else {
        Ok(format!("{} deviations, e.g. {}", log.len(), log[..log.len().min(3)].join("; ")))
      }
    }
  }
}
