//! Native battery for C14 (state-metadata framing and rebasing) and C17 (IOTA DID normal form).
use crate::*;
use identity_core::common::{Object, OneOrSet, Url};
use identity_core::convert::ToJson;
use identity_did::{CoreDID, DID};
use identity_document::service::Service;
use identity_document::verifiable::JwsVerificationOptions;
use identity_iota_core::{IotaDID, IotaDocument, StateMetadataDocument, StateMetadataEncoding};
use identity_verification::{MethodData, MethodScope, MethodType, VerificationMethod};

const SELF: &str = "did:iota:0x8036235b6b5939435a45d68bcea7890eef399209a669c8c263fac7f5089b2ec6";
const FOREIGN: &str = "did:iota:0x71b709dff439f1ac9dd2b9c2e28db0807156b378e13bfa3605ce665aa0d0fdca";
const TARGET: &str = "did:iota:rms:0x1111111111111111111111111111111111111111111111111111111111111111";

fn method(did: &IotaDID, fragment: &str) -> VerificationMethod {
  VerificationMethod::builder(Default::default())
    .id(did.to_url().join(fragment).unwrap())
    .controller(did.clone().into())
    .type_(MethodType::ED25519_VERIFICATION_KEY_2018)
    .data(MethodData::new_multibase(b"some-public-key-bytes-0123456789"))
    .build()
    .unwrap()
}

pub fn document() -> (IotaDocument, IotaDID, IotaDID) {
  let did_self = IotaDID::parse(SELF).unwrap();
  let did_foreign = IotaDID::parse(FOREIGN).unwrap();
  let mut document = IotaDocument::new_with_id(did_self.clone());
  document.insert_method(method(&did_self, "#did-self"), MethodScope::VerificationMethod).unwrap();
  document.insert_method(method(&did_foreign, "#did-foreign"), MethodScope::authentication()).unwrap();
  document
    .insert_service(
      Service::builder(Object::new())
        .id(did_self.to_url().join("#my-service").unwrap())
        .type_("RevocationList2022")
        .service_endpoint(Url::parse("https://example.com/xyzabc").unwrap())
        .build()
        .unwrap(),
    )
    .unwrap();
  document
    .insert_service(
      Service::builder(Object::new())
        .id(did_foreign.to_url().join("#my-foreign-service").unwrap())
        .type_("RevocationList2022")
        .service_endpoint(Url::parse("https://example.com/0xf4c42e9da").unwrap())
        .build()
        .unwrap(),
    )
    .unwrap();
  // the document's own DID in every relationship, embedded and by reference
  for (i, (scope, rel)) in [
    (MethodScope::authentication(), identity_verification::MethodRelationship::Authentication),
    (MethodScope::assertion_method(), identity_verification::MethodRelationship::AssertionMethod),
    (MethodScope::key_agreement(), identity_verification::MethodRelationship::KeyAgreement),
    (MethodScope::capability_delegation(), identity_verification::MethodRelationship::CapabilityDelegation),
    (MethodScope::capability_invocation(), identity_verification::MethodRelationship::CapabilityInvocation),
  ]
  .into_iter()
  .enumerate()
  {
    document.insert_method(method(&did_self, &format!("#self-rel-{i}")), scope).unwrap();
    document.attach_method_relationship(&did_self.to_url().join("#did-self").unwrap(), rel).unwrap();
  }
  document.set_controller([did_foreign.clone(), did_self.clone()]);
  // methods and services may belong to non-IOTA DIDs
  let other = CoreDID::parse("did:example:123").unwrap();
  let m = VerificationMethod::builder(Default::default())
    .id(other.to_url().join("#other-key").unwrap())
    .controller(other.clone())
    .type_(MethodType::ED25519_VERIFICATION_KEY_2018)
    .data(MethodData::new_multibase(b"some-public-key-bytes-0123456789"))
    .build()
    .unwrap();
  document.insert_method(m, MethodScope::assertion_method()).unwrap();
  document
    .insert_service(
      Service::builder(Object::new())
        .id(other.to_url().join("#other-service").unwrap())
        .type_("T")
        .service_endpoint(Url::parse("https://example.com/other").unwrap())
        .build()
        .unwrap(),
    )
    .unwrap();
  (document, did_self, did_foreign)
}

pub fn state_metadata(_cex: &Value) -> Result<String, String> {
  let r = no_panic(|| -> Vec<String> {
    let mut log = Vec::new();
    let (doc, did_self, did_foreign) = document();
    let packed = doc.clone().pack().unwrap();
    let body_len = packed.len() - 7;
    if &packed[..3] != b"DID" || packed[3] != 1 || packed[4] != 0 || u16::from_le_bytes([packed[5], packed[6]]) as usize != body_len {
      log.push(format!("packed header is {:?}, expected DID,1,0,len={body_len} LE", &packed[..7]));
    }
    let same = |d: &IotaDocument| d.core_document() == doc.core_document();
    match StateMetadataDocument::unpack(&packed).and_then(|d| d.into_iota_document(&did_self)) {
      Ok(d) if same(&d) => {}
      Ok(_) => log.push("pack/unpack for the same DID changed the document".into()),
      Err(e) => log.push(format!("own packing rejected: {e}")),
    }
    // trailing bytes are ignored
    let mut t = packed.clone();
    t.extend_from_slice(b"garbage");
    match StateMetadataDocument::unpack(&t).and_then(|d| d.into_iota_document(&did_self)) {
      Ok(d) if same(&d) => {}
      _ => log.push("bytes beyond the prefixed length are not ignored".into()),
    }
    // header mutations
    for i in 0..5 {
      for bit in 0..8 {
        let mut m = packed.clone();
        m[i] ^= 1 << bit;
        if StateMetadataDocument::unpack(&m).is_ok() {
          log.push(format!("header byte {i} with bit {bit} flipped accepted"));
        }
      }
    }
    for cut in 0..8.min(packed.len()) {
      if StateMetadataDocument::unpack(&packed[..cut]).is_ok() {
        log.push(format!("{cut}-byte input accepted"));
      }
    }
    if StateMetadataDocument::unpack(&packed[..packed.len() - 1]).is_ok() {
      log.push("length prefix exceeding the data accepted".into());
    }
    let mut m = packed.clone();
    let l = (body_len as u16 + 1).to_le_bytes();
    m[5] = l[0];
    m[6] = l[1];
    if StateMetadataDocument::unpack(&m).is_ok() {
      log.push("length prefix one past the data accepted".into());
    }
    // shorter prefix => parser sees a truncated body => must not silently produce the full document
    let mut m = packed.clone();
    let l = (body_len as u16 - 1).to_le_bytes();
    m[5] = l[0];
    m[6] = l[1];
    if let Ok(d) = StateMetadataDocument::unpack(&m).and_then(|d| d.into_iota_document(&did_self)) {
      if same(&d) {
        log.push("length prefix ignored: shorter prefix still yields the whole document".into());
      }
    }
    // oversize
    let mut big = doc.clone();
    let long = "x".repeat(70_000);
    big
      .insert_service(
        Service::builder(Object::new())
          .id(did_self.to_url().join("#big").unwrap())
          .type_("T")
          .service_endpoint(Url::parse(format!("https://example.com/{long}")).unwrap())
          .build()
          .unwrap(),
      )
      .unwrap();
    if big.pack().is_ok() {
      log.push("document larger than 65535 bytes packed".into());
    }
    // the exact boundary of the 16-bit length: bodies of 65535 bytes round-trip, 65536 and 65537 are refused
    {
      let with_pad = |n: usize| {
        let mut d = doc.clone();
        d.insert_service(
          Service::builder(Object::new())
            .id(did_self.to_url().join("#pad").unwrap())
            .type_("T")
            .service_endpoint(Url::parse(format!("https://example.com/{}", "x".repeat(n))).unwrap())
            .build()
            .unwrap(),
        )
        .unwrap();
        d
      };
      if let Ok(p0) = with_pad(1000).pack() {
        let base = p0.len() - 7 - 1000; // body length without padding
        for target_len in [65534usize, 65535, 65536, 65537] {
          let d = with_pad(target_len - base);
          match d.clone().pack() {
            Ok(p) => {
              let body = p.len() - 7;
              if body != target_len {
                log.push(format!("size probe produced a body of {body} bytes, wanted {target_len}"));
              } else if target_len > 65535 {
                log.push(format!("document with a {target_len}-byte body packed (length prefix {:?})", &p[5..7]));
              } else {
                match StateMetadataDocument::unpack(&p).and_then(|x| x.into_iota_document(&did_self)) {
                  Ok(back) if back.core_document() == d.core_document() => {}
                  _ => log.push(format!("document with a {target_len}-byte body does not unpack to itself")),
                }
              }
            }
            Err(_) => {
              if target_len <= 65535 {
                log.push(format!("document with a {target_len}-byte body refused"));
              }
            }
          }
        }
      }
    }
    // rebasing
    let target = IotaDID::parse(TARGET).unwrap();
    match StateMetadataDocument::unpack(&packed).and_then(|d| d.into_iota_document(&target)) {
      Ok(d) => {
        if d.id() != &target {
          log.push("document id not rewritten to the target DID".into());
        }
        let ctrl: Vec<String> = d.controller().map(|c| c.to_string()).collect();
        if ctrl != vec![did_foreign.to_string(), target.to_string()] {
          log.push(format!("controllers after rebasing: {ctrl:?}"));
        }
        let m_self = d.resolve_method("#did-self", None);
        if m_self.map(|m| (m.id().did().to_string(), m.controller().to_string())) != Some((target.to_string(), target.to_string())) {
          log.push("self method id/controller not rewritten".into());
        }
        let m_for = d.resolve_method(format!("{FOREIGN}#did-foreign").as_str(), None);
        if m_for.map(|m| (m.id().did().to_string(), m.controller().to_string())) != Some((FOREIGN.to_string(), FOREIGN.to_string())) {
          log.push("foreign method altered by rebasing".into());
        }
        let ids: Vec<String> = d.service().iter().map(|s| s.id().did().to_string()).collect();
        if d.resolve_method("did:example:123#other-key", None).map(|m| m.controller().to_string()) != Some("did:example:123".to_string()) {
          log.push("non-IOTA foreign method lost or altered by rebasing".into());
        }
        if ids != vec![target.to_string(), FOREIGN.to_string(), "did:example:123".to_string()] {
          log.push(format!("service ids after rebasing: {ids:?}"));
        }
      }
      Err(e) => log.push(format!("rebasing failed: {e}")),
    }
    // every combination of {self, foreign} method id x {self, foreign} controller, embedded and general-purpose, rebased
    {
      let mk = |id_did: &IotaDID, ctrl: &IotaDID, frag: &str| {
        VerificationMethod::builder(Default::default())
          .id(id_did.to_url().join(frag).unwrap())
          .controller(ctrl.clone().into())
          .type_(MethodType::ED25519_VERIFICATION_KEY_2018)
          .data(MethodData::new_multibase(b"some-public-key-bytes-0123456789"))
          .build()
          .unwrap()
      };
      let mut d = IotaDocument::new_with_id(did_self.clone());
      let combos = [(true, true, "#ss"), (true, false, "#sf"), (false, true, "#fs"), (false, false, "#ff"), (true, true, "#ss-cd"), (true, false, "#sf-ci"), (false, true, "#fs-ka"), (true, true, "#ss-am"), (false, true, "#fs-cd")];
      for (i, (id_self, c_self, frag)) in combos.iter().enumerate() {
        let m = mk(if *id_self { &did_self } else { &did_foreign }, if *c_self { &did_self } else { &did_foreign }, frag);
        let scope = match i {
          0 | 2 => MethodScope::VerificationMethod,
          1 | 3 => MethodScope::authentication(),
          4 | 8 => MethodScope::capability_delegation(),
          5 => MethodScope::capability_invocation(),
          6 => MethodScope::key_agreement(),
          _ => MethodScope::assertion_method(),
        };
        d.insert_method(m, scope).unwrap();
      }
      match d.clone().pack().and_then(|p| StateMetadataDocument::unpack(&p)).and_then(|x| x.into_iota_document(&target)) {
        Ok(r) => {
          for (id_self, c_self, frag) in combos {
            let want_id = if id_self { target.to_string() } else { FOREIGN.to_string() };
            let want_c = if c_self { target.to_string() } else { FOREIGN.to_string() };
            let q = format!("{want_id}{frag}");
            match r.resolve_method(q.as_str(), None) {
              Some(m) => {
                if m.controller().to_string() != want_c {
                  log.push(format!("[rebase] method {frag} (id {}, controller {}): controller after rebasing is {}, expected {want_c}", if id_self { "self" } else { "foreign" }, if c_self { "self" } else { "foreign" }, m.controller()));
                }
              }
              None => log.push(format!("[rebase] method {frag} not found under {q} after rebasing")),
            }
          }
          let text = r.core_document().to_json().unwrap_or_default();
          if text.contains("did:0:0") || text.contains(SELF) {
            log.push("[rebase] placeholder or the old DID survives rebasing".into());
          }
        }
        Err(e) => log.push(format!("[rebase] rebasing the combination document failed: {e}")),
      }
      match d.clone().pack().and_then(|p| StateMetadataDocument::unpack(&p)).and_then(|x| x.into_iota_document(&did_self)) {
        Ok(r) if r.core_document() == d.core_document() => {}
        _ => log.push("[rebase] combination document does not round-trip for its own DID".into()),
      }
      // a foreign DID of another method that happens to carry the same method-specific id is not a self-reference
      {
        use identity_did::DID as _;
        let twin = CoreDID::parse(format!("did:example:{}", did_self.method_id())).unwrap();
        let mut d2 = IotaDocument::new_with_id(did_self.clone());
        let m = VerificationMethod::builder(Default::default())
          .id(twin.to_url().join("#twin").unwrap())
          .controller(twin.clone())
          .type_(MethodType::ED25519_VERIFICATION_KEY_2018)
          .data(MethodData::new_multibase(b"some-public-key-bytes-0123456789"))
          .build()
          .unwrap();
        d2.insert_method(m, MethodScope::authentication()).unwrap();
        for tgt in [&did_self, &target] {
          match d2.clone().pack().and_then(|p| StateMetadataDocument::unpack(&p)).and_then(|x| x.into_iota_document(tgt)) {
            Ok(r) => {
              let q = format!("{twin}#twin");
              match r.resolve_method(q.as_str(), None) {
                Some(m) if m.controller() == &twin => {}
                _ => log.push(format!("[rebase] foreign DID {twin} (same method-specific id as the document) was rewritten when rebasing onto {tgt}")),
              }
            }
            Err(e) => log.push(format!("[rebase] document with a same-id foreign DID fails to rebase: {e}")),
          }
        }
      }
    }
    // foreign controllers that are valid IOTA DIDs but not in normal form (explicit default network, upper-case hex tag) are
    // foreign DIDs like any other: carried through unchanged, one or several of them
    {
      use identity_core::convert::{FromJson, ToJson};
      let tag = "0x".to_owned() + &"ab".repeat(32);
      let forms = [format!("did:iota:iota:{tag}"), format!("did:iota:0x{}", "AB".repeat(32)), format!("did:iota:smr:0x{}", "Cd".repeat(32))];
      for n in 1..=forms.len() {
        let ctrl: serde_json::Value = if n == 1 { serde_json::Value::String(forms[0].clone()) } else { serde_json::json!(forms[..n].to_vec()) };
        let base: serde_json::Value = serde_json::from_str(&IotaDocument::new_with_id(did_self.clone()).to_json().unwrap()).unwrap();
        let mut v = base.clone();
        v["doc"]["controller"] = ctrl.clone();
        let Ok(d2) = IotaDocument::from_json(&v.to_string()) else {
          continue; // the document type refuses this controller form up front: nothing to carry through
        };
        for tgt in [&did_self, &target] {
          match d2.clone().pack().and_then(|p| StateMetadataDocument::unpack(&p)).and_then(|x| x.into_iota_document(tgt)) {
            Ok(r) => {
              let got: Vec<String> = r.controller().map(|c| c.to_string()).collect();
              if got != forms[..n].to_vec() {
                log.push(format!("[rebase] foreign IOTA controllers {:?} come back as {got:?} after rebasing onto {tgt}", &forms[..n]));
              }
            }
            Err(e) => log.push(format!("[rebase] document with foreign IOTA controllers {:?} fails to rebase: {e}", &forms[..n])),
          }
        }
      }
    }
    // every presence combination of the two timestamps survives pack / unpack as it is (nothing is filled in)
    {
      use identity_core::common::Timestamp;
      let t1 = Timestamp::from_unix(1_600_000_000).unwrap();
      let t2 = Timestamp::from_unix(1_700_000_000).unwrap();
      for created in [None, Some(t1)] {
        for updated in [None, Some(t1), Some(t2)] {
          let mut dm = doc.clone();
          dm.metadata.created = created;
          dm.metadata.updated = updated;
          for tgt in [&did_self, &target] {
            match dm.clone().pack().and_then(|p| StateMetadataDocument::unpack(&p)).and_then(|x| x.into_iota_document(tgt)) {
              Ok(r) => {
                if r.metadata.created != created || r.metadata.updated != updated {
                  log.push(format!("[metadata] created {created:?} / updated {updated:?} come back as {:?} / {:?}", r.metadata.created, r.metadata.updated));
                }
              }
              Err(e) => log.push(format!("[metadata] document with created {created:?} / updated {updated:?} does not round-trip: {e}")),
            }
          }
        }
      }
    }
    // metadata members with default-looking values survive pack / unpack (Some(false), empty strings)
    {
      for deact in [None, Some(false), Some(true)] {
        let mut dm = doc.clone();
        dm.metadata.deactivated = deact;
        match dm.clone().pack().and_then(|p| StateMetadataDocument::unpack(&p)).and_then(|x| x.into_iota_document(&did_self)) {
          Ok(r) => {
            if r.metadata.deactivated != deact {
              log.push(format!("[metadata] deactivated = {deact:?} comes back as {:?}", r.metadata.deactivated));
            }
            if r.metadata != dm.metadata {
              log.push(format!("[metadata] metadata differs after pack / unpack for the same DID (deactivated = {deact:?})"));
            }
          }
          Err(e) => log.push(format!("[metadata] document with deactivated = {deact:?} does not unpack: {e}")),
        }
      }
    }
    // a non-IOTA id in the packed form must be refused on unpack
    let text = String::from_utf8_lossy(&packed[7..]).replace(FOREIGN, "did:example:abc");
    if text.contains("did:example:abc") {
      let mut m = packed[..5].to_vec();
      m.extend_from_slice(&(text.len() as u16).to_le_bytes());
      m.extend_from_slice(text.as_bytes());
      // the foreign DID is a controller here: must be an IOTA DID
      if StateMetadataDocument::unpack(&m).and_then(|d| d.into_iota_document(&target)).is_ok() {
        log.push("non-IOTA controller accepted on unpack".into());
      }
    }
    log
  });
  match r {
    Err(msg) => Ok(format!("state metadata pack/unpack panicked: {msg}")),
    Ok(log) if !log.is_empty() => Ok(log[..log.len().min(4)].join("; ")),
    Ok(_) => Err("state metadata battery: all expectations met".to_owned()),
  }
}

/// C17 battery
pub fn iota_did(cex: &Value) -> Result<String, String> {
  use identity_iota_core::NetworkName;
  let only: Option<String> = cex.get("only").and_then(Value::as_str).map(str::to_owned);
  let r = no_panic(|| -> Vec<String> {
    let mut log = Vec::new();
    let tag_l = "0xabcdef0123456789abcdef0123456789abcdef0123456789abcdef0123456789";
    let tag_u = "0xABCDEF0123456789ABCDEF0123456789ABCDEF0123456789ABCDEF0123456789";
    let ok_inputs = [format!("did:iota:{tag_l}"), format!("did:iota:rms:{tag_l}"), format!("did:iota:iota:{tag_l}"), format!("DID:IOTA:{tag_u}"), format!("did:iota:a1b2c3:{tag_l}"), format!("did:iota:0xab:{tag_l}"), format!("did:iota:0x:{tag_l}")];
    for s in &ok_inputs {
      match IotaDID::parse(s) {
        Err(e) => log.push(format!("[valid] {s:?} rejected: {e}")),
        Ok(d) => {
          let text = d.to_string();
          if text != text.to_lowercase() {
            log.push(format!("[case] {s:?} held as {text:?}: not lower-case"));
          }
          if text.starts_with("did:iota:iota:") {
            log.push(format!("[normal] default network not omitted in {text:?}"));
          }
          if text.contains(['/', '?', '#']) {
            log.push(format!("[normal] {text:?} carries URL parts"));
          }
          if IotaDID::parse(&text).ok().as_ref() != Some(&d) {
            log.push(format!("[normal] {text:?} does not re-parse to an equal value"));
          }
          let re = if d.network_str() == "iota" { format!("did:iota:{}", d.tag_str()) } else { format!("did:iota:{}:{}", d.network_str(), d.tag_str()) };
          if re != text {
            log.push(format!("[normal] accessors recompose {re:?}, value is {text:?}"));
          }
        }
      }
    }
    // equality <=> network and tag bytes
    let a = IotaDID::parse(format!("did:iota:{tag_l}")).unwrap();
    for (s, same) in [
      (format!("did:iota:iota:{tag_l}"), true),
      (format!("did:iota:{tag_u}"), true),
      (format!("did:iota:rms:{tag_l}"), false),
      (format!("did:iota:IOTA:{tag_l}"), true),
      (format!("did:iota:Iota:{tag_u}"), true),
      (format!("did:iota:iotA:{tag_l}"), true),
      (format!("did:iota:RMS:{tag_l}"), false),
    ] {
      if let Ok(b) = IotaDID::parse(&s) {
        if (a == b) != same {
          log.push(format!("[case] parse({s:?}) == canonical is {}", a == b));
        }
      }
      // the same strings through the CoreDID route
      if let Ok(core) = CoreDID::parse(&s) {
        if let Ok(b) = IotaDID::try_from(core) {
          if (a == b) != same {
            log.push(format!("[case] TryFrom<CoreDID>({s:?}) == canonical is {} (held as {})", a == b, b));
          }
          if b.to_string() != b.to_string().to_lowercase() {
            log.push(format!("[case] TryFrom<CoreDID>({s:?}) held as {b}: not lower-case"));
          }
          if b.to_string().starts_with("did:iota:iota:") || IotaDID::parse(b.to_string()).ok().as_ref() != Some(&b) {
            log.push(format!("[case] TryFrom<CoreDID>({s:?}) held as {b}: default network not omitted / does not re-parse to an equal value"));
          }
          if serde_json::from_str::<IotaDID>(&format!("\"{s}\"")).ok().as_ref() != Some(&b) {
            log.push(format!("[case] deserialising {s:?} gives another value than TryFrom<CoreDID>"));
          }
        }
      }
    }
    let bad = [
      format!("did:iotb:{tag_l}"),
      format!("did:iota:{}", &tag_l[..tag_l.len() - 2]),
      format!("did:iota:{tag_l}00"),
      format!("did:iota:toolong7:{tag_l}"),
      format!("did:iota::{tag_l}"),
      format!("did:iota:a_b:{tag_l}"),
      format!("did:iota:a:b:{tag_l}"),
      format!("did:iota:{}", tag_l.replace("0x", "")),
      format!("did:iota:{tag_l}/path"),
      format!("did:iota:{tag_l}?q"),
      format!("did:iota:{tag_l}#f"),
      format!("did:iota:{tag_l}#"),
      format!("did:iota:{tag_l}?"),
      format!("did:iota:{tag_l}?#"),
      format!("did:iota:{tag_l}/"),
      format!("did:iota:rms:{tag_l}#"),
      format!("did:iota:0x0x{}", &tag_l[4..]),
      format!("did:iota:rms:0x0x0x{}", &tag_l[6..]),
      format!("did:iota:0x{}g", &tag_l[2..tag_l.len() - 1]),
      format!("did:iota:x0{}", &tag_l[2..]),
    ];
    for s in &bad {
      if IotaDID::parse(s).is_ok() {
        log.push(format!("[valid] {s:?} accepted"));
      }
      if let Ok(core) = CoreDID::parse(s) {
        if IotaDID::try_from(core).is_ok() {
          log.push(format!("[valid] TryFrom<CoreDID>({s:?}) accepted"));
        }
      }
    }
    for (n, ok) in [("", false), ("a", true), ("abc123", true), ("abcdefg", false), ("Abc", false), ("a-b", false), ("é", false)] {
      if NetworkName::try_from(n.to_owned()).is_ok() != ok {
        log.push(format!("[network] network name {n:?}: {}", if ok { "rejected" } else { "accepted" }));
      }
    }
    // network names that did not come through the validating constructor (NetworkName derives Deserialize): the infallible
    // constructors must not turn them into an un-normalised or invalid DID value (they may refuse, i.e. panic as documented)
    for raw in ["Smr", "IOTA", "iota", "rMs1"] {
      if let Ok(n) = serde_json::from_str::<NetworkName>(&format!("\"{raw}\"")) {
        for which in ["new", "from_alias_id", "placeholder"] {
          let n2 = n.clone();
          let built = no_panic(move || match which {
            "new" => IotaDID::new(&[0xab; 32], &n2),
            "from_alias_id" => IotaDID::from_alias_id(&format!("0x{}", "ab".repeat(32)), &n2),
            _ => IotaDID::placeholder(&n2),
          });
          if let Ok(d) = built {
            let text = d.to_string();
            if text != text.to_lowercase() || text.starts_with("did:iota:iota:") || IotaDID::parse(&text).ok().as_ref() != Some(&d) {
              log.push(format!("[ctor] IotaDID::{which} with deserialised network name {raw:?} yields {text:?}: not a normalised, re-parsable IOTA DID"));
            }
          }
        }
      }
    }
    // every network name is kept exactly (only the default network's name is omitted) - in particular names that contain, start or
    // end with the default name; every such DID re-parses, exposes that name and differs from the default-network DID
    let default_did = IotaDID::new(&[0xab; 32], &NetworkName::try_from("iota").unwrap());
    for name in ["iota2", "iotax", "iota42", "iotaa", "xiota", "1iota", "aiota", "iot", "io", "i", "ota", "iotb", "jota", "main", "smr", "a", "a1b2c3", "0x", "0xab", "0xdev", "0", "x0x"] {
      let Ok(n) = NetworkName::try_from(name.to_owned()) else {
        log.push(format!("[network] network name {name:?} rejected"));
        continue;
      };
      for (how, d) in [("new", IotaDID::new(&[0xab; 32], &n)), ("from_alias_id", IotaDID::from_alias_id(&format!("0x{}", "ab".repeat(32)), &n)), ("parse", match IotaDID::parse(format!("did:iota:{name}:0x{}", "ab".repeat(32))) {
        Ok(d) => d,
        Err(e) => {
          log.push(format!("[normal] did:iota:{name}:<tag> rejected: {e}"));
          continue;
        }
      })] {
        if d.network_str() != name || d.to_string() != format!("did:iota:{name}:0x{}", "ab".repeat(32)) {
          log.push(format!("[normal] network {name:?} via {how}: value is {d}, network_str() = {:?}", d.network_str()));
        }
        if d == default_did {
          log.push(format!("[normal] network {name:?} via {how}: equal to the default-network DID with the same tag"));
        }
        // ordering and hashing agree with equality: the same tag on another network is another DID for Ord and Hash as well
        {
          use std::hash::{Hash, Hasher};
          let h = |x: &IotaDID| {
            let mut s = std::collections::hash_map::DefaultHasher::new();
            x.hash(&mut s);
            s.finish()
          };
          if d.cmp(&default_did) == std::cmp::Ordering::Equal || d.partial_cmp(&default_did) == Some(std::cmp::Ordering::Equal) {
            log.push(format!("[cmp] network {name:?} via {how}: compares Equal to the default-network DID with the same tag"));
          }
          if h(&d) == h(&default_did) {
            log.push(format!("[cmp] network {name:?} via {how}: hashes like the default-network DID"));
          }
          let twin = IotaDID::parse(d.to_string()).unwrap();
          if d.cmp(&twin) != std::cmp::Ordering::Equal || h(&d) != h(&twin) {
            log.push(format!("[cmp] network {name:?} via {how}: an equal value orders / hashes differently"));
          }
        }
        if IotaDID::parse(d.to_string()).ok().as_ref() != Some(&d) {
          log.push(format!("[normal] network {name:?} via {how}: {d} does not re-parse to an equal value"));
        }
      }
    }
    // the method is exactly "iota": names that contain or extend it are other methods - through every route
    for method in ["iotax", "iota2", "iotaledger", "xiota", "iot", "io", "ota", "iota-", "iota.", "iota_", "i", "jota"] {
      for rest in [format!("0x{}", "ab".repeat(32)), format!("dev:0x{}", "ab".repeat(32))] {
        let s = format!("did:{method}:{rest}");
        if IotaDID::parse(&s).is_ok() {
          log.push(format!("[valid] {s:?} accepted"));
        }
        if let Ok(core) = CoreDID::parse(&s) {
          if IotaDID::check_validity(&core).is_ok() || IotaDID::is_valid(&core) {
            log.push(format!("[valid] check_validity / is_valid accept {s:?}"));
          }
          if IotaDID::try_from(core).is_ok() {
            log.push(format!("[valid] TryFrom<CoreDID>({s:?}) accepted"));
          }
        }
        if serde_json::from_str::<IotaDID>(&format!("\"{s}\"")).is_ok() {
          log.push(format!("[valid] deserialisation accepts {s:?}"));
        }
      }
    }
    let bytes = [0xabu8; 32];
    let net = NetworkName::try_from("rms").unwrap();
    let d = IotaDID::new(&bytes, &net);
    if d.network_str() != "rms" || d.tag_str() != format!("0x{}", "ab".repeat(32)) {
      log.push(format!("[normal] IotaDID::new exposes ({}, {})", d.network_str(), d.tag_str()));
    }
    log
  });
  match r {
    Err(msg) => Ok(format!("IOTA DID handling panicked: {msg}")),
    Ok(log) => {
      let log: Vec<String> = log.into_iter().filter(|l| only.as_ref().map(|o| l.contains(o.as_str())).unwrap_or(true)).collect();
      if log.is_empty() {
        Err("IOTA DID battery: all expectations met".to_owned())
      } else {
        Ok(format!("{} deviations, e.g. {}", log.len(), log[..log.len().min(4)].join("; ")))
      }
    }
  }
}
