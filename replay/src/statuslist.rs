use crate::*;
use identity_credential::revocation::status_list_2021::StatusList2021;

/// The solver works on a list of arbitrary length; natively the smallest permitted list (131072 entries) is used and
/// the counterexample is transported by its *role*: bit offset inside the byte, written value, neighbour relation,
/// in-range / out-of-range.
pub fn run(scenario: &str, cex: &Value) -> Result<String, String> {
  let idx = u(cex, "idx") as usize;
  let k = u(cex, "k") as usize;
  let val = b(cex, "val");
  let nbytes = u(cex, "nbytes") as usize;
  let len = StatusList2021::default().len();
  match scenario {
    "statuslist_get" => {
      // out-of-range reads must be errors, in-range reads must be Ok; never a panic
      let solver_in_range = (k as u128) < (nbytes as u128) * 8;
      let probes: Vec<usize> = if solver_in_range { vec![k % len] } else { vec![len, len + (k % 8), usize::MAX, k.max(len)] };
      for p in probes {
        let r = no_panic(move || StatusList2021::default().get(p));
        match r {
          Err(msg) => return Ok(format!("StatusList2021::get({p}) on a {len}-entry list panicked: {msg}")),
          Ok(Ok(_)) if p >= len => return Ok(format!("get({p}) returned Ok beyond the end")),
          Ok(Err(_)) if p < len => return Ok(format!("get({p}) returned Err inside the list")),
          _ => {}
        }
      }
      Err("get behaves on the probed indices".to_owned())
    }
    "statuslist_set" => {
      let solver_in_range = (idx as u128) < (nbytes as u128) * 8;
      let probes: Vec<usize> = if solver_in_range { vec![idx % len] } else { vec![len, len + (idx % 8), usize::MAX, idx.max(len)] };
      for p in probes {
        let r = no_panic(move || {
          let mut l = StatusList2021::default();
          let r = l.set(p, val);
          (r.is_ok(), l == StatusList2021::default())
        });
        match r {
          Err(msg) => return Ok(format!("StatusList2021::set({p},{val}) panicked: {msg}")),
          Ok((true, _)) if p >= len => return Ok(format!("set({p}) returned Ok beyond the end")),
          Ok((false, _)) if p < len => return Ok(format!("set({p}) returned Err inside the list")),
          Ok((false, false)) => return Ok(format!("failed set({p}) changed the list")),
          _ => {}
        }
      }
      Err("set behaves on the probed indices".to_owned())
    }
    "statuslist_set_get" => {
      // reproduce by role: pre-state byte pattern from the counterexample, same bit offsets
      let byte = u(cex, "byte_at_idx") as u8;
      let base = 8 * 5; // any byte inside the list
      let i = base + idx % 8;
      let same_byte = idx / 8 == k / 8;
      let kk = if same_byte { base + k % 8 } else { base + 8 + k % 8 };
      let r = no_panic(move || {
        let mut l = StatusList2021::default();
        for bit in 0..8 {
          // establish the pre-state with value=true writes only (MSB-first or LSB-first does not matter: we read back)
          if byte & (0x80 >> bit) != 0 {
            l.set(base + bit, true).unwrap();
          }
        }
        if !same_byte {
          l.set(kk, true).unwrap();
        }
        let before = l.get(kk).unwrap();
        l.set(i, val).unwrap();
        let after = l.get(kk).unwrap();
        (before, after)
      });
      match r {
        Err(msg) => Ok(format!("set/get panicked: {msg}")),
        Ok((before, after)) => {
          let expect = if kk == i { val } else { before };
          if after != expect {
            Ok(format!(
              "pre-state byte {byte:#010b}: set({i},{val}) then get({kk}) = {after}, model says {expect} (entry {kk} was {before})"
            ))
          } else {
            // role-preserving search over the whole byte state space (256 x 8 x 8 x 2), still native
            for byte in 0u16..256 {
              for wi in 0..8usize {
                for val in [false, true] {
                  let mut l = StatusList2021::default();
                  for bit in 0..8 {
                    if (byte as u8) & (0x80 >> bit) != 0 {
                      l.set(base + bit, true).unwrap();
                    }
                  }
                  let before: Vec<bool> = (0..16).map(|j| l.get(base + j).unwrap()).collect();
                  l.set(base + wi, val).unwrap();
                  for j in 0..16 {
                    let expect = if j == wi { val } else { before[j] };
                    if l.get(base + j).unwrap() != expect {
                      return Ok(format!("byte {byte:#010b}: set({},{val}) changed entry {}", base + wi, base + j));
                    }
                  }
                }
              }
            }
            Err("set;get agrees with the bit-vector model".to_owned())
          }
        }
      }
    }
    _ => Err("?".to_owned()),
  }
}

use identity_core::common::Url;
use identity_credential::credential::{Credential, CredentialBuilder, Issuer, Subject};
use identity_credential::revocation::status_list_2021::{
  CredentialStatus, StatusList2021Credential, StatusList2021CredentialBuilder, StatusPurpose,
};

fn sl_credential(purpose: StatusPurpose) -> StatusList2021Credential {
  let url = Url::parse("http://example.com").unwrap();
  StatusList2021CredentialBuilder::new(StatusList2021::default())
    .issuer(Issuer::Url(url.clone()))
    .purpose(purpose)
    .subject_id(url)
    .build()
    .unwrap()
}

/// purpose-dependent irreversibility and status mapping, through the public credential API
/// (`update` + `MutStatusList::set_entry`, `set_credential_status`, `entry`), for both purposes; the solver's
/// index is transported by its bit offset.
pub fn oneway(cex: &Value) -> Result<String, String> {
  let idx = 800 + (u(cex, "idx") as usize % 8);
  let other = 800 + ((u(cex, "idx") as usize + 1) % 8);
  for purpose in [StatusPurpose::Revocation, StatusPurpose::Suspension] {
    for via_update in [true, false] {
      let r = no_panic(move || {
        let mut c = sl_credential(purpose);
        let mut holder: Credential = CredentialBuilder::default()
          .issuer(Url::parse("http://example.com/i").unwrap())
          .subject(Subject::with_id(Url::parse("http://example.com/s").unwrap()))
          .build()
          .unwrap();
        let mut log = Vec::new();
        let mut model = [false; 2];
        for (which, val) in [(0usize, false), (1, true), (0, true), (0, false), (1, false), (0, true)] {
          let i = if which == 0 { idx } else { other };
          let ok = if via_update {
            c.update(|l| l.set_entry(i, val)).is_ok()
          } else {
            c.set_credential_status(&mut holder, i, val).is_ok()
          };
          let forbidden = purpose == StatusPurpose::Revocation && !val && model[which];
          if ok == forbidden {
            log.push(format!("{purpose:?}: set({i},{val}) ok={ok} while entry was {}", model[which]));
          }
          if ok {
            model[which] = val;
          }
          for (w, j) in [(0usize, idx), (1, other)] {
            let want = match (purpose, model[w]) {
              (StatusPurpose::Revocation, true) => CredentialStatus::Revoked,
              (StatusPurpose::Suspension, true) => CredentialStatus::Suspended,
              _ => CredentialStatus::Valid,
            };
            match c.entry(j) {
              Ok(s) if s == want => {}
              other => log.push(format!("{purpose:?}: entry({j}) = {other:?}, model {want:?}")),
            }
          }
        }
        log
      });
      match r {
        Err(msg) => return Ok(format!("status list credential panicked: {msg}")),
        Ok(log) if !log.is_empty() => return Ok(log.join("; ")),
        _ => {}
      }
    }
  }
  // several writes in one update, in every order of changing / unchanged writes: all of them are stored
  let mut log: Vec<String> = Vec::new();
  for purpose in [StatusPurpose::Revocation, StatusPurpose::Suspension] {
    for pattern in 0..8u8 {
      let mut c = sl_credential(purpose);
      let _ = c.update(|l| l.set_entry(11, true));
      // three writes; bit k of `pattern` says whether write k changes something (sets a fresh entry) or repeats a value already there
      let writes: Vec<(usize, bool)> = (0..3).map(|k| if pattern >> k & 1 == 1 { (20 + k as usize, true) } else { (11, true) }).collect();
      let w2 = writes.clone();
      let res = c.update(move |l| {
        for (i, v) in &w2 {
          l.set_entry(*i, *v)?;
        }
        Ok(())
      });
      if res.is_err() {
        log.push(format!("{purpose:?}: update with the writes {writes:?} failed"));
        continue;
      }
      for (i, v) in &writes {
        let set = matches!(c.entry(*i), Ok(s) if s != identity_credential::revocation::status_list_2021::CredentialStatus::Valid);
        if set != *v {
          log.push(format!("{purpose:?}: after one update with the writes {writes:?} entry {i} reads {}", if set { "set" } else { "clear" }));
        }
      }
    }
  }
  if !log.is_empty() {
    return Ok(log.join("; "));
  }
  // a list credential that was *parsed* (not built), then updated, then published again: the published JSON carries the update
  {
    use identity_core::convert::{FromJson, ToJson};
    for purpose in [StatusPurpose::Revocation, StatusPurpose::Suspension] {
      let built = sl_credential(purpose);
      let Ok(text) = built.to_json() else {
        continue;
      };
      let Ok(mut parsed) = StatusList2021Credential::from_json(&text) else {
        log.push(format!("{purpose:?}: a published status list credential does not parse back"));
        continue;
      };
      if parsed.update(|l| l.set_entry(33, true)).is_err() {
        log.push(format!("{purpose:?}: update of a parsed list credential failed"));
        continue;
      }
      let republished = parsed.to_json().unwrap_or_default();
      match StatusList2021Credential::from_json(&republished) {
        Ok(again) => {
          if !matches!(again.entry(33), Ok(s) if s != CredentialStatus::Valid) {
            log.push(format!("{purpose:?}: entry 33 set on a parsed list credential is lost when the credential is published again"));
          }
          if !matches!(again.entry(34), Ok(CredentialStatus::Valid)) {
            log.push(format!("{purpose:?}: entry 34 reads as set after republishing"));
          }
        }
        Err(e) => log.push(format!("{purpose:?}: republished list credential does not parse: {e}")),
      }
      let plain: Credential = parsed.clone().into_inner();
      if !plain.to_json().map(|t| t == republished).unwrap_or(false) {
        log.push(format!("{purpose:?}: into_inner and the serialised form disagree"));
      }
    }
    if !log.is_empty() {
      return Ok(log.join("; "));
    }
  }
  // a refused un-revocation must leave the list untouched even if the update closure swallows the error (best-effort batch)
  let r = no_panic(move || {
    let mut log = Vec::new();
    let mut c = sl_credential(StatusPurpose::Revocation);
    if c.update(|l| l.set_entry(idx, true)).is_err() {
      log.push("revoking a fresh entry refused".to_owned());
    }
    let res = c.update(|l| {
      let refused = l.set_entry(idx, false).is_err();
      let _ = l.set_entry(other, true);
      if refused {
        Ok(())
      } else {
        Err(identity_credential::revocation::status_list_2021::StatusList2021CredentialError::UnreversibleRevocation)
      }
    });
    if res.is_err() {
      log.push("un-revoking a revoked entry inside update was not refused".to_owned());
    }
    if !matches!(c.entry(idx), Ok(CredentialStatus::Revoked)) {
      log.push(format!("Revocation: entry({idx}) is no longer revoked after a refused set_entry({idx}, false) inside update"));
    }
    if !matches!(c.entry(other), Ok(CredentialStatus::Revoked)) {
      log.push(format!("Revocation: entry({other}) set in the same update was lost"));
    }
    log
  });
  match r {
    Err(msg) => return Ok(format!("status list credential panicked: {msg}")),
    Ok(log) if !log.is_empty() => return Ok(log.join("; ")),
    _ => {}
  }
  Err("one-way revocation and status mapping agree with the model".to_owned())
}

/// string form round trip for lists of several sizes (up to 24 Mi entries = 3 MiB), sparse and dense content
pub fn codec(cex: &Value) -> Result<String, String> {
  let only: Option<String> = cex.get("only").and_then(Value::as_str).map(str::to_owned);
  let r = no_panic(move || -> Vec<String> {
    let mut log = Vec::new();
    // [new]: sizes round both ends of every residue mod 16: exactly ceil(n / 8) bytes, every in-range index usable, below minimum refused
    for n in (131_072usize..131_072 + 40).chain(1_000_000..1_000_000 + 17) {
      match StatusList2021::new(n) {
        Ok(mut l) => {
          if l.len() != (n + 7) / 8 * 8 {
            log.push(format!("[new] new({n}).len() = {}", l.len()));
          }
          if l.set(n - 1, true).is_err() || l.get(n - 1).ok() != Some(true) || l.get(0).ok() != Some(false) {
            log.push(format!("[new] last entry of new({n}) is not usable"));
          }
          if l.get(l.len()).is_ok() {
            log.push(format!("[new] index len() of new({n}) is readable"));
          }
        }
        Err(e) => log.push(format!("[new] new({n}) refused: {e}")),
      }
    }
    for n in [0usize, 1, 8, 131_071, 131_064] {
      if StatusList2021::new(n).is_ok() {
        log.push(format!("[new] new({n}) accepted below the minimum size"));
      }
    }
    if only.as_deref() == Some("[new]") {
      return log;
    }
    for entries in [131_072usize, 131_080, 1_000_000, 16_777_216, 16_777_224, 25_165_824] {
      let mut l = match StatusList2021::new(entries) {
        Ok(l) => l,
        Err(e) => {
          log.push(format!("list of {entries} entries refused: {e}"));
          continue;
        }
      };
      let n = l.len();
      for i in [0usize, 1, 7, 8, n / 2, n - 9, n - 8, n - 1] {
        let _ = l.set(i, true);
      }
      let text = l.clone().into_encoded_str();
      match StatusList2021::try_from_encoded_str(&text) {
        Ok(back) => {
          if back.len() != n {
            log.push(format!("list of {n} entries decodes to {} entries", back.len()));
          } else if back != l {
            log.push(format!("list of {n} entries decodes to different content"));
          }
        }
        Err(e) => log.push(format!("list of {n} entries does not decode from its own string form: {e}")),
      }
    }
    log
  });
  match r {
    Err(msg) => Ok(format!("status list codec panicked: {msg}")),
    Ok(log) if !log.is_empty() => Ok(log.join("; ")),
    Ok(_) => Err("status list codec: every size round-trips".to_owned()),
  }
}

/// status evaluation against a list credential: id and purpose of the entry have to match the list before an entry is read
pub fn status_eval(_cex: &Value) -> Result<String, String> {
  use identity_core::common::Object;
  use identity_credential::revocation::status_list_2021::StatusList2021Entry;
  use identity_credential::validator::{JwtCredentialValidatorUtils, JwtValidationError, StatusCheck};
  let r = no_panic(|| -> Vec<String> {
    let mut log = Vec::new();
    for list_purpose in [StatusPurpose::Revocation, StatusPurpose::Suspension] {
      let mut list = sl_credential(list_purpose);
      let _ = list.update(|l| l.set_entry(420, true));
      let list_id = list.id.clone().unwrap();
      for entry_purpose in [StatusPurpose::Revocation, StatusPurpose::Suspension] {
        for (idx, set) in [(420usize, true), (421, false)] {
          for same_list in [true, false] {
          for own_id in 0..3u8 {
            let url = if same_list { list_id.clone() } else { Url::parse("http://example.com/other-list").unwrap() };
            // the entry's own id is not what names the list: absent, the spec's "<list>#<index>" shape, or - for an entry of another
            // list - this list's URL
            let id = match own_id {
              0 => None,
              1 => Some(Url::parse(format!("{url}#{idx}")).unwrap()),
              _ => Some(list_id.clone()),
            };
            let entry = StatusList2021Entry::new(url, entry_purpose, idx, id);
            let cred: Credential<Object> = CredentialBuilder::default()
              .issuer(Url::parse("http://example.com/i").unwrap())
              .subject(Subject::with_id(Url::parse("http://example.com/s").unwrap()))
              .status(entry)
              .build()
              .unwrap();
            for check in [StatusCheck::Strict, StatusCheck::SkipUnsupported, StatusCheck::SkipAll] {
            let got = JwtCredentialValidatorUtils::check_status_with_status_list_2021(&cred, &list, check);
            let want = if check == StatusCheck::SkipAll {
              "ok"
            } else if !same_list || entry_purpose != list_purpose {
              "invalid"
            } else if !set {
              "ok"
            } else if list_purpose == StatusPurpose::Revocation {
              "revoked"
            } else {
              "suspended"
            };
            let have = match &got {
              Ok(()) => "ok",
              Err(JwtValidationError::Revoked) => "revoked",
              Err(JwtValidationError::Suspended) => "suspended",
              Err(_) => "invalid",
            };
            if have != want {
              log.push(format!("list {list_purpose:?}, entry {entry_purpose:?} index {idx} (set={set}), same list {same_list}, own id form {own_id}, {check:?}: reported {have}, expected {want}"));
            }
            }
          }
          }
        }
      }
    }
    log
  });
  match r {
    Err(msg) => Ok(format!("status evaluation panicked: {msg}")),
    Ok(log) if !log.is_empty() => Ok(log[..log.len().min(4)].join("; ")),
    Ok(_) => Err("status evaluation agrees with the list, its id and its purpose".to_owned()),
  }
}
