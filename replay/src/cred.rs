//! Native battery for C02 / C03 (JWT credential and presentation validation): real validators, real documents,
//! toy signature scheme (see jws.rs).  Confirmation of solver candidates only.
use crate::jws::{key, toy_sign, toy_verify};
use crate::*;
use identity_core::common::{Duration, Object, Timestamp, Url};
use identity_core::convert::FromJson;
use identity_credential::credential::{Credential, CredentialBuilder, Jwt, Subject};
use identity_credential::presentation::{JwtPresentationOptions, Presentation, PresentationBuilder};
use identity_credential::validator::{
  FailFast, JwtCredentialValidationOptions, JwtCredentialValidator, JwtPresentationValidationOptions, JwtPresentationValidator,
  JwtValidationError, StatusCheck, SubjectHolderRelationship,
};
use identity_did::{CoreDID, DIDUrl, DID};
use identity_document::document::CoreDocument;
use identity_document::verifiable::JwsVerificationOptions;
use identity_jose::jwk::Jwk;
use identity_jose::jws::{CompactJwsEncoder, JwsAlgorithm, JwsHeader, JwsVerifierFn};
use identity_verification::{MethodScope, VerificationMethod};

pub const ISSUER: &str = "did:example:issuer";
pub const HOLDER: &str = "did:example:holder";
pub const OTHER: &str = "did:example:other";

pub fn doc(did: &str, methods: &[(&str, &str, MethodScope)]) -> CoreDocument {
  let id = CoreDID::parse(did).unwrap();
  let mut d = CoreDocument::builder(Object::new()).id(id.clone()).build().unwrap();
  for (owner, frag, scope) in methods {
    let owner_did = CoreDID::parse(owner).unwrap();
    let tag = format!("{}{}", owner, frag);
    let m = VerificationMethod::new_from_jwk(owner_did, key(&tag, None), Some(frag)).unwrap();
    d.insert_method(m, *scope).unwrap();
  }
  d
}

/// the key (toy) of method `frag` owned by `owner`
pub fn method_key(owner: &str, frag: &str) -> Jwk {
  key(&format!("{owner}{frag}"), None)
}

pub fn sign_jwt(claims: &str, kid: Option<&str>, nonce: Option<&str>, signing_key: &Jwk) -> Jwt {
  let mut h = JwsHeader::new();
  h.set_alg(JwsAlgorithm::EdDSA);
  if let Some(k) = kid {
    h.set_kid(k);
  }
  if let Some(n) = nonce {
    h.set_nonce(n);
  }
  h.set_typ("JWT");
  let e = CompactJwsEncoder::new(claims.as_bytes(), &h).unwrap();
  let sig = toy_sign(signing_key, e.signing_input());
  Jwt::new(e.into_jws(&sig))
}

pub fn credential(issuer: &str, subject: &str, issued: Timestamp, expires: Option<Timestamp>) -> Credential {
  let mut b = CredentialBuilder::default()
    .id(Url::parse("https://example.edu/credentials/3732").unwrap())
    .issuer(Url::parse(issuer).unwrap())
    .type_("UniversityDegreeCredential")
    .subject(Subject::with_id(Url::parse(subject).unwrap()))
    .issuance_date(issued);
  if let Some(e) = expires {
    b = b.expiration_date(e);
  }
  b.build().unwrap()
}

fn ts(s: i64) -> Timestamp {
  Timestamp::from_unix(s).unwrap()
}

pub fn credential_validation(cex: &Value) -> Result<String, String> {
  let only: Option<String> = cex.get("only").and_then(Value::as_str).map(str::to_owned);
  let r = no_panic(|| -> Vec<String> {
    let log = std::cell::RefCell::new(Vec::<String>::new());
    let validator = JwtCredentialValidator::with_signature_verifier(JwsVerifierFn::from(toy_verify));
    let issuer = doc(
      ISSUER,
      &[
        (ISSUER, "#assert", MethodScope::assertion_method()),
        (ISSUER, "#auth", MethodScope::authentication()),
        (ISSUER, "#general", MethodScope::VerificationMethod),
        (OTHER, "#foreign", MethodScope::assertion_method()),
      ],
    );
    let other_doc = doc(OTHER, &[(OTHER, "#assert", MethodScope::assertion_method())]);
    let t0 = 1_700_000_000i64;
    let cred = credential(ISSUER, HOLDER, ts(t0), Some(ts(t0 + 1000)));
    let claims = cred.serialize_jwt(None).unwrap();
    let kid = format!("{ISSUER}#assert");
    let good = sign_jwt(&claims, Some(&kid), None, &method_key(ISSUER, "#assert"));
    let base = || {
      JwtCredentialValidationOptions::default()
        .latest_issuance_date(ts(t0))
        .earliest_expiry_date(ts(t0 + 1000))
    };
    let run = |jwt: &Jwt, d: &CoreDocument, o: &JwtCredentialValidationOptions, ff: FailFast| {
      validator.validate::<_, Object>(jwt, d, o, ff).map_err(|e| e.validation_errors)
    };
    let expect = |name: &str, res: Result<_, Vec<JwtValidationError>>, ok: bool| {
      let res: Result<identity_credential::validator::DecodedJwtCredential<Object>, Vec<JwtValidationError>> = res;
      if res.is_ok() != ok {
        log.borrow_mut().push(format!("{name}: {} (expected {})", if res.is_ok() { "accepted" } else { "rejected" }, if ok { "acceptance" } else { "rejection" }));
      }
      res
    };
    // baseline, with boundary-equal dates
    if let Ok(d) = expect("valid credential at the boundary seconds", run(&good, &issuer, &base(), FailFast::FirstError), true) {
      if d.credential != cred {
        log.borrow_mut().push("credential returned differs from the one signed".into());
      }
    }
    // dates
    expect("issued 1s after the latest-issuance bound", run(&good, &issuer, &base().latest_issuance_date(ts(t0 - 1)), FailFast::FirstError), false);
    expect("expires 1s before the earliest-expiry bound", run(&good, &issuer, &base().earliest_expiry_date(ts(t0 + 1001)), FailFast::FirstError), false);
    expect("issued 1s before the bound", run(&good, &issuer, &base().latest_issuance_date(ts(t0 + 1)), FailFast::FirstError), true);
    expect("expires 1s after the bound", run(&good, &issuer, &base().earliest_expiry_date(ts(t0 + 999)), FailFast::FirstError), true);
    // all errors
    match run(&good, &issuer, &base().latest_issuance_date(ts(t0 - 1)).earliest_expiry_date(ts(t0 + 1001)), FailFast::AllErrors) {
      Err(e) if e.len() == 2 => {}
      other => log.borrow_mut().push(format!("all-errors mode with two failing conditions reported {:?}", other.map(|_| ()).map_err(|e| e.len()))),
    }
    match run(&good, &issuer, &base().latest_issuance_date(ts(t0 - 1)).earliest_expiry_date(ts(t0 + 1001)), FailFast::FirstError) {
      Err(e) if e.len() == 1 => {}
      other => log.borrow_mut().push(format!("first-error mode with two failing conditions reported {:?}", other.map(|_| ()).map_err(|e| e.len()))),
    }
    // nonce on either side
    let with_nonce = sign_jwt(&claims, Some(&kid), Some("n1"), &method_key(ISSUER, "#assert"));
    let vo = |n: Option<&str>| {
      let mut o = JwsVerificationOptions::default();
      if let Some(n) = n {
        o = o.nonce(n);
      }
      o
    };
    expect("nonce n1 vs options n1", run(&with_nonce, &issuer, &base().verification_options(vo(Some("n1"))), FailFast::FirstError), true);
    expect("nonce n1 vs options n2", run(&with_nonce, &issuer, &base().verification_options(vo(Some("n2"))), FailFast::FirstError), false);
    expect("nonce n1 vs no nonce configured", run(&with_nonce, &issuer, &base(), FailFast::FirstError), false);
    expect("no nonce vs options n1", run(&good, &issuer, &base().verification_options(vo(Some("n1"))), FailFast::FirstError), false);
    // key / kid / scope
    let wrong_key = sign_jwt(&claims, Some(&kid), None, &method_key(ISSUER, "#auth"));
    expect("signed with another method's key", run(&wrong_key, &issuer, &base(), FailFast::FirstError), false);
    let auth_kid = format!("{ISSUER}#auth");
    let by_auth = sign_jwt(&claims, Some(&auth_kid), None, &method_key(ISSUER, "#auth"));
    expect("authentication method, no scope", run(&by_auth, &issuer, &base(), FailFast::FirstError), true);
    expect(
      "authentication method under assertionMethod scope",
      run(&by_auth, &issuer, &base().verification_options(JwsVerificationOptions::default().method_scope(MethodScope::assertion_method())), FailFast::FirstError),
      false,
    );
    expect(
      "assertion method under assertionMethod scope",
      run(&good, &issuer, &base().verification_options(JwsVerificationOptions::default().method_scope(MethodScope::assertion_method())), FailFast::FirstError),
      true,
    );
    expect("kid absent", run(&sign_jwt(&claims, None, None, &method_key(ISSUER, "#assert")), &issuer, &base(), FailFast::FirstError), false);
    expect(
      "kid absent but method id configured",
      run(
        &sign_jwt(&claims, None, None, &method_key(ISSUER, "#assert")),
        &issuer,
        &base().verification_options(JwsVerificationOptions::default().method_id(DIDUrl::parse(&kid).unwrap())),
        FailFast::FirstError,
      ),
      true,
    );
    expect(
      "configured method id overrides kid (signed by #assert, configured #auth)",
      run(&good, &issuer, &base().verification_options(JwsVerificationOptions::default().method_id(DIDUrl::parse(&auth_kid).unwrap())), FailFast::FirstError),
      false,
    );
    // unset bounds default to the current time, each on its own: a credential issued in the future / already expired is refused
    // whatever the *other* bound says, and an honest one is accepted
    {
      let now = Timestamp::now_utc().to_unix();
      let day = 86400;
      let mk = |issued: i64, expires: i64| {
        let c = credential(ISSUER, HOLDER, ts(issued), Some(ts(expires)));
        sign_jwt(&c.serialize_jwt(None).unwrap(), Some(&kid), None, &method_key(ISSUER, "#assert"))
      };
      let plain = || JwtCredentialValidationOptions::default();
      let future_issued = mk(now + 10 * day, now + 100 * day);
      let current = mk(now - 10 * day, now + 10 * day);
      let expired = mk(now - 100 * day, now - 10 * day);
      for ff in [FailFast::FirstError, FailFast::AllErrors] {
        expect("[default-bounds] issued in the future, no bounds configured", run(&future_issued, &issuer, &plain(), ff), false);
        expect("[default-bounds] issued in the future, only an expiry bound (later than the issuance) configured", run(&future_issued, &issuer, &plain().earliest_expiry_date(ts(now + 50 * day)), ff), false);
        expect("[default-bounds] issued in the future, only an expiry bound in the past configured", run(&future_issued, &issuer, &plain().earliest_expiry_date(ts(now - 50 * day)), ff), false);
        expect("[default-bounds] current credential, no bounds configured", run(&current, &issuer, &plain(), ff), true);
        expect("[default-bounds] current credential, only an expiry bound in the past configured", run(&current, &issuer, &plain().earliest_expiry_date(ts(now - 50 * day)), ff), true);
        expect("[default-bounds] current credential, only an issuance bound in the future configured", run(&current, &issuer, &plain().latest_issuance_date(ts(now + 50 * day)), ff), true);
        expect("[default-bounds] expired credential, no bounds configured", run(&expired, &issuer, &plain(), ff), false);
        expect("[default-bounds] expired credential, only an issuance bound (earlier than the expiry) configured", run(&expired, &issuer, &plain().latest_issuance_date(ts(now - 50 * day)), ff), false);
        expect("[default-bounds] expired credential, only an issuance bound in the future configured", run(&expired, &issuer, &plain().latest_issuance_date(ts(now + 50 * day)), ff), false);
      }
    }
    expect("validated against another issuer document", run(&good, &other_doc, &base(), FailFast::FirstError), false);
    // method of a foreign DID listed in the issuer document: method DID != document id / credential issuer
    let foreign_kid = format!("{OTHER}#foreign");
    let by_foreign = sign_jwt(&claims, Some(&foreign_kid), None, &method_key(OTHER, "#foreign"));
    expect("signed by a foreign-DID method embedded in the issuer document", run(&by_foreign, &issuer, &base(), FailFast::FirstError), false);
    // credential issuer differs from the signing DID
    let cred2 = credential(OTHER, HOLDER, ts(t0), Some(ts(t0 + 1000)));
    let claims2 = cred2.serialize_jwt(None).unwrap();
    expect("credential issuer differs from the verifying method's DID", run(&sign_jwt(&claims2, Some(&kid), None, &method_key(ISSUER, "#assert")), &issuer, &base(), FailFast::FirstError), false);
    // several trusted issuers (verify_signature): the credential's issuer has to be the DID of the method that verified
    {
      let vs = |jwt: &Jwt, docs: &[CoreDocument]| validator.verify_signature::<_, Object>(jwt, docs, &JwsVerificationOptions::default()).is_ok();
      let other_kid = format!("{OTHER}#assert");
      let forged = sign_jwt(&claims2, Some(&kid), None, &method_key(ISSUER, "#assert")); // names OTHER, signed by ISSUER
      let honest_other = sign_jwt(&claims2, Some(&other_kid), None, &method_key(OTHER, "#assert"));
      for (name, jwt, docs, want) in [
        ("names trusted B, signed by trusted A (A,B)", &forged, vec![issuer.clone(), other_doc.clone()], false),
        ("names trusted B, signed by trusted A (B,A)", &forged, vec![other_doc.clone(), issuer.clone()], false),
        ("honest token of A among (A,B)", &good, vec![issuer.clone(), other_doc.clone()], true),
        ("honest token of B among (A,B)", &honest_other, vec![issuer.clone(), other_doc.clone()], true),
        ("honest token of B, only A trusted", &honest_other, vec![issuer.clone()], false),
      ] {
        if vs(jwt, &docs) != want {
          log.borrow_mut().push(format!("verify_signature with several trusted issuers: {name}: {}", if want { "rejected" } else { "accepted" }));
        }
      }
    }
    // an expiration that sits only inside vc (no exp claim) must not be dropped: expired credential stays rejected
    {
      let mut v: serde_json::Value = serde_json::from_str(&claims).unwrap();
      v.as_object_mut().unwrap().remove("exp");
      v["vc"]["expirationDate"] = serde_json::json!(ts(t0 + 1000).to_rfc3339());
      let jwt = sign_jwt(&v.to_string(), Some(&kid), None, &method_key(ISSUER, "#assert"));
      expect("vc.expirationDate without exp, expiry bound after it", run(&jwt, &issuer, &base().earliest_expiry_date(ts(t0 + 5000)), FailFast::FirstError), false);
    }
    // ---- unit bodies: structure and status
    {
      let signed = |v: &serde_json::Value| sign_jwt(&v.to_string(), Some(&kid), None, &method_key(ISSUER, "#assert"));
      let base_claims: serde_json::Value = serde_json::from_str(&claims).unwrap();
      // context order: the base context has to be the first entry
      for (name, ctx, want) in [
        ("base context first of two", serde_json::json!(["https://www.w3.org/2018/credentials/v1", "https://www.w3.org/2018/credentials/examples/v1"]), true),
        ("base context second of two", serde_json::json!(["https://www.w3.org/2018/credentials/examples/v1", "https://www.w3.org/2018/credentials/v1"]), false),
        ("base context missing", serde_json::json!(["https://www.w3.org/2018/credentials/examples/v1"]), false),
      ] {
        let mut v = base_claims.clone();
        v["vc"]["@context"] = ctx;
        for ff in [FailFast::FirstError, FailFast::AllErrors] {
          if run(&signed(&v), &issuer, &base(), ff).is_ok() != want {
            log.borrow_mut().push(format!("[unit] structure: {name}: {}", if want { "rejected" } else { "accepted" }));
          }
        }
      }
      let mut v = base_claims.clone();
      v["vc"]["type"] = serde_json::json!(["UniversityDegreeCredential"]);
      if run(&signed(&v), &issuer, &base(), FailFast::FirstError).is_ok() {
        log.borrow_mut().push("[unit] structure: base type missing: accepted".into());
      }
      // status: issuer document with a bitmap service in which index 42 is revoked
      use identity_credential::revocation::{RevocationBitmap, RevocationDocumentExt};
      use identity_credential::validator::StatusCheck;
      let mut issuer_rb = issuer.clone();
      let sid = DIDUrl::parse(format!("{ISSUER}#revocation")).unwrap();
      let mut bm = RevocationBitmap::new();
      bm.revoke(42);
      issuer_rb.insert_service(bm.to_service(sid.clone()).unwrap()).unwrap();
      let status = |idx: serde_json::Value, id_idx: &str, ty: &str| serde_json::json!({"id": format!("{ISSUER}?index={id_idx}#revocation"), "type": ty, "revocationBitmapIndex": idx});
      let cases: Vec<(&str, serde_json::Value, StatusCheck, bool)> = vec![
        ("revoked index, strict", status(serde_json::json!("42"), "42", "RevocationBitmap2022"), StatusCheck::Strict, false),
        ("revoked index, SkipUnsupported", status(serde_json::json!("42"), "42", "RevocationBitmap2022"), StatusCheck::SkipUnsupported, false),
        ("revoked index, SkipAll", status(serde_json::json!("42"), "42", "RevocationBitmap2022"), StatusCheck::SkipAll, true),
        ("valid index, strict", status(serde_json::json!("7"), "7", "RevocationBitmap2022"), StatusCheck::Strict, true),
        ("index as a JSON number, SkipUnsupported", status(serde_json::json!(42), "42", "RevocationBitmap2022"), StatusCheck::SkipUnsupported, false),
        ("index property and id query disagree, SkipUnsupported", status(serde_json::json!("42"), "7", "RevocationBitmap2022"), StatusCheck::SkipUnsupported, false),
        ("index property and id query disagree, strict", status(serde_json::json!("42"), "7", "RevocationBitmap2022"), StatusCheck::Strict, false),
        // other query parameters in front of / behind the index query do not switch the comparison off
        ("index query after another parameter, disagreeing with the property (property names a valid index)", status(serde_json::json!("7"), "42&x=1", "RevocationBitmap2022").as_object().map(|o| { let mut o = o.clone(); o.insert("id".into(), serde_json::json!(format!("{ISSUER}?versionId=1&index=42#revocation"))); serde_json::Value::Object(o) }).unwrap(), StatusCheck::Strict, false),
        ("index query before another parameter, disagreeing", status(serde_json::json!("7"), "42&versionId=1", "RevocationBitmap2022"), StatusCheck::Strict, false),
        ("two index queries, the second disagreeing", status(serde_json::json!("7"), "7&index=42", "RevocationBitmap2022"), StatusCheck::Strict, false),
        ("index query after another parameter, agreeing", status(serde_json::json!("7"), "7", "RevocationBitmap2022").as_object().map(|o| { let mut o = o.clone(); o.insert("id".into(), serde_json::json!(format!("{ISSUER}?versionId=1&index=7#revocation"))); serde_json::Value::Object(o) }).unwrap(), StatusCheck::Strict, true),
        // every u32 is an index: ten-digit values, the largest one, leading zeros as u32's parser takes them
        ("index 1000000000 (not revoked)", status(serde_json::json!("1000000000"), "1000000000", "RevocationBitmap2022"), StatusCheck::Strict, true),
        ("index 4294967295 (not revoked)", status(serde_json::json!("4294967295"), "4294967295", "RevocationBitmap2022"), StatusCheck::Strict, true),
        ("index 999999999 (not revoked)", status(serde_json::json!("999999999"), "999999999", "RevocationBitmap2022"), StatusCheck::Strict, true),
        ("index 4294967296 (not a u32)", status(serde_json::json!("4294967296"), "4294967296", "RevocationBitmap2022"), StatusCheck::Strict, false),
        ("index 0000000042 (revoked, written with leading zeros)", status(serde_json::json!("0000000042"), "42", "RevocationBitmap2022"), StatusCheck::Strict, false),
        ("other status type, SkipUnsupported", status(serde_json::json!("42"), "42", "SomethingElse2020"), StatusCheck::SkipUnsupported, true),
        ("other status type, strict", status(serde_json::json!("42"), "42", "SomethingElse2020"), StatusCheck::Strict, false),
      ];
      for (name, st, mode, want) in cases {
        let mut v = base_claims.clone();
        v["vc"]["credentialStatus"] = st;
        let got = run(&signed(&v), &issuer_rb, &base().status_check(mode), FailFast::FirstError).is_ok();
        if got != want {
          log.borrow_mut().push(format!("[unit] status: {name}: {}", if want { "rejected" } else { "accepted" }));
        }
      }
      // all-errors mode: the status unit reports alongside the others (revoked + expired, revoked + wrong holder), first-error mode one
      {
        let mut v = base_claims.clone();
        v["vc"]["credentialStatus"] = status(serde_json::json!("42"), "42", "RevocationBitmap2022");
        let jwt = signed(&v);
        for (what, opts, n) in [
          ("revoked and expired", base().earliest_expiry_date(ts(t0 + 5000)), 2usize),
          ("revoked, expired and issued too late", base().earliest_expiry_date(ts(t0 + 5000)).latest_issuance_date(ts(t0 - 5000)), 3),
          ("revoked and held by someone else", base().subject_holder_relationship(Url::parse(OTHER).unwrap(), SubjectHolderRelationship::AlwaysSubject), 2),
          ("revoked only", base(), 1),
        ] {
          match run(&jwt, &issuer_rb, &opts, FailFast::AllErrors) {
            Err(e) if e.len() == n && e.iter().any(|x| matches!(x, JwtValidationError::Revoked)) => {}
            other => log.borrow_mut().push(format!("[unit] all-errors mode, {what}: reported {:?}", other.map(|_| ()).map_err(|e| e.iter().map(|x| x.to_string()).collect::<Vec<_>>()))),
          }
          match run(&jwt, &issuer_rb, &opts, FailFast::FirstError) {
            Err(e) if e.len() == 1 => {}
            other => log.borrow_mut().push(format!("[unit] first-error mode, {what}: reported {:?}", other.map(|_| ()).map_err(|e| e.len()))),
          }
        }
      }
      // the issuer is a DID: a DID URL built on the trusted issuer's DID (fragment / query / path) is not that issuer
      for suffix in ["#assert", "?versionId=1", "/path", "#"] {
        let mut v = base_claims.clone();
        v["iss"] = serde_json::json!(format!("{ISSUER}{suffix}"));
        let jwt = signed(&v);
        if run(&jwt, &issuer, &base(), FailFast::FirstError).is_ok() {
          log.borrow_mut().push(format!("[issuer-url] a credential issued by {ISSUER}{suffix} is accepted against the document of {ISSUER}"));
        }
        if identity_credential::validator::JwtCredentialValidatorUtils::extract_issuer_from_jwt::<identity_did::CoreDID>(&jwt).is_ok() {
          log.borrow_mut().push(format!("[issuer-url] extract_issuer_from_jwt yields a DID for the issuer {ISSUER}{suffix}"));
        }
      }
      let _ = issuer_rb.resolve_revocation_bitmap(sid.into());
    }
    // subject-holder relationship
    let holder = Url::parse(HOLDER).unwrap();
    let stranger = Url::parse(OTHER).unwrap();
    expect("subject is holder (AlwaysSubject)", run(&good, &issuer, &base().subject_holder_relationship(holder.clone(), SubjectHolderRelationship::AlwaysSubject), FailFast::FirstError), true);
    expect("subject is not holder (AlwaysSubject)", run(&good, &issuer, &base().subject_holder_relationship(stranger.clone(), SubjectHolderRelationship::AlwaysSubject), FailFast::FirstError), false);
    expect("subject is not holder (Any)", run(&good, &issuer, &base().subject_holder_relationship(stranger.clone(), SubjectHolderRelationship::Any), FailFast::FirstError), true);
    // both nbf and iat present: nbf is the issuance date - for the bound and in what is handed back
    {
      let c = credential(ISSUER, HOLDER, ts(t0), Some(ts(t0 + 1000)));
      let basev: serde_json::Value = serde_json::from_str(&c.serialize_jwt(None).unwrap()).unwrap();
      for (nbf, iat, want) in [(t0 + 500, t0 - 500, false), (t0 - 500, t0 + 500, true), (t0, t0, true), (t0 + 1, t0, false), (t0, t0 + 1, true)] {
        let mut v = basev.clone();
        v["nbf"] = serde_json::json!(nbf);
        v["iat"] = serde_json::json!(iat);
        let jwt = sign_jwt(&v.to_string(), Some(&kid), None, &method_key(ISSUER, "#assert"));
        if let Ok(d) = expect(&format!("[dates] nbf = bound{:+}, iat = bound{:+}", nbf - t0, iat - t0), run(&jwt, &issuer, &base(), FailFast::FirstError), want) {
          if d.credential.issuance_date != ts(nbf) {
            log.borrow_mut().push(format!("[dates] nbf and iat present: the credential handed back is issued at {:?}, nbf says {:?}", d.credential.issuance_date, ts(nbf)));
          }
        }
      }
    }
    // the whole relationship table: subject id (holder / someone else / absent) x nonTransferable (absent / false / true) x relation
    {
      for (sname, sid) in [("the holder", Some(HOLDER)), ("someone else", Some(OTHER)), ("absent", None)] {
        for nt in [None, Some(false), Some(true)] {
          let mut v = serde_json::json!({
            "@context": ["https://www.w3.org/2018/credentials/v1"],
            "id": "https://example.edu/credentials/1",
            "type": ["VerifiableCredential"],
            "issuer": ISSUER,
            "issuanceDate": ts(t0).to_rfc3339(),
            "expirationDate": ts(t0 + 1000).to_rfc3339(),
            "credentialSubject": {"degree": "x"}
          });
          if let Some(id) = sid {
            v["credentialSubject"]["id"] = serde_json::json!(id);
          }
          if let Some(b) = nt {
            v["nonTransferable"] = serde_json::json!(b);
          }
          let Ok(c) = Credential::<Object>::from_json_value(v) else {
            continue;
          };
          let jwt = sign_jwt(&c.serialize_jwt(None).unwrap(), Some(&kid), None, &method_key(ISSUER, "#assert"));
          for (rname, rel) in [("AlwaysSubject", SubjectHolderRelationship::AlwaysSubject), ("SubjectOnNonTransferable", SubjectHolderRelationship::SubjectOnNonTransferable), ("Any", SubjectHolderRelationship::Any)] {
            let is_holder = sid == Some(HOLDER);
            let want = match rname {
              "AlwaysSubject" => is_holder,
              "SubjectOnNonTransferable" => is_holder || nt != Some(true),
              _ => true,
            };
            for ff in [FailFast::FirstError, FailFast::AllErrors] {
              expect(&format!("[unit] holder relationship {rname}: subject id is {sname}, nonTransferable {nt:?}"), run(&jwt, &issuer, &base().subject_holder_relationship(holder.clone(), rel), ff), want);
            }
          }
        }
      }
    }
    // tampering
    let mut t = good.as_str().to_owned().into_bytes();
    let n = t.len();
    t[n / 2] ^= 1;
    expect("token with one flipped bit", run(&Jwt::new(String::from_utf8_lossy(&t).into_owned()), &issuer, &base(), FailFast::FirstError), false);
    log.into_inner()
  });
  match r {
    Err(msg) => Ok(format!("credential validation panicked: {msg}")),
    Ok(log) => {
      let log: Vec<String> = log.into_iter().filter(|l| only.as_ref().map(|o| l.contains(o.as_str())).unwrap_or(true)).collect();
      if log.is_empty() {
        Err("credential validation battery: all expectations met".to_owned())
      } else {
        Ok(format!("{} deviations, e.g. {}", log.len(), log[..log.len().min(4)].join("; ")))
      }
    }
  }
}

pub fn presentation_validation(cex: &Value) -> Result<String, String> {
  let only: Option<String> = cex.get("only").and_then(Value::as_str).map(str::to_owned);
  let r = no_panic(|| -> Vec<String> {
    let log = std::cell::RefCell::new(Vec::<String>::new());
    let validator = JwtPresentationValidator::with_signature_verifier(JwsVerifierFn::from(toy_verify));
    let holder = doc(
      HOLDER,
      &[
        (HOLDER, "#auth", MethodScope::authentication()),
        (HOLDER, "#assert", MethodScope::assertion_method()),
        (OTHER, "#foreign", MethodScope::authentication()),
      ],
    );
    let other_doc = doc(OTHER, &[(OTHER, "#auth", MethodScope::authentication())]);
    let t0 = 1_700_000_000i64;
    let pres: Presentation<Jwt> = PresentationBuilder::new(Url::parse(HOLDER).unwrap(), Object::new())
      .id(Url::parse("https://example.org/p/1").unwrap())
      .build()
      .unwrap();
    let popts = JwtPresentationOptions::default()
      .issuance_date(ts(t0))
      .expiration_date(ts(t0 + 1000))
      .audience(Url::parse("https://verifier.example").unwrap());
    let claims = pres.serialize_jwt(&popts).unwrap();
    let kid = format!("{HOLDER}#auth");
    let good = sign_jwt(&claims, Some(&kid), None, &method_key(HOLDER, "#auth"));
    let base = || JwtPresentationValidationOptions::default().latest_issuance_date(ts(t0)).earliest_expiry_date(ts(t0 + 1000));
    let run = |jwt: &Jwt, d: &CoreDocument, o: &JwtPresentationValidationOptions| validator.validate::<_, Jwt, Object>(jwt, d, o).map_err(|e| e.presentation_validation_errors.len());
    let expect = |name: &str, res: Result<identity_credential::validator::DecodedJwtPresentation<Jwt, Object>, usize>, ok: bool| {
      if res.is_ok() != ok {
        log.borrow_mut().push(format!("{name}: {} (expected {})", if res.is_ok() { "accepted" } else { "rejected" }, if ok { "acceptance" } else { "rejection" }));
      }
      res
    };
    if let Ok(d) = expect("valid presentation at the boundary seconds", run(&good, &holder, &base()), true) {
      if d.presentation != pres || d.expiration_date != Some(ts(t0 + 1000)) || d.issuance_date != Some(ts(t0)) || d.aud != Some(Url::parse("https://verifier.example").unwrap()) {
        log.borrow_mut().push("decoded presentation / dates / audience differ from what was signed".into());
      }
    }
    expect("issued 1s after the bound", run(&good, &holder, &base().latest_issuance_date(ts(t0 - 1))), false);
    expect("expires 1s before the bound", run(&good, &holder, &base().earliest_expiry_date(ts(t0 + 1001))), false);
    expect("issued 1s before the bound", run(&good, &holder, &base().latest_issuance_date(ts(t0 + 1))), true);
    expect("expires 1s after the bound", run(&good, &holder, &base().earliest_expiry_date(ts(t0 + 999))), true);
    // kid as fragment only
    expect("kid given as fragment", run(&sign_jwt(&claims, Some("#auth"), None, &method_key(HOLDER, "#auth")), &holder, &base()), true);
    expect("signed with another method's key", run(&sign_jwt(&claims, Some(&kid), None, &method_key(HOLDER, "#assert")), &holder, &base()), false);
    let vo = JwsVerificationOptions::default();
    expect("scope assertionMethod excludes #auth", run(&good, &holder, &base().presentation_verifier_options(vo.clone().method_scope(MethodScope::assertion_method()))), false);
    expect("scope authentication includes #auth", run(&good, &holder, &base().presentation_verifier_options(vo.clone().method_scope(MethodScope::authentication()))), true);
    expect("nonce configured but absent in token", run(&good, &holder, &base().presentation_verifier_options(vo.clone().nonce("n1"))), false);
    let with_nonce = sign_jwt(&claims, Some(&kid), Some("n1"), &method_key(HOLDER, "#auth"));
    expect("nonce n1 both sides", run(&with_nonce, &holder, &base().presentation_verifier_options(vo.clone().nonce("n1"))), true);
    expect("nonce n1 vs n2", run(&with_nonce, &holder, &base().presentation_verifier_options(vo.clone().nonce("n2"))), false);
    expect("nonce in token, none configured", run(&with_nonce, &holder, &base()), false);
    expect("validated against another holder document", run(&good, &other_doc, &base()), false);
    // issuer claim must equal the holder document id: presentation of OTHER signed by a method listed in HOLDER's doc
    let pres2: Presentation<Jwt> = PresentationBuilder::new(Url::parse(OTHER).unwrap(), Object::new()).build().unwrap();
    let claims2 = pres2.serialize_jwt(&popts).unwrap();
    expect("iss differs from the holder document id", run(&sign_jwt(&claims2, Some(&kid), None, &method_key(HOLDER, "#auth")), &holder, &base()), false);
    let foreign_kid = format!("{OTHER}#foreign");
    expect(
      "foreign-DID method listed in the holder document signs for the foreign DID",
      run(&sign_jwt(&claims2, Some(&foreign_kid), None, &method_key(OTHER, "#foreign")), &holder, &base()),
      false,
    );
    // vp.holder / vp.id duplicated inside the claim disagreeing with iss / jti
    let mut v: serde_json::Value = serde_json::from_str(&claims).unwrap();
    v["vp"]["holder"] = serde_json::Value::String(OTHER.to_owned());
    expect("[consistency] vp.holder disagrees with iss", run(&sign_jwt(&v.to_string(), Some(&kid), None, &method_key(HOLDER, "#auth")), &holder, &base()), false);
    let mut v: serde_json::Value = serde_json::from_str(&claims).unwrap();
    v["vp"]["id"] = serde_json::Value::String("https://example.org/p/2".to_owned());
    expect("[consistency] vp.id disagrees with jti", run(&sign_jwt(&v.to_string(), Some(&kid), None, &method_key(HOLDER, "#auth")), &holder, &base()), false);
    let mut v: serde_json::Value = serde_json::from_str(&claims).unwrap();
    v["vp"]["id"] = v["jti"].clone();
    expect("[consistency] vp.id equal to jti", run(&sign_jwt(&v.to_string(), Some(&kid), None, &method_key(HOLDER, "#auth")), &holder, &base()), true);
    v.as_object_mut().unwrap().remove("jti");
    expect("[consistency] vp.id present, jti absent", run(&sign_jwt(&v.to_string(), Some(&kid), None, &method_key(HOLDER, "#auth")), &holder, &base()), false);
    let mut v: serde_json::Value = serde_json::from_str(&claims).unwrap();
    v["vp"]["holder"] = serde_json::json!(format!("{}/", v["iss"].as_str().unwrap()));
    expect("[consistency] vp.holder equal to iss up to a trailing slash", run(&sign_jwt(&v.to_string(), Some(&kid), None, &method_key(HOLDER, "#auth")), &holder, &base()), false);
    let mut v: serde_json::Value = serde_json::from_str(&claims).unwrap();
    v["vp"]["id"] = serde_json::json!(format!("{}/", v["jti"].as_str().unwrap()));
    expect("[consistency] vp.id equal to jti up to a trailing slash", run(&sign_jwt(&v.to_string(), Some(&kid), None, &method_key(HOLDER, "#auth")), &holder, &base()), false);
    let mut v: serde_json::Value = serde_json::from_str(&claims).unwrap();
    v["vp"]["holder"] = v["iss"].clone();
    expect("[consistency] vp.holder equal to iss", run(&sign_jwt(&v.to_string(), Some(&kid), None, &method_key(HOLDER, "#auth")), &holder, &base()), true);
    // numeric dates of the presentation claims
    for (name, nbf, iat, want) in [
      ("[dates] nbf past year 9999 with a valid iat", Some(253402300800i64), Some(t0), false),
      ("[dates] nbf at the end of year 9999", Some(253402300799i64), None, false), // in range but after the latest-issuance bound
      ("[dates] iat only", None, Some(t0), true),
      ("[dates] nbf takes precedence over an earlier iat", Some(t0 + 1), Some(t0), false),
    ] {
      let mut v: serde_json::Value = serde_json::from_str(&claims).unwrap();
      v.as_object_mut().unwrap().remove("nbf");
      v.as_object_mut().unwrap().remove("iat");
      if let Some(n) = nbf {
        v["nbf"] = serde_json::json!(n);
      }
      if let Some(n) = iat {
        v["iat"] = serde_json::json!(n);
      }
      expect(name, run(&sign_jwt(&v.to_string(), Some(&kid), None, &method_key(HOLDER, "#auth")), &holder, &base()), want);
    }
    // unset bounds default to the current time, each on its own (the other bound has no say)
    {
      let now = Timestamp::now_utc().to_unix();
      let day = 86400;
      let mk = |issued: i64, expires: i64| {
        let o = JwtPresentationOptions::default().issuance_date(ts(issued)).expiration_date(ts(expires));
        sign_jwt(&pres.serialize_jwt(&o).unwrap(), Some(&kid), None, &method_key(HOLDER, "#auth"))
      };
      let plain = || JwtPresentationValidationOptions::default();
      let future_issued = mk(now + 10 * day, now + 100 * day);
      let current = mk(now - 10 * day, now + 10 * day);
      let expired = mk(now - 100 * day, now - 10 * day);
      expect("[default-bounds] issued in the future, no bounds configured", run(&future_issued, &holder, &plain()), false);
      expect("[default-bounds] issued in the future, only an expiry bound (later than the issuance) configured", run(&future_issued, &holder, &plain().earliest_expiry_date(ts(now + 50 * day))), false);
      expect("[default-bounds] issued in the future, only an expiry bound in the past configured", run(&future_issued, &holder, &plain().earliest_expiry_date(ts(now - 50 * day))), false);
      expect("[default-bounds] current presentation, no bounds configured", run(&current, &holder, &plain()), true);
      expect("[default-bounds] current presentation, only an expiry bound in the past configured", run(&current, &holder, &plain().earliest_expiry_date(ts(now - 50 * day))), true);
      expect("[default-bounds] current presentation, only an issuance bound in the future configured", run(&current, &holder, &plain().latest_issuance_date(ts(now + 50 * day))), true);
      expect("[default-bounds] expired presentation, no bounds configured", run(&expired, &holder, &plain()), false);
      expect("[default-bounds] expired presentation, only an issuance bound (earlier than the expiry) configured", run(&expired, &holder, &plain().latest_issuance_date(ts(now - 50 * day))), false);
      expect("[default-bounds] expired presentation, only an issuance bound in the future configured", run(&expired, &holder, &plain().latest_issuance_date(ts(now + 50 * day))), false);
    }
    // members taken from the serialisation options are present exactly when the option is (no default is filled in)
    for mask in 0..16u8 {
      let mut o = JwtPresentationOptions::default();
      o.expiration_date = if mask & 1 != 0 { Some(ts(t0 + 1000)) } else { None };
      o.issuance_date = if mask & 2 != 0 { Some(ts(t0)) } else { None };
      o.audience = if mask & 4 != 0 { Some(Url::parse("https://verifier.example").unwrap()) } else { None };
      o.custom_claims = if mask & 8 != 0 { Some(serde_json::from_value(serde_json::json!({"x-claim": 7})).unwrap()) } else { None };
      let text = pres.serialize_jwt(&o).unwrap();
      let v: serde_json::Value = serde_json::from_str(&text).unwrap();
      let got = (v.get("exp").is_some(), v.get("nbf").is_some() || v.get("iat").is_some(), v.get("aud").is_some(), v.get("x-claim").is_some());
      let want = (mask & 1 != 0, mask & 2 != 0, mask & 4 != 0, mask & 8 != 0);
      if got != want {
        log.borrow_mut().push(format!("[options] options (exp, issuance, aud, custom) present = {want:?}: claims carry {got:?}"));
      }
      // and what validation hands back is what was signed (bounds wide open)
      let jwt = sign_jwt(&text, Some(&kid), None, &method_key(HOLDER, "#auth"));
      let wide = JwtPresentationValidationOptions::default().latest_issuance_date(ts(t0 + 5000)).earliest_expiry_date(ts(t0 - 5000));
      match run(&jwt, &holder, &wide) {
        Ok(d) => {
          if d.expiration_date.is_some() != want.0 || d.issuance_date.is_some() != want.1 || d.aud.is_some() != want.2 {
            log.borrow_mut().push(format!("[options] options present = {want:?}: validation hands back exp {:?} issuance {:?} aud {:?}", d.expiration_date, d.issuance_date, d.aud.as_ref().map(|u| u.to_string())));
          }
        }
        Err(e) => log.borrow_mut().push(format!("[options] options present = {want:?}: own token rejected: {e}")),
      }
    }
    // exp outside the representable range is an error whatever the bounds are - never "no expiry"
    for exp in [-62167219201i64, i64::MIN, i64::MIN + 1, 253402300800, i64::MAX] {
      let mut v: serde_json::Value = serde_json::from_str(&claims).unwrap();
      v["exp"] = serde_json::json!(exp);
      let jwt = sign_jwt(&v.to_string(), Some(&kid), None, &method_key(HOLDER, "#auth"));
      expect(&format!("[dates] exp = {exp} (outside 0000..9999), usual bounds"), run(&jwt, &holder, &base()), false);
      expect(&format!("[dates] exp = {exp} (outside 0000..9999), earliest-expiry bound at the lower end"), run(&jwt, &holder, &base().earliest_expiry_date(ts(-62167219200))), false);
    }
    // the audience handed back is the one that was signed: shapes the claim type does not carry are an error, not "unbound" and
    // not "the first URL found"
    for (name, aud) in [
      ("a plain string that is not a URL", serde_json::json!("verifier-b")),
      ("an array of two URLs", serde_json::json!(["https://verifier-a.example", "https://verifier-b.example"])),
      ("an array of a name and a URL", serde_json::json!(["verifier-b", "https://verifier-a.example"])),
      ("an array of one URL", serde_json::json!(["https://verifier.example"])),
      ("an empty array", serde_json::json!([])),
      ("a number", serde_json::json!(7)),
      ("an object", serde_json::json!({"id": "https://verifier.example"})),
      ("an empty string", serde_json::json!("")),
    ] {
      let mut v: serde_json::Value = serde_json::from_str(&claims).unwrap();
      v["aud"] = aud.clone();
      match run(&sign_jwt(&v.to_string(), Some(&kid), None, &method_key(HOLDER, "#auth")), &holder, &base()) {
        Ok(d) => log.borrow_mut().push(format!("[aud] token whose aud is {name} ({aud}) accepted; audience handed back: {:?}", d.aud.as_ref().map(|u| u.to_string()))),
        Err(_) => {}
      }
    }
    // issuance carried only in iat: it is what the bound applies to and what is handed back
    {
      let mut v: serde_json::Value = serde_json::from_str(&claims).unwrap();
      v.as_object_mut().unwrap().remove("nbf");
      v["iat"] = serde_json::json!(t0 + 50);
      let jwt = sign_jwt(&v.to_string(), Some(&kid), None, &method_key(HOLDER, "#auth"));
      expect("[dates] iat only, after the latest-issuance bound", run(&jwt, &holder, &base()), false);
      if let Ok(d) = expect("[dates] iat only, within the bound", run(&jwt, &holder, &base().latest_issuance_date(ts(t0 + 50))), true) {
        if d.issuance_date != Some(ts(t0 + 50)) {
          log.borrow_mut().push(format!("[dates] iat-only token: issuance date handed back is {:?}", d.issuance_date));
        }
      }
      // nbf and iat both present and different: nbf is the issuance date
      let mut v: serde_json::Value = serde_json::from_str(&claims).unwrap();
      v["nbf"] = serde_json::json!(t0 + 50);
      v["iat"] = serde_json::json!(t0 - 50);
      let jwt = sign_jwt(&v.to_string(), Some(&kid), None, &method_key(HOLDER, "#auth"));
      expect("[dates] nbf after the bound although iat is before it", run(&jwt, &holder, &base()), false);
    }
    // a configured method id is matched with its DID: a foreign-DID id with the fragment of an own method does not select the own method
    {
      let vo = JwsVerificationOptions::default();
      let foreign_same_frag = DIDUrl::parse(format!("{OTHER}#auth")).unwrap();
      expect(
        "[typed-query] configured method id of a foreign DID sharing the fragment of the signing method",
        run(&sign_jwt(&claims, None, None, &method_key(HOLDER, "#auth")), &holder, &base().presentation_verifier_options(vo.clone().method_id(foreign_same_frag))),
        false,
      );
      let own = DIDUrl::parse(format!("{HOLDER}#auth")).unwrap();
      expect(
        "[typed-query] configured method id of the signing method",
        run(&sign_jwt(&claims, None, None, &method_key(HOLDER, "#auth")), &holder, &base().presentation_verifier_options(vo.clone().method_id(own))),
        true,
      );
    }
    let mut v: serde_json::Value = serde_json::from_str(&claims).unwrap();
    v["iss"] = serde_json::Value::String("not a did".to_owned());
    expect("iss is not a DID", run(&sign_jwt(&v.to_string(), Some(&kid), None, &method_key(HOLDER, "#auth")), &holder, &base()), false);
    log.into_inner()
  });
  match r {
    Err(msg) => Ok(format!("presentation validation panicked: {msg}")),
    Ok(log) if log.iter().any(|l| only.as_ref().map(|o| l.contains(o.as_str())).unwrap_or(true)) => {
      let log: Vec<String> = log.into_iter().filter(|l| only.as_ref().map(|o| l.contains(o.as_str())).unwrap_or(true)).collect();
      Ok(format!("{} deviations, e.g. {}", log.len(), log[..log.len().min(4)].join("; ")))
    }
    Ok(_) => Err("presentation validation battery: all expectations met".to_owned()),
  }
}

/// C07: claims round trip + consistency table through the public API (serialize_jwt -> toy-signed JWT -> verify_signature / validate)
pub fn claims(cex: &Value) -> Result<String, String> {
  let only: Option<String> = cex.get("only").and_then(Value::as_str).map(str::to_owned);
  let r = no_panic(|| -> Vec<String> {
    let mut log = Vec::new();
    let validator = JwtCredentialValidator::with_signature_verifier(JwsVerifierFn::from(toy_verify));
    let issuer = doc(ISSUER, &[(ISSUER, "#assert", MethodScope::assertion_method())]);
    let kid = format!("{ISSUER}#assert");
    let k = method_key(ISSUER, "#assert");
    let full = serde_json::json!({
      "@context": ["https://www.w3.org/2018/credentials/v1", "https://www.w3.org/2018/credentials/examples/v1"],
      "id": "http://example.edu/credentials/3732",
      "type": ["VerifiableCredential", "UniversityDegreeCredential"],
      "issuer": {"id": ISSUER, "name": "Example University"},
      "issuanceDate": "2010-01-01T19:23:24Z",
      "expirationDate": "2020-01-01T19:23:24Z",
      "credentialSubject": {"id": HOLDER, "degree": {"type": "BachelorDegree", "name": "Bachelor of Science and Arts"}},
      "credentialStatus": {"id": "https://example.edu/status/24", "type": "CredentialStatusList2017"},
      "credentialSchema": {"id": "https://example.org/examples/degree.json", "type": "JsonSchemaValidator2018"},
      "refreshService": {"id": "https://example.edu/refresh/3732", "type": "ManualRefreshService2018"},
      "termsOfUse": [{"type": "IssuerPolicy", "id": "http://example.com/policies/credential/4"}],
      "evidence": [{"id": "https://example.edu/evidence/f2aeec97", "type": ["DocumentVerification"]}],
      "nonTransferable": true,
      "extra": {"a": [1, 2, 3]},
      "proof": {"type": "X", "y": 1}
    });
    let optional = ["id", "expirationDate", "credentialStatus", "credentialSchema", "refreshService", "termsOfUse", "evidence", "nonTransferable", "extra", "proof"];
    for mask in 0..(1u32 << optional.len()) {
      // all single omissions, all-present, all-absent and a stride through the rest
      if !(mask == 0 || mask.count_ones() == 1 || mask.count_ones() as usize >= optional.len() - 1 || mask % 37 == 0) {
        continue;
      }
      let mut v = full.clone();
      for (i, name) in optional.iter().enumerate() {
        if mask & (1 << i) != 0 {
          v.as_object_mut().unwrap().remove(*name);
        }
      }
      for issuer_form in [0u8, 1, 2] {
        let issuer_as_url = issuer_form == 1;
        for subject_id in [true, false] {
          let mut v = v.clone();
          if issuer_as_url {
            v["issuer"] = serde_json::Value::String(ISSUER.into());
          }
          if issuer_form == 2 {
            // issuer in object form carrying nothing but its id
            v["issuer"] = serde_json::json!({ "id": ISSUER });
          }
          if !subject_id {
            v["credentialSubject"].as_object_mut().unwrap().remove("id");
          }
          let c: Credential = match Credential::from_json_value(v.clone()) {
            Ok(c) => c,
            Err(e) => {
              log.push(format!("[roundtrip] fixture rejected: {e}"));
              continue;
            }
          };
          let claims = c.serialize_jwt(None).unwrap();
          let cv: serde_json::Value = serde_json::from_str(&claims).unwrap();
          for dup in ["id", "issuer", "issuanceDate", "expirationDate"] {
            if cv["vc"].get(dup).is_some() {
              log.push(format!("[roundtrip] vc.{dup} duplicated inside vc"));
            }
          }
          match validator.verify_signature::<_, Object>(&sign_jwt(&claims, Some(&kid), None, &k), &[issuer.clone()], &JwsVerificationOptions::default()) {
            Ok(d) => {
              if d.credential != c {
                log.push(format!("[roundtrip] credential (omitted mask {mask:#b}, issuer url {issuer_as_url}, subject id {subject_id}) changes through its claims"));
              }
            }
            Err(e) => log.push(format!("[roundtrip] own claims rejected: {e}")),
          }
        }
      }
    }
    // a single subject given in list form: either refused, or - if its claims are produced - they read back to an equal credential
    {
      let mut v = full.clone();
      let subj = v["credentialSubject"].clone();
      v["credentialSubject"] = serde_json::json!([subj]);
      if let Ok(c) = Credential::<Object>::from_json_value(v) {
        if let Ok(claims) = c.serialize_jwt(None) {
          match validator.verify_signature::<_, Object>(&sign_jwt(&claims, Some(&kid), None, &k), &[issuer.clone()], &JwsVerificationOptions::default()) {
            Ok(d) if d.credential == c => {}
            Ok(_) => log.push("[roundtrip] a credential whose single subject is given as a one-element list changes through its claims".into()),
            Err(e) => log.push(format!("[roundtrip] claims of a credential with a one-element subject list rejected: {e}")),
          }
        }
      }
    }
    // optional members with "default-looking" values keep their presence through the claims (false, empty object, ...)
    {
      let mut v = full.clone();
      v["nonTransferable"] = serde_json::json!(false);
      if let Ok(c) = Credential::<Object>::from_json_value(v) {
        let claims = c.serialize_jwt(None).unwrap();
        match validator.verify_signature::<_, Object>(&sign_jwt(&claims, Some(&kid), None, &k), &[issuer.clone()], &JwsVerificationOptions::default()) {
          Ok(d) if d.credential == c => {}
          Ok(d) => log.push(format!("[roundtrip] credential with nonTransferable=false comes back with nonTransferable={:?}", d.credential.non_transferable)),
          Err(e) => log.push(format!("[roundtrip] own claims rejected: {e}")),
        }
      }
    }
    // consistency table
    let c: Credential = Credential::from_json_value(full.clone()).unwrap();
    let base: serde_json::Value = serde_json::from_str(&c.serialize_jwt(None).unwrap()).unwrap();
    let accepts = |v: &serde_json::Value| validator.verify_signature::<_, Object>(&sign_jwt(&v.to_string(), Some(&kid), None, &k), &[issuer.clone()], &JwsVerificationOptions::default()).is_ok();
    let cases: Vec<(&str, Box<dyn Fn(&mut serde_json::Value)>, bool)> = vec![
      ("vc.issuer equal", Box::new(|v| v["vc"]["issuer"] = v["iss"].clone()), true),
      ("vc.issuer different", Box::new(|v| v["vc"]["issuer"] = serde_json::json!(OTHER)), false),
      ("vc.issuer object with the same id and another name", Box::new(|v| v["vc"]["issuer"] = serde_json::json!({"id": ISSUER, "name": "Other University"})), false),
      ("vc.issuer object with the same id and an extra member", Box::new(|v| v["vc"]["issuer"] = serde_json::json!({"id": ISSUER, "name": "Example University", "x": 1})), false),
      ("vc.issuer object with the same id and no other member", Box::new(|v| v["vc"]["issuer"] = serde_json::json!({"id": ISSUER})), false),
      ("vc.issuer as the plain URL of an iss in object form", Box::new(|v| v["vc"]["issuer"] = serde_json::json!(ISSUER)), false),
      ("vc.id equal", Box::new(|v| v["vc"]["id"] = v["jti"].clone()), true),
      ("vc.id different", Box::new(|v| v["vc"]["id"] = serde_json::json!("http://example.edu/credentials/1")), false),
      ("vc.id equal to jti up to a trailing slash", Box::new(|v| v["vc"]["id"] = serde_json::json!(format!("{}/", v["jti"].as_str().unwrap()))), false),
      ("vc.id equal to jti up to a dropped trailing slash", Box::new(|v| { let j = v["jti"].as_str().unwrap().to_owned(); v["jti"] = serde_json::json!(format!("{j}/")); v["vc"]["id"] = serde_json::json!(j); }), false),
      ("vc.credentialSubject.id equal to sub up to trailing slashes", Box::new(|v| v["vc"]["credentialSubject"]["id"] = serde_json::json!(format!("{}//", v["sub"].as_str().unwrap()))), false),
      ("vc.id present, jti absent", Box::new(|v| { v["vc"]["id"] = v["jti"].clone(); v.as_object_mut().unwrap().remove("jti"); }), false),
      ("vc.issuanceDate equal", Box::new(|v| v["vc"]["issuanceDate"] = serde_json::json!("2010-01-01T19:23:24Z")), true),
      ("vc.issuanceDate different", Box::new(|v| v["vc"]["issuanceDate"] = serde_json::json!("2010-01-01T19:23:25Z")), false),
      ("vc.expirationDate equal", Box::new(|v| v["vc"]["expirationDate"] = serde_json::json!("2020-01-01T19:23:24Z")), true),
      ("vc.expirationDate different", Box::new(|v| v["vc"]["expirationDate"] = serde_json::json!("2020-01-01T19:23:25Z")), false),
      ("vc.expirationDate earlier than exp", Box::new(|v| v["vc"]["expirationDate"] = serde_json::json!("2020-01-01T19:23:23Z")), false),
      ("vc.expirationDate present, exp absent", Box::new(|v| { v["vc"]["expirationDate"] = serde_json::json!("2020-01-01T19:23:24Z"); v.as_object_mut().unwrap().remove("exp"); }), false),
      ("vc.credentialSubject.id equal", Box::new(|v| v["vc"]["credentialSubject"]["id"] = v["sub"].clone()), true),
      ("vc.credentialSubject.id different", Box::new(|v| v["vc"]["credentialSubject"]["id"] = serde_json::json!(OTHER)), false),
      ("vc.credentialSubject.id present, sub absent", Box::new(|v| { v["vc"]["credentialSubject"]["id"] = v["sub"].clone(); v.as_object_mut().unwrap().remove("sub"); }), false),
      ("iat instead of nbf", Box::new(|v| { let n = v["nbf"].clone(); v.as_object_mut().unwrap().remove("nbf"); v["iat"] = n; }), true),
      ("neither nbf nor iat", Box::new(|v| { v.as_object_mut().unwrap().remove("nbf"); }), false),
    ];
    for (name, f, want) in &cases {
      let mut v = base.clone();
      f(&mut v);
      if accepts(&v) != *want {
        log.push(format!("[consistency] {name}: {}", if *want { "rejected" } else { "accepted" }));
      }
    }
    for (name, field, val, want) in [
      ("exp one past year 9999", "exp", 253402300800i64, false),
      ("exp at the end of year 9999", "exp", 253402300799, true),
      ("nbf one before year 0000", "nbf", -62167219201, false),
      ("nbf at the start of year 0000", "nbf", -62167219200, true),
    ] {
      let mut v = base.clone();
      v[field] = serde_json::json!(val);
      v["iat"] = serde_json::json!(1262373804i64);
      if accepts(&v) != want {
        log.push(format!("[dates] {name} (valid iat alongside): {}", if want { "rejected" } else { "accepted" }));
      }
      let mut v = base.clone();
      v[field] = serde_json::json!(val);
      if accepts(&v) != want {
        log.push(format!("[dates] {name}: {}", if want { "rejected" } else { "accepted" }));
      }
    }
    log
  });
  match r {
    Err(msg) => Ok(format!("claims conversion panicked: {msg}")),
    Ok(log) => {
      let log: Vec<String> = log.into_iter().filter(|l| only.as_ref().map(|o| l.contains(o.as_str())).unwrap_or(true)).collect();
      if log.is_empty() {
        Err("claims battery: all expectations met".to_owned())
      } else {
        Ok(format!("{} deviations, e.g. {}", log.len(), log[..log.len().min(3)].join("; ")))
      }
    }
  }
}
