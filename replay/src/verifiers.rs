//! Native battery for the algorithm dispatch of the bundled JWS verifiers (C01): the curve / scheme that checks a signature is
//! the one named by `input.alg` (which JwsValidationItem::verify takes from the protected header), never one inferred elsewhere.
use crate::*;
use identity_ecdsa_verifier::EcDSAJwsVerifier;
use identity_eddsa_verifier::EdDSAJwsVerifier;
use identity_jose::jwk::{EcCurve, Jwk, JwkParamsEc, JwkType};
use identity_jose::jws::{JwsAlgorithm, JwsVerifier, VerificationInput};

fn ec_jwk(curve: EcCurve, x: &[u8], y: &[u8]) -> Jwk {
  let mut jwk = Jwk::new(JwkType::Ec);
  jwk
    .set_params(JwkParamsEc { crv: curve.name().to_owned(), x: identity_jose::jwu::encode_b64(x), y: identity_jose::jwu::encode_b64(y), d: None })
    .unwrap();
  jwk
}

pub fn dispatch(_cex: &Value) -> Result<String, String> {
  let r = no_panic(|| -> Vec<String> {
    use k256::elliptic_curve::sec1::ToEncodedPoint as _;
    let mut log = Vec::new();
    let msg: &[u8] = b"eyJhbGciOiJFUzI1NiJ9.eyJpc3MiOiJqb2UifQ";
    let k_sk = k256::ecdsa::SigningKey::from_slice(&[0x11; 32]).unwrap();
    let k_pt = k_sk.verifying_key().to_encoded_point(false);
    let k_jwk = ec_jwk(EcCurve::Secp256K1, k_pt.x().unwrap(), k_pt.y().unwrap());
    let k_sig: k256::ecdsa::Signature = signature::Signer::sign(&k_sk, msg);
    let p_sk = p256::ecdsa::SigningKey::from_slice(&[0x22; 32]).unwrap();
    let p_pt = {
      use p256::elliptic_curve::sec1::ToEncodedPoint as _;
      p_sk.verifying_key().to_encoded_point(false)
    };
    let p_jwk = ec_jwk(EcCurve::P256, p_pt.x().unwrap(), p_pt.y().unwrap());
    let p_sig: p256::ecdsa::Signature = signature::Signer::sign(&p_sk, msg);
    let run = |alg: JwsAlgorithm, sig: &[u8], key: &Jwk| {
      EcDSAJwsVerifier::default().verify(VerificationInput { alg, signing_input: msg.into(), decoded_signature: sig.into() }, key).is_ok()
    };
    let (ks, ps) = (k_sig.to_bytes().to_vec(), p_sig.to_bytes().to_vec());
    for (name, alg, sig, key, want) in [
      ("ES256 / P-256 key / P-256 signature", JwsAlgorithm::ES256, &ps, &p_jwk, true),
      ("ES256K / secp256k1 key / secp256k1 signature", JwsAlgorithm::ES256K, &ks, &k_jwk, true),
      ("ES256 named, secp256k1 key and signature", JwsAlgorithm::ES256, &ks, &k_jwk, false),
      ("ES256K named, P-256 key and signature", JwsAlgorithm::ES256K, &ps, &p_jwk, false),
      ("EdDSA named, P-256 key and signature", JwsAlgorithm::EdDSA, &ps, &p_jwk, false),
      ("ES384 named, P-256 key and signature", JwsAlgorithm::ES384, &ps, &p_jwk, false),
      ("ES256 / P-256 key / secp256k1 signature", JwsAlgorithm::ES256, &ks, &p_jwk, false),
      ("ES256 / P-256 signature followed by extra bytes", JwsAlgorithm::ES256, &{ let mut v = ps.clone(); v.push(0); v }, &p_jwk, false),
      ("ES256K / secp256k1 signature followed by extra bytes", JwsAlgorithm::ES256K, &{ let mut v = ks.clone(); v.push(0); v }, &k_jwk, false),
    ] {
      if run(alg, sig, key) != want {
        log.push(format!("[dispatch] EcDSAJwsVerifier: {name}: {}", if want { "rejected" } else { "reported verified" }));
      }
    }
    // the whole key takes part: a JWK whose y (or x) has one flipped bit is another point (or none) and never verifies
    for (curve, alg, sig, x, y) in [
      (EcCurve::P256, JwsAlgorithm::ES256, &ps, p_pt.x().unwrap().to_vec(), p_pt.y().unwrap().to_vec()),
      (EcCurve::Secp256K1, JwsAlgorithm::ES256K, &ks, k_pt.x().unwrap().to_vec(), k_pt.y().unwrap().to_vec()),
    ] {
      'bits: for which in 0..2 {
        for i in 0..32 {
          for bit in 0..8 {
            let (mut x2, mut y2) = (x.clone(), y.clone());
            if which == 0 {
              y2[i] ^= 1 << bit;
            } else {
              x2[i] ^= 1 << bit;
            }
            let key = ec_jwk(curve, &x2, &y2);
            if run(alg, sig, &key) {
              log.push(format!("[dispatch] {alg:?}: verified under a key whose {} has bit {bit} of byte {i} flipped", if which == 0 { "y" } else { "x" }));
              break 'bits;
            }
          }
        }
      }
      // coordinates of another length
      for (x2, y2) in [(x[..31].to_vec(), y.clone()), (x.clone(), y[..31].to_vec()), ([x.clone(), vec![0]].concat(), y.clone()), (x.clone(), [y.clone(), vec![0]].concat()), (vec![], vec![])] {
        let key = ec_jwk(curve, &x2, &y2);
        match no_panic(std::panic::AssertUnwindSafe(|| run(alg, sig, &key))) {
          Err(msg) => log.push(format!("[dispatch] {alg:?}: key with coordinates of {} / {} bytes: panicked: {msg}", x2.len(), y2.len())),
          Ok(true) => log.push(format!("[dispatch] {alg:?}: verified under a key with coordinates of {} / {} bytes", x2.len(), y2.len())),
          Ok(false) => {}
        }
      }
    }
    // Ed25519 (RFC 8037 A.4 vector): the whole decoded signature takes part - extra bytes, a missing byte and every single-bit flip fail
    {
      let msg_ed = b"eyJhbGciOiJFZERTQSJ9.RXhhbXBsZSBvZiBFZDI1NTE5IHNpZ25pbmc";
      let sig = identity_jose::jwu::decode_b64("hgyY0il_MGCjP0JzlnLWG1PPOt7-09PGcvMg3AIbQR6dWbhijcNR4ki4iylGjg5BhVsPt9g7sVvpAr_MuM0KAg").unwrap();
      let mut ed = Jwk::new(JwkType::Okp);
      ed.set_params(identity_jose::jwk::JwkParamsOkp { crv: "Ed25519".into(), x: "11qYAYKxCrfVS_7TyWQHOg7hcvPapiMlrwIaaPcHURo".into(), d: None }).unwrap();
      let run_ed = |s: &[u8]| EdDSAJwsVerifier::default().verify(VerificationInput { alg: JwsAlgorithm::EdDSA, signing_input: msg_ed.as_slice().into(), decoded_signature: s.into() }, &ed).is_ok();
      if !run_ed(&sig) {
        log.push("[dispatch] EdDSAJwsVerifier rejects the RFC 8037 A.4 vector".to_owned());
      }
      let mut longer = sig.clone();
      longer.extend_from_slice(&[0, 1, 2]);
      if run_ed(&longer) {
        log.push("[dispatch] Ed25519: a valid signature followed by extra bytes is reported verified".to_owned());
      }
      if run_ed(&sig[..63]) {
        log.push("[dispatch] Ed25519: a truncated signature is reported verified".to_owned());
      }
      for i in 0..sig.len() {
        let mut m = sig.clone();
        m[i] ^= 1 << (i % 8);
        if run_ed(&m) {
          log.push(format!("[dispatch] Ed25519: signature with a flipped bit in byte {i} is reported verified"));
          break;
        }
      }
    }
    for alg in [JwsAlgorithm::ES256, JwsAlgorithm::ES256K, JwsAlgorithm::HS256] {
      let got = EdDSAJwsVerifier::default().verify(VerificationInput { alg, signing_input: msg.into(), decoded_signature: ps.clone().into() }, &p_jwk).is_ok();
      if got {
        log.push(format!("[dispatch] EdDSAJwsVerifier reports a token naming {alg:?} as verified"));
      }
    }
    log
  });
  match r {
    Err(msg) => Ok(format!("verifier dispatch panicked: {msg}")),
    Ok(log) if !log.is_empty() => Ok(log.join("; ")),
    Ok(_) => Err("verifier dispatch battery: all expectations met".to_owned()),
  }
}
