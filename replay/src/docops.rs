//! Native battery for C04: every operation sequence up to depth 3 over a small universe against a set-of-entries model.
use crate::cred::method_key;
use crate::*;
use identity_core::common::{Object, Url};
use identity_core::convert::{FromJson, ToJson};
use identity_did::{CoreDID, DIDUrl, DID};
use identity_document::document::CoreDocument;
use identity_document::service::Service;
use identity_verification::{MethodRelationship, MethodScope, VerificationMethod};

#[derive(Clone, Debug, PartialEq)]
struct Model {
  gm: Vec<String>,
  rel: [Vec<(String, bool)>; 5], // (id, embedded) per relationship
  svc: Vec<String>,
}
const RELS: [MethodRelationship; 5] = [
  MethodRelationship::Authentication,
  MethodRelationship::AssertionMethod,
  MethodRelationship::KeyAgreement,
  MethodRelationship::CapabilityDelegation,
  MethodRelationship::CapabilityInvocation,
];

#[derive(Clone, Copy, Debug)]
enum Op {
  InsertMethod(usize, usize), // id, scope: 0 = general, 1.. = rel
  RemoveMethod(usize),
  Attach(usize, usize),
  Detach(usize, usize),
  AttachFrag(usize, usize), // attach by fragment-only query
  Dangling(usize, usize),   // (prefix only) a reference to id i in relationship r whose target is not in the document
  InsertService(usize),
  RemoveService(usize),
}

fn ids() -> Vec<String> {
  // the third id belongs to another DID of the same length with the same fragment as the first
  vec!["did:example:doc#a".into(), "did:example:doc#b".into(), "did:example:dox#a".into()]
}

fn apply_model(m: &mut Model, op: Op) -> bool {
  let id = |i: usize| ids()[i].clone();
  let any_method = |m: &Model, s: &String| m.gm.contains(s) || m.rel.iter().any(|r| r.iter().any(|(x, e)| x == s && *e));
  match op {
    Op::InsertMethod(i, sc) => {
      let s = id(i);
      // a general-purpose method may take an id that is so far only referenced (the references then point at it); an embedded
      // method may not (a reference would alias it)
      if any_method(m, &s) || m.svc.contains(&s) || (sc != 0 && m.rel.iter().any(|r| r.iter().any(|(x, _)| x == &s))) {
        return false;
      }
      if sc == 0 {
        m.gm.push(s)
      } else {
        m.rel[sc - 1].push((s, true))
      }
      true
    }
    Op::RemoveMethod(i) => {
      let s = id(i);
      let mut found_embedded = false;
      let mut removed_any_ref = false;
      for r in m.rel.iter_mut() {
        if let Some(pos) = r.iter().position(|(x, _)| x == &s) {
          let (_, e) = r.remove(pos);
          if e {
            found_embedded = true;
          } else {
            removed_any_ref = true;
          }
        }
      }
      let _ = removed_any_ref;
      if found_embedded {
        return true;
      }
      if let Some(pos) = m.gm.iter().position(|x| x == &s) {
        m.gm.remove(pos);
        true
      } else {
        false
      }
    }
    Op::Attach(i, r) => {
      let s = id(i);
      if !m.gm.contains(&s) {
        return false;
      }
      if !m.rel[r].iter().any(|(x, _)| x == &s) {
        m.rel[r].push((s, false));
      }
      true
    }
    Op::AttachFrag(i, r) => {
      // the query is the fragment of id i: the first general-purpose method with that fragment is the one referenced
      let frag = id(i)[id(i).rfind('#').unwrap()..].to_owned();
      let s = match m.gm.iter().find(|x| x.ends_with(&frag)) {
        Some(s) => s.clone(),
        None => return false,
      };
      if !m.rel[r].iter().any(|(x, _)| x == &s) {
        m.rel[r].push((s, false));
      }
      true
    }
    Op::Dangling(i, r) => {
      m.rel[r].push((id(i), false));
      true
    }
    Op::Detach(i, r) => {
      let s = id(i);
      if !m.gm.contains(&s) {
        return false;
      }
      if let Some(pos) = m.rel[r].iter().position(|(x, _)| x == &s) {
        m.rel[r].remove(pos);
      }
      true
    }
    Op::InsertService(i) => {
      let s = id(i);
      if any_method(m, &s) || m.svc.contains(&s) || m.rel.iter().any(|r| r.iter().any(|(x, _)| x == &s)) {
        return false;
      }
      m.svc.push(s);
      true
    }
    Op::RemoveService(i) => {
      let s = id(i);
      if let Some(pos) = m.svc.iter().position(|x| x == &s) {
        m.svc.remove(pos);
        true
      } else {
        false
      }
    }
  }
}

fn apply_doc(d: &mut CoreDocument, op: Op) -> bool {
  let did = CoreDID::parse("did:example:doc").unwrap();
  let url = |i: usize| DIDUrl::parse(&ids()[i]).unwrap();
  match op {
    Op::InsertMethod(i, sc) => {
      let frag = format!("#{}", url(i).fragment().unwrap());
      let owner = url(i).did().clone();
      let _ = did;
      let m = VerificationMethod::new_from_jwk(owner, method_key("did:example:doc", &frag), Some(&frag)).unwrap();
      let scope = if sc == 0 { MethodScope::VerificationMethod } else { MethodScope::VerificationRelationship(RELS[sc - 1]) };
      d.insert_method(m, scope).is_ok()
    }
    Op::RemoveMethod(i) => d.remove_method(&url(i)).is_some(),
    Op::Attach(i, r) => d.attach_method_relationship(&url(i), RELS[r]).is_ok(),
    Op::Detach(i, r) => d.detach_method_relationship(&url(i), RELS[r]).is_ok(),
    Op::AttachFrag(i, r) => d.attach_method_relationship(format!("#{}", url(i).fragment().unwrap()).as_str(), RELS[r]).is_ok(),
    Op::Dangling(i, r) => {
      // documents with references into other documents (or to methods that are not there) are accepted by the constructor
      // gate; they can only be built through JSON
      let mut v: serde_json::Value = serde_json::from_str(&d.to_json().unwrap()).unwrap();
      let key = ["authentication", "assertionMethod", "keyAgreement", "capabilityDelegation", "capabilityInvocation"][r];
      let entry = serde_json::Value::String(ids()[i].clone());
      match v.get_mut(key).and_then(|x| x.as_array_mut()) {
        Some(a) => a.push(entry),
        None => {
          v[key] = serde_json::Value::Array(vec![entry]);
        }
      }
      match CoreDocument::from_json(&v.to_string()) {
        Ok(nd) => {
          *d = nd;
          true
        }
        Err(_) => false,
      }
    }
    Op::InsertService(i) => d
      .insert_service(Service::builder(Object::new()).id(url(i)).type_("T").service_endpoint(Url::parse("https://example.com/").unwrap()).build().unwrap())
      .is_ok(),
    Op::RemoveService(i) => d.remove_service(&url(i)).is_some(),
  }
}

fn observe(d: &CoreDocument) -> Model {
  let rel = |r: &identity_core::common::OrderedSet<identity_verification::MethodRef>| {
    r.iter().map(|x| (x.id().to_string(), matches!(x, identity_verification::MethodRef::Embed(_)))).collect::<Vec<_>>()
  };
  Model {
    gm: d.verification_method().iter().map(|m| m.id().to_string()).collect(),
    rel: [rel(d.authentication()), rel(d.assertion_method()), rel(d.key_agreement()), rel(d.capability_delegation()), rel(d.capability_invocation())],
    svc: d.service().iter().map(|s| s.id().to_string()).collect(),
  }
}

/// [gate] every placement of two ids over verificationMethod, two relationships (absent / embedded / referenced) and the
/// services, handed to the deserialisation gate and to the builder: accepted iff the set-of-entries model has no clash
fn gate_battery(log: &mut Vec<String>) {
  // (second pass: two ids that share their fragment under different DIDs - distinct identifiers, never a clash)
  for ids in [["did:example:doc#a", "did:example:doc#b"], ["did:example:doc#a", "did:example:other#a"]] {
    gate_pass(log, ids);
  }
  gate_builder(log);
}

fn gate_pass(log: &mut Vec<String>, ids: [&str; 2]) {
  let method = |id: &str| {
    let frag = &id[id.find('#').unwrap()..];
    let owner = &id[..id.find('#').unwrap()];
    let m = VerificationMethod::new_from_jwk(CoreDID::parse(owner).unwrap(), method_key(owner, frag), Some(frag)).unwrap();
    serde_json::from_str::<serde_json::Value>(&m.to_json().unwrap()).unwrap()
  };
  let svc = |id: &str| serde_json::json!({"id": id, "type": "T", "serviceEndpoint": "https://example.com/"});
  for code in 0..(4 * 9 * 9 * 4) {
    let (vm, a1, a2, sv) = (code % 4, (code / 4) % 9, (code / 36) % 9, code / 324);
    let mut doc = serde_json::json!({"id": "did:example:doc"});
    let mut all: Vec<(usize, &str, u8)> = Vec::new(); // (id index, collection, 0 general / 1 embedded / 2 reference / 3 service)
    let mut vms = Vec::new();
    for i in 0..2 {
      if vm >> i & 1 == 1 {
        vms.push(method(ids[i]));
        all.push((i, "vm", 0));
      }
    }
    if !vms.is_empty() {
      doc["verificationMethod"] = serde_json::Value::Array(vms);
    }
    for (key, cfg) in [("authentication", a1), ("assertionMethod", a2)] {
      let mut arr = Vec::new();
      for i in 0..2 {
        match (cfg / [1, 3][i]) % 3 {
          1 => {
            arr.push(method(ids[i]));
            all.push((i, key, 1));
          }
          2 => {
            arr.push(serde_json::Value::String(ids[i].to_owned()));
            all.push((i, key, 2));
          }
          _ => {}
        }
      }
      if !arr.is_empty() {
        doc[key] = serde_json::Value::Array(arr);
      }
    }
    let mut svs = Vec::new();
    for i in 0..2 {
      if sv >> i & 1 == 1 {
        svs.push(svc(ids[i]));
        all.push((i, "service", 3));
      }
    }
    if !svs.is_empty() {
      doc["service"] = serde_json::Value::Array(svs);
    }
    let mut clash = false;
    for i in 0..2 {
      let of: Vec<u8> = all.iter().filter(|e| e.0 == i).map(|e| e.2).collect();
      let methods = of.iter().filter(|k| **k != 3).count();
      let embedded = of.iter().filter(|k| **k == 1).count();
      if embedded > 0 && methods > 1 {
        clash = true; // an embedded method shares its id with another embedded method, a general method or a reference
      }
      if of.contains(&3) && methods > 0 {
        clash = true; // service id equal to a method id
      }
    }
    let text = doc.to_string();
    match CoreDocument::from_json(&text) {
      Ok(d) => {
        if clash {
          log.push(format!("[gate] deserialisation accepted a document with an id clash: {text}"));
        } else if CoreDocument::from_json(&d.to_json().unwrap()).ok().as_ref() != Some(&d) {
          log.push(format!("[gate] accepted document does not round-trip: {text}"));
        }
      }
      Err(_) if !clash => log.push(format!("[gate] deserialisation refused a document without any clash: {text}")),
      Err(_) => {}
    }
    if log.len() > 6 {
      return;
    }
  }
}

fn gate_builder(log: &mut Vec<String>) {
  // the builder goes through the same gate
  let did = CoreDID::parse("did:example:doc").unwrap();
  let mk = |f: &str| VerificationMethod::new_from_jwk(did.clone(), method_key("did:example:doc", f), Some(f)).unwrap();
  let service = |f: &str| {
    Service::builder(Object::new()).id(DIDUrl::parse(format!("did:example:doc{f}")).unwrap()).type_("T").service_endpoint(Url::parse("https://example.com/").unwrap()).build().unwrap()
  };
  let b = || CoreDocument::builder(Object::new()).id(did.clone());
  let cases: Vec<(&str, bool, identity_document::document::DocumentBuilder)> = vec![
    ("general method and service share an id", false, b().verification_method(mk("#a")).service(service("#a"))),
    ("embedded method and service share an id", false, b().authentication(mk("#a")).service(service("#a"))),
    ("referenced id and service share an id", false, b().authentication(DIDUrl::parse("did:example:doc#a").unwrap()).service(service("#a"))),
    ("general method and embedded method share an id", false, b().verification_method(mk("#a")).assertion_method(mk("#a"))),
    ("embedded twice", false, b().authentication(mk("#a")).key_agreement(mk("#a"))),
    ("embedded and referenced", false, b().authentication(mk("#a")).capability_invocation(DIDUrl::parse("did:example:doc#a").unwrap())),
    ("general method referenced twice plus an unrelated service", true, b().verification_method(mk("#a")).authentication(DIDUrl::parse("did:example:doc#a").unwrap()).capability_delegation(DIDUrl::parse("did:example:doc#a").unwrap()).service(service("#b"))),
  ];
  for (what, ok, builder) in cases {
    if builder.build().is_ok() != ok {
      log.push(format!("[gate] builder: {what}: expected accepted = {ok}"));
    }
  }
}

/// DIDs are compared exactly: two DIDs that differ only in letter case are two DIDs. Entries under both, sharing a fragment, in
/// every scope: insertion succeeds, full-id queries find exactly their entry, attach / detach / remove act on that entry only.
fn case_variant_battery(log: &mut Vec<String>) {
  let lower = "did:example:abcdef";
  let upper = "did:example:ABCDEF";
  let mk = |d: &str| VerificationMethod::new_from_jwk(CoreDID::parse(d).unwrap(), method_key(d, "#k"), Some("#k")).unwrap();
  for first_upper in [false, true] {
    for scope in [MethodScope::VerificationMethod, MethodScope::authentication(), MethodScope::key_agreement()] {
      let (a, b) = if first_upper { (upper, lower) } else { (lower, upper) };
      let mut d = CoreDocument::builder(Object::new()).id(CoreDID::parse(lower).unwrap()).build().unwrap();
      if d.insert_method(mk(a), scope).is_err() {
        log.push(format!("[case] inserting {a}#k into an empty document refused"));
        continue;
      }
      if d.insert_method(mk(b), scope).is_err() {
        log.push(format!("[case] {b}#k refused although only {a}#k (another DID) is in the document (scope {scope:?})"));
        continue;
      }
      for q in [a, b] {
        let full = format!("{q}#k");
        match d.resolve_method(full.as_str(), None) {
          Some(m) if m.id().to_string() == full => {}
          other => log.push(format!("[case] resolve_method({full:?}) returned {:?} (scope {scope:?}, inserted first: {a})", other.map(|m| m.id().to_string()))),
        }
        match d.resolve_method(full.as_str(), Some(scope)) {
          Some(m) if m.id().to_string() == full => {}
          other => log.push(format!("[case] scoped resolve_method({full:?}) returned {:?}", other.map(|m| m.id().to_string()))),
        }
      }
      // services under both DIDs
      for q in [a, b] {
        let sid = DIDUrl::parse(format!("{q}#s")).unwrap();
        let svc = Service::builder(Object::new()).id(sid).type_("T").service_endpoint(Url::parse("https://example.com/").unwrap()).build().unwrap();
        if d.insert_service(svc).is_err() {
          log.push(format!("[case] service {q}#s refused"));
        }
      }
      for q in [a, b] {
        let full = format!("{q}#s");
        match d.resolve_service(full.as_str()) {
          Some(sv) if sv.id().to_string() == full => {}
          other => log.push(format!("[case] resolve_service({full:?}) returned {:?}", other.map(|x| x.id().to_string()))),
        }
      }
      if matches!(scope, MethodScope::VerificationMethod) {
        let second = DIDUrl::parse(format!("{b}#k")).unwrap();
        if d.attach_method_relationship(&second, MethodRelationship::AssertionMethod).is_err() {
          log.push(format!("[case] attaching {b}#k refused"));
        }
        let refs: Vec<String> = d.assertion_method().iter().map(|r| r.id().to_string()).collect();
        if refs != vec![format!("{b}#k")] {
          log.push(format!("[case] attaching {b}#k produced the references {refs:?}"));
        }
      }
      let second = DIDUrl::parse(format!("{b}#k")).unwrap();
      match d.remove_method(&second) {
        Some(m) if m.id() == &second => {}
        other => log.push(format!("[case] remove_method({b}#k) removed {:?}", other.map(|m| m.id().to_string()))),
      }
      if d.resolve_method(format!("{a}#k").as_str(), None).is_none() {
        log.push(format!("[case] removing {b}#k also removed {a}#k"));
      }
      if CoreDocument::from_json(&d.to_json().unwrap()).ok().as_ref() != Some(&d) {
        log.push("[case] document with case-variant DIDs does not round-trip".to_owned());
      }
    }
  }
}

/// A reference may carry a path or query besides DID and fragment (`did:x?versionId=1#a`); queries match it by DID + fragment, so an
/// embedded method with that DID and fragment would be shadowed by / alias it: its insertion is refused and leaves the document as
/// it was, in every relationship; a general-purpose insertion (which the reference then points at) is allowed.
fn query_reference_battery(log: &mut Vec<String>) {
  let did = "did:example:doc";
  let keys = ["authentication", "assertionMethod", "keyAgreement", "capabilityDelegation", "capabilityInvocation"];
  for (ri, key) in keys.iter().enumerate() {
    for reference in [format!("{did}?versionId=1#a"), format!("{did}/path#a"), format!("{did}/p?q=1#a")] {
      let text = serde_json::json!({"id": did, *key: [reference]}).to_string();
      let Ok(d0) = CoreDocument::from_json(&text) else {
        continue; // a reference form the gate itself refuses: nothing to observe
      };
      for (si, rel) in RELS.iter().enumerate() {
        let mut d = d0.clone();
        let m = VerificationMethod::new_from_jwk(CoreDID::parse(did).unwrap(), method_key(did, "#a"), Some("#a")).unwrap();
        let before = d.to_json().unwrap();
        match d.insert_method(m, MethodScope::VerificationRelationship(*rel)) {
          Ok(()) => {
            let found = d.resolve_method(format!("{did}#a").as_str(), None).is_some();
            log.push(format!("[query-reference] {key} holds {reference:?}: an embedded method {did}#a was accepted into relationship #{si}{}", if found { "" } else { " and does not resolve" }));
          }
          Err(_) => {
            if d.to_json().unwrap() != before {
              log.push(format!("[query-reference] refused insertion changed the document ({key}, {reference:?})"));
            }
          }
        }
      }
      let _ = ri;
    }
  }
}

/// Removal keeps the order of what remains (collections are *ordered* sets; fragment-only queries return the first match): three
/// entries, the later two sharing a fragment under different DIDs, then the first is removed / detached.
/// A string query that looks like a DID URL (starts with the scheme) has a DID part, well-formed or not: it matches only entries of
/// exactly that DID - never by fragment alone.
fn kid_did_part_battery(log: &mut Vec<String>) {
  let did = "did:example:doc";
  let mk = |d: &str, f: &str| VerificationMethod::new_from_jwk(CoreDID::parse(d).unwrap(), method_key(d, f), Some(f)).unwrap();
  let mut d = CoreDocument::builder(Object::new()).id(CoreDID::parse(did).unwrap()).build().unwrap();
  d.insert_method(mk(did, "#key"), MethodScope::VerificationMethod).unwrap();
  d.insert_method(mk(did, "#auth"), MethodScope::authentication()).unwrap();
  for frag in ["key", "auth"] {
    for q in [format!("did:Example:doc#{frag}"), format!("did:example:#{frag}"), format!("did::#{frag}"), format!("did:example:other#{frag}"), format!("did:#{frag}"),
              format!("did:EXAMPLE:DOC#{frag}"), format!("did:example:doc%#{frag}"), format!("did:ex ample:doc#{frag}")] {
      if let Some(m) = d.resolve_method(q.as_str(), None) {
        log.push(format!("[kid-did-part] query {q:?} resolves to {}", m.id()));
      }
    }
    for q in [format!("did:example:doc#{frag}"), format!("#{frag}"), frag.to_owned()] {
      if d.resolve_method(q.as_str(), None).map(|m| m.id().to_string()) != Some(format!("{did}#{frag}")) {
        log.push(format!("[kid-did-part] query {q:?} does not resolve to {did}#{frag}"));
      }
    }
  }
}

fn order_battery(log: &mut Vec<String>) {
  let did = "did:example:doc";
  let mk = |d: &str, f: &str| VerificationMethod::new_from_jwk(CoreDID::parse(d).unwrap(), method_key(d, f), Some(f)).unwrap();
  for scope in [MethodScope::VerificationMethod, MethodScope::authentication()] {
    for victim in 0..3usize {
      let mut d = CoreDocument::builder(Object::new()).id(CoreDID::parse(did).unwrap()).build().unwrap();
      let entries = [(did, "#first"), (did, "#shared"), ("did:example:other", "#shared")];
      for (owner, frag) in entries {
        d.insert_method(mk(owner, frag), scope).unwrap();
      }
      let ids: Vec<String> = entries.iter().map(|(o, f)| format!("{o}{f}")).collect();
      let gone = DIDUrl::parse(&ids[victim]).unwrap();
      if d.remove_method(&gone).is_none() {
        log.push(format!("[order] remove_method({gone}) found nothing"));
        continue;
      }
      let want: Vec<String> = ids.iter().enumerate().filter(|(i, _)| *i != victim).map(|(_, s)| s.clone()).collect();
      let got: Vec<String> = d.methods(Some(scope)).into_iter().map(|m| m.id().to_string()).collect();
      if got != want {
        log.push(format!("[order] after removing {gone} the methods in scope {scope:?} are {got:?}, expected {want:?}"));
      }
      let first_shared = want.iter().find(|s| s.ends_with("#shared")).cloned();
      let by_fragment = d.resolve_method("#shared", None).map(|m| m.id().to_string());
      if by_fragment != first_shared {
        log.push(format!("[order] after removing {gone}, resolve_method(\"#shared\") = {by_fragment:?}, the first remaining match is {first_shared:?}"));
      }
    }
  }
  // services and references likewise
  for victim in 0..3usize {
    let mut d = CoreDocument::builder(Object::new()).id(CoreDID::parse(did).unwrap()).build().unwrap();
    let sids = [format!("{did}#s1"), format!("{did}#s2"), "did:example:other#s2".to_owned()];
    for sidv in &sids {
      let svc = Service::builder(Object::new()).id(DIDUrl::parse(sidv).unwrap()).type_("T").service_endpoint(Url::parse("https://example.com/").unwrap()).build().unwrap();
      d.insert_service(svc).unwrap();
    }
    d.remove_service(&DIDUrl::parse(&sids[victim]).unwrap());
    let want: Vec<String> = sids.iter().enumerate().filter(|(i, _)| *i != victim).map(|(_, s)| s.clone()).collect();
    let got: Vec<String> = d.service().iter().map(|x| x.id().to_string()).collect();
    if got != want {
      log.push(format!("[order] after removing service {} the services are {got:?}, expected {want:?}", sids[victim]));
    }
  }
}

fn tag(op: Op) -> &'static str {
  match op {
    Op::InsertMethod(..) => "[insert]",
    Op::RemoveMethod(..) => "[remove]",
    Op::Attach(..) => "[attach]",
    Op::Detach(..) => "[detach]",
    Op::AttachFrag(..) => "[attach]",
    Op::Dangling(..) => "[dangling]",
    Op::InsertService(..) => "[insert-service]",
    Op::RemoveService(..) => "[remove-service]",
  }
}

pub fn document_ops(cex: &Value) -> Result<String, String> {
  let only: Option<String> = cex.get("only").and_then(Value::as_str).map(str::to_owned);
  let r = no_panic(|| -> Vec<String> {
    let mut log = Vec::new();
    // universe A: 2 ids x 2 relationships to depth 3; universe B: 3 ids (one of a foreign DID) x 5 relationships to depth 2
    // universes C/D start from directed prefixes: a general-purpose method referenced from two relationships (then every
    // operation, in particular its removal), and two general-purpose methods of different DIDs sharing a fragment
    let mut universes: Vec<(usize, usize, usize, Vec<Op>)> = vec![(2, 2, 3, vec![]), (3, 5, 2, vec![]), (1, 5, 3, vec![])];
    for r1 in 0..5 {
      for r2 in (r1 + 1)..5 {
        universes.push((1, 5, 2, vec![Op::InsertMethod(0, 0), Op::Attach(0, r1), Op::Attach(0, r2)]));
      }
    }
    universes.push((1, 5, 1, vec![Op::InsertMethod(0, 0), Op::Attach(0, 0), Op::Attach(0, 1), Op::Attach(0, 2), Op::Attach(0, 3), Op::Attach(0, 4)]));
    universes.push((3, 5, 2, vec![Op::InsertMethod(0, 0), Op::InsertMethod(2, 0)]));
    universes.push((3, 5, 2, vec![Op::InsertMethod(2, 0), Op::InsertMethod(0, 0)]));
    universes.push((3, 5, 1, vec![Op::InsertMethod(0, 0), Op::InsertMethod(2, 1)]));
    universes.push((3, 5, 1, vec![Op::InsertMethod(2, 0), Op::InsertMethod(0, 1)]));
    universes.push((3, 5, 1, vec![Op::InsertMethod(2, 2), Op::InsertMethod(0, 0)]));
    // a reference whose target is not in the document (legal: it may live in another document), then every insertion
    universes.push((2, 5, 2, vec![Op::Dangling(0, 0)]));
    universes.push((2, 5, 1, vec![Op::Dangling(0, 2), Op::Dangling(1, 4)]));
    gate_battery(&mut log);
    case_variant_battery(&mut log);
    query_reference_battery(&mut log);
    order_battery(&mut log);
    kid_did_part_battery(&mut log);
    for (n_ids, n_rels, depth, prefix) in universes {
    let mut ops = Vec::new();
    for i in 0..n_ids {
      for sc in 0..=n_rels {
        ops.push(Op::InsertMethod(i, sc));
      }
      ops.push(Op::RemoveMethod(i));
      for r in 0..n_rels {
        ops.push(Op::Attach(i, r));
        ops.push(Op::Detach(i, r));
        if !prefix.is_empty() && n_ids == 3 {
          ops.push(Op::AttachFrag(i, r));
        }
      }
      ops.push(Op::InsertService(i));
      ops.push(Op::RemoveService(i));
    }
    if matches!(prefix.first(), Some(Op::Dangling(..))) {
      ops.retain(|o| matches!(o, Op::InsertMethod(..) | Op::InsertService(..)));
    }
    let did = CoreDID::parse("did:example:doc").unwrap();
    let empty = CoreDocument::builder(Object::new()).id(did).build().unwrap();
    let (mut d0, mut m0) = (empty, Model { gm: vec![], rel: Default::default(), svc: vec![] });
    for op in &prefix {
      apply_doc(&mut d0, *op);
      apply_model(&mut m0, *op);
    }
    let mut frontier: Vec<(CoreDocument, Model, Vec<Op>)> = vec![(d0, m0, prefix.clone())];
    for _depth in 0..depth {
      let mut next = Vec::new();
      for (d, m, hist) in &frontier {
        for op in &ops {
          let (mut d2, mut m2) = (d.clone(), m.clone());
          let before = d2.to_json().unwrap();
          let got = apply_doc(&mut d2, *op);
          let want = apply_model(&mut m2, *op);
          let mut h = hist.clone();
          h.push(*op);
          if got != want {
            log.push(format!("{} history {h:?}: operation {} although the model {}", tag(*op), if got { "succeeded" } else { "was refused" }, if want { "accepts it" } else { "refuses it" }));
            continue;
          }
          if !got && d2.to_json().unwrap() != before {
            log.push(format!("{} history {h:?}: refused operation changed the document", tag(*op)));
          }
          if observe(&d2) != m2 {
            log.push(format!("{} history {h:?}: document {:?}, model {m2:?}", tag(*op), observe(&d2)));
            continue;
          }
          // invariants + round trip + resolution
          let json = d2.to_json().unwrap();
          match CoreDocument::from_json(&json) {
            Ok(back) if back == d2 => {}
            _ => log.push(format!("{} [json] history {h:?}: document does not survive its own JSON", tag(*op))),
          }
          for (i, idstr) in ids().iter().enumerate() {
            let frag = format!("#{}", DIDUrl::parse(idstr).unwrap().fragment().unwrap());
            let embedded_in: Vec<usize> = (0..5).filter(|r| m2.rel[*r].iter().any(|(x, e)| x == idstr && *e)).collect();
            let any = m2.gm.contains(idstr) || !embedded_in.is_empty();
            let own = idstr.starts_with("did:example:doc#");
            let shares_fragment = ids().iter().any(|o| o != idstr && o.ends_with(&frag) && (m2.gm.contains(o) || m2.svc.contains(o) || m2.rel.iter().any(|r| r.iter().any(|(x, _)| x == o))));
            for q in [idstr.as_str(), frag.as_str()] {
              // whatever a query resolves to under a scope has to be a member of that scope's set (also for fragments
              // shared between DIDs, where the first match in set order wins)
              for r in 0..5 {
                if let Some(found) = d2.resolve_method(q, Some(MethodScope::VerificationRelationship(RELS[r]))) {
                  let fid = found.id().to_string();
                  if !m2.rel[r].iter().any(|(x, _)| x == &fid) {
                    log.push(format!("[resolve] history {h:?}: resolve_method({q:?}, {:?}) returned {fid}, which does not carry that relationship", RELS[r]));
                  }
                  if !fid.ends_with(&frag) {
                    log.push(format!("[resolve] history {h:?}: resolve_method({q:?}, {:?}) returned {fid}", RELS[r]));
                  }
                }
              }
              if let Some(found) = d2.resolve_method(q, Some(MethodScope::VerificationMethod)) {
                if !m2.gm.contains(&found.id().to_string()) {
                  log.push(format!("[resolve] history {h:?}: resolve_method({q:?}, VerificationMethod) returned a method outside verificationMethod"));
                }
              }
              if q == frag.as_str() && (!own || shares_fragment) {
                continue;
              }
              if d2.resolve_method(q, None).is_some() != any {
                log.push(format!("[resolve] history {h:?}: resolve_method({q:?}, None) = {}", !any));
              }
              if d2.resolve_method(q, Some(MethodScope::VerificationMethod)).is_some() != m2.gm.contains(idstr) {
                log.push(format!("[resolve] history {h:?}: resolve_method({q:?}, VerificationMethod) wrong"));
              }
              for r in 0..5 {
                let want = m2.rel[r].iter().any(|(x, _)| x == idstr) && any;
                if d2.resolve_method(q, Some(MethodScope::VerificationRelationship(RELS[r]))).is_some() != want {
                  log.push(format!("[resolve] history {h:?}: resolve_method({q:?}, {:?}) wrong", RELS[r]));
                }
              }
              if q == idstr.as_str() {
                // the same lookups with the id as a typed DIDUrl (borrowed): the DID part must take part in the match
                let typed = DIDUrl::parse(idstr).unwrap();
                match d2.resolve_method(&typed, None) {
                  Some(found) if found.id() != &typed => log.push(format!("[typed-query] history {h:?}: resolve_method(&DIDUrl {idstr}) returned {}", found.id())),
                  Some(_) if !any => log.push(format!("[typed-query] history {h:?}: resolve_method(&DIDUrl {idstr}) found a method that is not there")),
                  None if any => log.push(format!("[typed-query] history {h:?}: resolve_method(&DIDUrl {idstr}) found nothing")),
                  _ => {}
                }
                if d2.resolve_service(&typed).map(|s| s.id() != &typed).unwrap_or(false) {
                  log.push(format!("[typed-query] history {h:?}: resolve_service(&DIDUrl {idstr}) returned another service"));
                }
                if d2.resolve_service(&typed).is_some() != m2.svc.contains(idstr) {
                  log.push(format!("[typed-query] history {h:?}: resolve_service(&DIDUrl {idstr}) wrong"));
                }
              }
              if d2.resolve_service(q).is_some() != m2.svc.contains(idstr) {
                log.push(format!("[resolve] history {h:?}: resolve_service({q:?}) wrong"));
              }
            }
            let _ = i;
          }
          if log.len() > 6 {
            return log;
          }
          next.push((d2, m2, h));
        }
      }
      frontier = next;
    }
    }
    log
  });
  match r {
    Err(msg) => Ok(format!("document operations panicked: {msg}")),
    Ok(log) => {
      let log: Vec<String> = log.into_iter().filter(|l| only.as_ref().map(|o| l.contains(o.as_str())).unwrap_or(true)).collect();
      if log.is_empty() {
        Err("document operations battery: all expectations met".to_owned())
      } else {
        Ok(format!("{} deviations, e.g. {}", log.len(), log[..log.len().min(3)].join("; ")))
      }
    }
  }
}
