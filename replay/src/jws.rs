//! Native battery for C01/C08/C11: real encoders + real decoder + a toy signature scheme whose verifier accepts
//! exactly `tag(key) ‖ signing_input`.  Only used to confirm (or refute) solver candidates.
use crate::*;
use identity_jose::jwk::{Jwk, JwkParamsOkp, JwkType};
use identity_jose::jws::{
  CharSet, CompactJwsEncoder, CompactJwsEncodingOptions, Decoder, FlattenedJwsEncoder, GeneralJwsEncoder, JwsAlgorithm,
  JwsHeader, JwsVerifierFn, Recipient, SignatureVerificationError, SignatureVerificationErrorKind, VerificationInput,
};
use std::cell::RefCell;

pub fn key(tag: &str, alg: Option<&str>) -> Jwk {
  let mut k = Jwk::new(JwkType::Okp);
  k.set_params(JwkParamsOkp { crv: "Ed25519".into(), x: tag.into(), d: None }).unwrap();
  if let Some(a) = alg {
    k.set_alg(a);
  }
  k
}

pub fn toy_sign(k: &Jwk, signing_input: &[u8]) -> Vec<u8> {
  let mut s = k.try_okp_params().unwrap().x.as_bytes().to_vec();
  s.push(b'|');
  s.extend_from_slice(signing_input);
  s
}

thread_local! {
  pub static SEEN: RefCell<Vec<(Vec<u8>, Vec<u8>, String)>> = RefCell::new(Vec::new());
}

pub fn toy_verify(input: VerificationInput, k: &Jwk) -> Result<(), SignatureVerificationError> {
  SEEN.with(|s| {
    s.borrow_mut()
      .push((input.signing_input.to_vec(), input.decoded_signature.to_vec(), input.alg.name().to_owned()))
  });
  if input.alg != JwsAlgorithm::EdDSA {
    return Err(SignatureVerificationErrorKind::UnsupportedAlg.into());
  }
  if toy_sign(k, &input.signing_input) == input.decoded_signature.to_vec() {
    Ok(())
  } else {
    Err(SignatureVerificationErrorKind::InvalidSignature.into())
  }
}

fn header(b64: Option<bool>, with_alg: bool) -> JwsHeader {
  let mut h = JwsHeader::new();
  if with_alg {
    h.set_alg(JwsAlgorithm::EdDSA);
  }
  h.set_kid("did:example:123#k");
  if let Some(b) = b64 {
    h.set_b64(b);
    h.set_crit(["b64"]);
  }
  h
}

#[derive(Clone, Copy, Debug, PartialEq)]
pub enum Ser {
  Compact,
  Flattened,
  General,
}

/// produce a token with the real encoders; returns (token, detached payload to hand to the decoder)
pub fn encode(ser: Ser, payload: &[u8], b64: Option<bool>, detached: bool, k: &Jwk) -> Result<String, String> {
  let h = header(b64, true);
  match ser {
    Ser::Compact => {
      let opt = if detached {
        CompactJwsEncodingOptions::Detached
      } else {
        CompactJwsEncodingOptions::NonDetached { charset_requirements: CharSet::Default }
      };
      let e = CompactJwsEncoder::new_with_options(payload, &h, opt).map_err(|e| e.to_string())?;
      let sig = toy_sign(k, e.signing_input());
      Ok(e.into_jws(&sig))
    }
    Ser::Flattened => {
      let e = FlattenedJwsEncoder::new(payload, Recipient::new().protected(&h), detached).map_err(|e| e.to_string())?;
      let sig = toy_sign(k, e.signing_input());
      e.into_jws(&sig).map_err(|e| e.to_string())
    }
    Ser::General => {
      let e = GeneralJwsEncoder::new(payload, Recipient::new().protected(&h), detached).map_err(|e| e.to_string())?;
      let sig = toy_sign(k, e.signing_input());
      e.set_signature(&sig).into_jws().map_err(|e| e.to_string())
    }
  }
}

/// decode + verify with the real decoder; Ok(claims)
pub fn decode_verify(ser: Ser, token: &[u8], detached: Option<&[u8]>, k: &Jwk) -> Result<Vec<u8>, String> {
  let v = JwsVerifierFn::from(toy_verify);
  let d = Decoder::new();
  match ser {
    Ser::Compact => d
      .decode_compact_serialization(token, detached)
      .and_then(|i| i.verify(&v, k))
      .map(|t| t.claims.to_vec())
      .map_err(|e| e.to_string()),
    Ser::Flattened => d
      .decode_flattened_serialization(token, detached)
      .and_then(|i| i.verify(&v, k))
      .map(|t| t.claims.to_vec())
      .map_err(|e| e.to_string()),
    Ser::General => {
      let mut it = d.decode_general_serialization(token, detached).map_err(|e| e.to_string())?;
      let first = it.next().ok_or("no signature".to_owned())?;
      first.and_then(|i| i.verify(&v, k)).map(|t| t.claims.to_vec()).map_err(|e| e.to_string())
    }
  }
}

/// the three signed string values of a token as byte ranges (protected, payload, signature) - found textually
fn signed_ranges(ser: Ser, token: &str) -> Vec<(usize, usize)> {
  match ser {
    Ser::Compact => {
      let mut out = Vec::new();
      let mut start = 0;
      for (i, c) in token.char_indices() {
        if c == '.' {
          out.push((start, i));
          start = i + 1;
        }
      }
      out.push((start, token.len()));
      out
    }
    _ => {
      let mut out = Vec::new();
      for key in ["\"protected\":\"", "\"payload\":\"", "\"signature\":\""] {
        if let Some(p) = token.find(key) {
          let s = p + key.len();
          let mut e = s;
          let b = token.as_bytes();
          while e < b.len() && !(b[e] == b'"' && b[e - 1] != b'\\') {
            e += 1;
          }
          out.push((s, e));
        }
      }
      out
    }
  }
}

pub fn binding(_cex: &Value) -> Result<String, String> {
  let k = key("keyA", None);
  let other = key("keyB", None);
  // (the last one is not UTF-8: legal as a detached unencoded payload, where the signing input carries it as it is)
  let payloads: [&[u8]; 4] = [b"{\"iss\":\"joe\"}", b"hello world", b"a", &[0xff, 0xfe, 0x80, 0x41, 0xc3]];
  let r = no_panic(move || -> Vec<String> {
    let mut log = Vec::new();
    for ser in [Ser::Compact, Ser::Flattened, Ser::General] {
      for b64 in [None, Some(true), Some(false)] {
        for detached in [false, true] {
          for payload in payloads {
            if b64 == Some(false) && ser != Ser::Compact && !detached && payload.iter().any(|c| *c == b'"' || *c == b'\\') {
              // JSON escaping of unencoded payloads is C08's subject (the decoder borrows `payload` as &str)
              continue;
            }
            let token = match encode(ser, payload, b64, detached, &k) {
              Ok(t) => t,
              Err(_) => continue, // encoder refused this combination (e.g. charset): nothing to check
            };
            // what the decoder has to be given as detached payload is the *encoded* payload when b64 is on
            let enc_payload: Vec<u8> = if b64 == Some(false) {
              payload.to_vec()
            } else {
              identity_jose::jwu::encode_b64(payload).into_bytes()
            };
            let det = if detached { Some(enc_payload.as_slice()) } else { None };
            SEEN.with(|s| s.borrow_mut().clear());
            let tag = format!("{ser:?} b64={b64:?} detached={detached} payload={:?}", String::from_utf8_lossy(payload));
            match decode_verify(ser, token.as_bytes(), det, &k) {
              Ok(claims) => {
                if claims != payload {
                  log.push(format!("{tag}: claims handed back differ from the signed payload"));
                }
                let ranges = signed_ranges(ser, &token);
                let prot = &token[ranges[0].0..ranges[0].1];
                let mut expect = prot.as_bytes().to_vec();
                expect.push(b'.');
                expect.extend_from_slice(&enc_payload);
                let seen = SEEN.with(|s| s.borrow().clone());
                if seen.len() != 1 || seen[0].0 != expect {
                  log.push(format!("{tag}: verifier was not given ASCII(protected) . payload as received"));
                }
                if seen.len() == 1 && seen[0].2 != "EdDSA" {
                  log.push(format!("{tag}: verifier got alg {}", seen[0].2));
                }
                // a compact token is taken as received: no blank stripped in front of / behind it
                if ser == Ser::Compact {
                  for (pre, post) in [(" ", ""), ("", " "), ("\n", ""), ("", "\n"), ("\r", ""), ("\t", "\t"), ("\x0c", ""), ("", "\r\n")] {
                    let padded = format!("{pre}{token}{post}");
                    if decode_verify(ser, padded.as_bytes(), det, &k).is_ok() {
                      log.push(format!("{tag}: verified with blanks around the compact token ({pre:?} / {post:?})"));
                    }
                  }
                }
                // wrong key
                if decode_verify(ser, token.as_bytes(), det, &other).is_ok() {
                  log.push(format!("{tag}: verified under another key"));
                }
                // key pinned to another alg / the same alg
                if decode_verify(ser, token.as_bytes(), det, &key("keyA", Some("ES256"))).is_ok() {
                  log.push(format!("{tag}: verified although key.alg = ES256 and header alg = EdDSA"));
                }
                if decode_verify(ser, token.as_bytes(), det, &key("keyA", Some("EdDSA"))).is_err() {
                  log.push(format!("{tag}: rejected although key.alg equals the header alg"));
                }
                // a pin is compared as a string: values outside the JWS algorithm registry, case / blank variants
                for pin in ["ECDH-ES", "", "eddsa", "EdDSA ", "none", "Ed25519"] {
                  if decode_verify(ser, token.as_bytes(), det, &key("keyA", Some(pin))).is_ok() {
                    log.push(format!("{tag}: verified although key.alg = {pin:?} differs from the header alg"));
                  }
                }
                // single-bit flips inside the signed strings
                let bytes = token.as_bytes();
                'flip: for (s, e) in ranges {
                  for i in s..e {
                    for bit in 0..8 {
                      let mut m = bytes.to_vec();
                      m[i] ^= 1 << bit;
                      if decode_verify(ser, &m, det, &k).is_ok() {
                        log.push(format!("{tag}: still verifies after flipping bit {bit} of byte {i} ({:?})", bytes[i] as char));
                        break 'flip;
                      }
                    }
                  }
                }
                if detached {
                  'dflip: for i in 0..enc_payload.len() {
                    for bit in 0..8 {
                      let mut m = enc_payload.clone();
                      m[i] ^= 1 << bit;
                      if decode_verify(ser, token.as_bytes(), Some(&m), &k).is_ok() {
                        log.push(format!("{tag}: verifies with a modified detached payload (bit {bit} of byte {i})"));
                        break 'dflip;
                      }
                    }
                  }
                  if decode_verify(ser, token.as_bytes(), None, &k).is_ok() {
                    log.push(format!("{tag}: detached token verifies without any payload"));
                  }
                } else if decode_verify(ser, token.as_bytes(), Some(&enc_payload), &k).is_ok() {
                  log.push(format!("{tag}: attached and detached payload accepted together"));
                }
              }
              Err(e) => log.push(format!("{tag}: own token rejected: {e}")),
            }
          }
        }
      }
    }
    // recipients that carry only an unprotected header (RFC 7515 7.2.1 allows it): the encoder signs "." || payload - the very bytes
    // the decoder reconstructs - alone, as first and as additional recipient of a general token
    {
      let mut uh = JwsHeader::new();
      uh.set_alg(JwsAlgorithm::EdDSA);
      uh.set_kid("did:example:123#k");
      let ph = header(None, true);
      for detached in [false, true] {
        let payload: &[u8] = b"{\"iss\":\"joe\"}";
        let enc_payload = identity_jose::jwu::encode_b64(payload);
        let det = if detached { Some(enc_payload.as_bytes()) } else { None };
        let want_input = {
          let mut v = vec![b'.'];
          v.extend_from_slice(enc_payload.as_bytes());
          v
        };
        // flattened
        if let Ok(e) = FlattenedJwsEncoder::new(payload, Recipient::new().unprotected(&uh), detached) {
          if e.signing_input() != want_input.as_slice() {
            log.push(format!("flattened, unprotected header only, detached={detached}: encoder signing input is not \".\" || payload"));
          }
          let sig = toy_sign(&k, e.signing_input());
          match e.into_jws(&sig) {
            Ok(token) => {
              // (verification needs a protected alg - C11 - so the decoder's view is compared: its signing input is the encoder's)
              match Decoder::new().decode_flattened_serialization(token.as_bytes(), det) {
                Ok(item) => {
                  if item.signing_input() != want_input.as_slice() || item.claims() != payload {
                    log.push(format!("flattened, unprotected header only, detached={detached}: the decoder's signing input / claims differ from what the encoder signed"));
                  }
                }
                Err(e) => log.push(format!("flattened, unprotected header only, detached={detached}: own token does not decode: {e}")),
              }
            }
            Err(e) => log.push(format!("flattened, unprotected header only: into_jws failed: {e}")),
          }
        } else {
          log.push("flattened encoder refuses a recipient with only an unprotected header".to_owned());
        }
        // general: (unprotected-only, protected) and (protected, unprotected-only)
        for first_unprotected in [true, false] {
          let (r1, r2) = if first_unprotected { (Recipient::new().unprotected(&uh), Recipient::new().protected(&ph)) } else { (Recipient::new().protected(&ph), Recipient::new().unprotected(&uh)) };
          let Ok(e) = GeneralJwsEncoder::new(payload, r1, detached) else {
            log.push("general encoder refuses the first recipient".to_owned());
            continue;
          };
          if first_unprotected && e.signing_input() != want_input.as_slice() {
            log.push(format!("general, unprotected-only first recipient, detached={detached}: encoder signing input is not \".\" || payload"));
          }
          let s1 = toy_sign(&k, e.signing_input());
          let e = e.set_signature(&s1);
          let Ok(e2) = e.add_recipient(r2) else {
            log.push("general encoder refuses the second recipient".to_owned());
            continue;
          };
          if !first_unprotected && e2.signing_input() != want_input.as_slice() {
            log.push(format!("general, unprotected-only second recipient, detached={detached}: encoder signing input is not \".\" || payload"));
          }
          let s2 = toy_sign(&k, e2.signing_input());
          match e2.set_signature(&s2).into_jws() {
            Ok(token) => {
              let v = JwsVerifierFn::from(toy_verify);
              match Decoder::new().decode_general_serialization(token.as_bytes(), det) {
                Err(e) => log.push(format!("general token with an unprotected-only recipient does not decode: {e}")),
                Ok(it) => {
                  let mut n = 0;
                  for item in it {
                    n += 1;
                    let unprotected_only = (n == 1) == first_unprotected;
                    match item {
                      Ok(i) => {
                        if i.claims() != payload {
                          log.push(format!("general (unprotected-only first: {first_unprotected}, detached={detached}): entry {n} hands back other claims"));
                        }
                        if unprotected_only && i.signing_input() != want_input.as_slice() {
                          log.push(format!("general (unprotected-only first: {first_unprotected}, detached={detached}): entry {n}: the decoder's signing input is not what the encoder signed"));
                        }
                        if !unprotected_only && i.verify(&v, &k).is_err() {
                          log.push(format!("general (unprotected-only first: {first_unprotected}, detached={detached}): protected entry {n} does not verify"));
                        }
                      }
                      Err(e) => log.push(format!("general (unprotected-only first: {first_unprotected}, detached={detached}): own entry {n} does not decode: {e}")),
                    }
                  }
                  if n != 2 {
                    log.push(format!("general token with two recipients yields {n} entries"));
                  }
                }
              }
            }
            Err(e) => log.push(format!("general into_jws failed: {e}")),
          }
        }
      }
    }
    // general serialization, hand-built: two signatures over one payload whose protected headers disagree on b64
    // (each item's claims follow *its own* protected header), both orders
    {
      let p = "aGVsbG8"; // base64url("hello"); also a legal unencoded payload
      let prot_enc = identity_jose::jwu::encode_b64(br#"{"alg":"EdDSA"}"#);
      let prot_raw = identity_jose::jwu::encode_b64(br#"{"alg":"EdDSA","b64":false,"crit":["b64"]}"#);
      let entry = |prot: &str| {
        let sig = toy_sign(&k, format!("{prot}.{p}").as_bytes());
        format!(r#"{{"protected":"{prot}","signature":"{}"}}"#, identity_jose::jwu::encode_b64(sig))
      };
      for order in [[&prot_enc, &prot_raw], [&prot_raw, &prot_enc]] {
        let token = format!(r#"{{"payload":"{p}","signatures":[{},{}]}}"#, entry(order[0]), entry(order[1]));
        let v = JwsVerifierFn::from(toy_verify);
        match Decoder::new().decode_general_serialization(token.as_bytes(), None) {
          Err(e) => log.push(format!("general token with mixed b64 does not decode: {e}")),
          Ok(it) => {
            for (n, item) in it.enumerate() {
              let want: &[u8] = if std::ptr::eq(order[n], &prot_enc) { b"hello" } else { p.as_bytes() };
              match item.and_then(|i| i.verify(&v, &k)) {
                Ok(t) => {
                  if t.claims.as_ref() != want {
                    log.push(format!("general token, signature {n}: claims {:?} do not follow that signature's own b64", String::from_utf8_lossy(&t.claims)));
                  }
                }
                Err(e) => log.push(format!("general token, signature {n} rejected: {e}")),
              }
            }
          }
        }
        // unencoded first + payload that is not base64url: the encoded signature must fail to decode, not inherit raw claims
        let p2 = "hello world!";
        let e2 = |prot: &str| {
          let sig = toy_sign(&k, format!("{prot}.{p2}").as_bytes());
          format!(r#"{{"protected":"{prot}","signature":"{}"}}"#, identity_jose::jwu::encode_b64(sig))
        };
        let token = format!(r#"{{"payload":"{p2}","signatures":[{},{}]}}"#, e2(&prot_raw), e2(&prot_enc));
        if let Ok(it) = Decoder::new().decode_general_serialization(token.as_bytes(), None) {
          let items: Vec<_> = it.collect();
          if items.len() == 2 && items[1].is_ok() {
            log.push("general token: b64=true signature over a non-base64url payload accepted after a b64=false one".to_owned());
          }
        }
      }
    }
    // accessors of a decoded item report the protected header's nonce / kid / alg as they stand (the empty string included)
    for nonce in ["", "n-0S6_WzA2Mj", " "] {
      for kid in ["", "did:example:123#k"] {
        let mut h = JwsHeader::new();
        h.set_alg(JwsAlgorithm::EdDSA);
        h.set_nonce(nonce);
        h.set_kid(kid);
        if let Ok(e) = CompactJwsEncoder::new(b"payload", &h) {
          let sig = toy_sign(&k, e.signing_input());
          let token = e.into_jws(&sig);
          match Decoder::new().decode_compact_serialization(token.as_bytes(), None) {
            Ok(item) => {
              if item.nonce() != Some(nonce) || item.kid() != Some(kid) || item.alg() != Some(JwsAlgorithm::EdDSA) {
                log.push(format!("item accessors report nonce {:?} / kid {:?} / alg {:?} for a header carrying nonce {nonce:?}, kid {kid:?}, EdDSA", item.nonce(), item.kid(), item.alg()));
              }
              if item.protected_header().and_then(|p| p.nonce()) != item.nonce() {
                log.push("item.nonce() disagrees with the decoded protected header".to_owned());
              }
            }
            Err(e) => log.push(format!("own token with nonce {nonce:?} does not decode: {e}")),
          }
        }
      }
    }
    // compact segment count
    if let Ok(t) = encode(Ser::Compact, b"a", None, false, &k) {
      for bad in [format!("{t}.x"), format!("{t}."), t.rsplitn(2, '.').last().unwrap().to_owned()] {
        if decode_verify(Ser::Compact, bad.as_bytes(), None, &k).is_ok() {
          log.push(format!("compact token with a wrong segment count accepted: {bad}"));
        }
      }
    }
    // alg only in the unprotected header
    let hp = header(None, false);
    let mut hu = JwsHeader::new();
    hu.set_alg(JwsAlgorithm::EdDSA);
    if let Ok(e) = FlattenedJwsEncoder::new(b"a", Recipient::new().protected(&hp).unprotected(&hu), false) {
      let sig = toy_sign(&k, e.signing_input());
      if let Ok(t) = e.into_jws(&sig) {
        if decode_verify(Ser::Flattened, t.as_bytes(), None, &k).is_ok() {
          log.push("verified with alg only in the unprotected header".to_owned());
        }
      }
    }
    // unprotected header only
    if let Ok(e) = FlattenedJwsEncoder::new(b"a", Recipient::new().unprotected(&hu), false) {
      let sig = toy_sign(&k, e.signing_input());
      if let Ok(t) = e.into_jws(&sig) {
        if decode_verify(Ser::Flattened, t.as_bytes(), None, &k).is_ok() {
          log.push("verified without a protected header".to_owned());
        }
        // the token still has to decode to the payload that was handed to the encoder (b64 defaults to true)
        match Decoder::new().decode_flattened_serialization(t.as_bytes(), None) {
          Ok(item) => {
            if item.claims() != b"a" {
              log.push("token without protected header decodes to a different payload".to_owned());
            }
          }
          Err(e) => log.push(format!("own token without protected header does not decode: {e}")),
        }
      }
    }
    log
  });
  match r {
    Err(msg) => Ok(format!("JWS decode/verify panicked: {msg}")),
    Ok(log) if !log.is_empty() => Ok(log[..log.len().min(4)].join("; ")),
    Ok(_) => Err("JWS binding battery: all expectations met".to_owned()),
  }
}

/// C11: header policy decision table through every encoder and the decoder
pub fn policy(_cex: &Value) -> Result<String, String> {
  #[derive(Clone, Copy, Debug)]
  struct H {
    alg: bool,
    b64: Option<bool>,
    crit: Option<&'static [&'static str]>,
    kid: bool,
  }
  fn build(h: H) -> JwsHeader {
    let mut x = JwsHeader::new();
    if h.alg {
      x.set_alg(JwsAlgorithm::EdDSA);
    }
    if let Some(b) = h.b64 {
      x.set_b64(b);
    }
    if let Some(c) = h.crit {
      x.set_crit(c.iter().copied());
    }
    if h.kid {
      x.set_kid("k");
    }
    x
  }
  /// reference policy (RFC 7515 4.1.11, RFC 7797 3 + 6)
  fn allowed(p: Option<H>, u: Option<H>) -> bool {
    if p.is_none() && u.is_none() {
      return false;
    }
    if let Some(u) = u {
      if u.crit.is_some() || u.b64.is_some() {
        return false;
      }
      if let Some(p) = p {
        if (p.alg && u.alg) || (p.kid && u.kid) {
          return false;
        }
      }
    }
    if let Some(p) = p {
      if let Some(c) = p.crit {
        if c.is_empty() || c.iter().any(|n| *n != "b64") || p.b64.is_none() {
          return false;
        }
      }
      if p.b64.is_some() && p.crit.is_none() {
        return false;
      }
    }
    true
  }
  let r = no_panic(|| -> Vec<String> {
    let mut log = Vec::new();
    let crits: [Option<&'static [&'static str]>; 7] = [None, Some(&[]), Some(&["b64"]), Some(&["b64", "b64"]), Some(&["alg"]), Some(&["exp"]), Some(&["x-unknown"])];
    let mut hs: Vec<Option<H>> = vec![None];
    for alg in [false, true] {
      for b64 in [None, Some(true), Some(false)] {
        for crit in crits {
          for kid in [false, true] {
            hs.push(Some(H { alg, b64, crit, kid }));
          }
        }
      }
    }
    let k = key("keyA", None);
    for p in &hs {
      for u in &hs {
        // keep the table tractable: vary the unprotected side only on alg / b64 / crit-presence / kid
        if let Some(u) = u {
          if matches!(u.crit, Some(c) if c != ["b64"]) {
            continue;
          }
        }
        let want = allowed(*p, *u);
        let (ph, uh) = (p.map(build), u.map(build));
        let mut rec = Recipient::new();
        if let Some(h) = &ph {
          rec = rec.protected(h);
        }
        if let Some(h) = &uh {
          rec = rec.unprotected(h);
        }
        let tag = format!("protected={p:?} unprotected={u:?}");
        let fl = FlattenedJwsEncoder::new(b"payload", rec, false);
        if fl.is_ok() != want {
          log.push(format!("flattened encoder {} {tag}", if want { "rejects" } else { "accepts" }));
        }
        let ge = GeneralJwsEncoder::new(b"payload", rec, false);
        if ge.is_ok() != want {
          log.push(format!("general encoder {} {tag}", if want { "rejects" } else { "accepts" }));
        }
        if u.is_none() {
          if let Some(h) = &ph {
            let ce = CompactJwsEncoder::new_with_options(b"payload", h, CompactJwsEncodingOptions::NonDetached { charset_requirements: CharSet::Default });
            if ce.is_ok() != want {
              log.push(format!("compact encoder {} {tag}", if want { "rejects" } else { "accepts" }));
            }
          }
        }
        // decoder: hand-written flattened JSON so that rejected sets reach it too
        let pj = ph.as_ref().map(|h| identity_jose::jwu::encode_b64(serde_json::to_vec(h).unwrap()));
        let unencoded = p.and_then(|p| p.b64) == Some(false);
        let payload = if unencoded { "payload".to_owned() } else { identity_jose::jwu::encode_b64(b"payload") };
        let mut si = pj.clone().unwrap_or_default().into_bytes();
        si.push(b'.');
        si.extend_from_slice(payload.as_bytes());
        let sig = identity_jose::jwu::encode_b64(toy_sign(&k, &si));
        let mut obj = serde_json::Map::new();
        obj.insert("payload".into(), payload.clone().into());
        if let Some(pj) = &pj {
          obj.insert("protected".into(), pj.clone().into());
        }
        if let Some(h) = &uh {
          obj.insert("header".into(), serde_json::to_value(h).unwrap());
        }
        obj.insert("signature".into(), sig.into());
        let text = serde_json::Value::Object(obj).to_string();
        let dec = Decoder::new().decode_flattened_serialization(text.as_bytes(), None);
        if dec.is_ok() != want {
          log.push(format!("decoder {} {tag}", if want { "rejects" } else { "accepts" }));
        }
        if log.len() > 12 {
          return log;
        }
      }
    }
    // critical names are compared exactly: case variants of a permitted / a pre-defined name, backed by a custom parameter of that
    // very name (so that the "listed names are present" rule is met), are not understood extensions
    for (name, with_b64) in [("B64", false), ("B64", true), ("b64 ", true), ("Alg", false), ("KID", false), ("X5T#s256", false), ("x5t#s256", false)] {
      let mut h = JwsHeader::new();
      h.set_alg(JwsAlgorithm::EdDSA);
      if with_b64 {
        h.set_b64(false);
      }
      h.set_crit([name]);
      let mut m = std::collections::BTreeMap::new();
      m.insert(name.to_owned(), serde_json::Value::Bool(false));
      h.set_custom(m);
      let tag = format!("crit [{name:?}] with a custom parameter of that name (b64 set: {with_b64})");
      if CompactJwsEncoder::new(b"payload", &h).is_ok() {
        log.push(format!("compact encoder accepts {tag}"));
      }
      let rec = Recipient::new().protected(&h);
      if FlattenedJwsEncoder::new(b"payload", rec, false).is_ok() || GeneralJwsEncoder::new(b"payload", rec, false).is_ok() {
        log.push(format!("json encoder accepts {tag}"));
      }
      let pj = identity_jose::jwu::encode_b64(serde_json::to_vec(&h).unwrap());
      let payload = if with_b64 { "payload".to_owned() } else { identity_jose::jwu::encode_b64(b"payload") };
      let mut si = pj.clone().into_bytes();
      si.push(b'.');
      si.extend_from_slice(payload.as_bytes());
      let sig = identity_jose::jwu::encode_b64(toy_sign(&k, &si));
      let compact = format!("{pj}.{payload}.{sig}");
      if Decoder::new().decode_compact_serialization(compact.as_bytes(), None).is_ok() {
        log.push(format!("decoder accepts {tag}"));
      }
    }
    // every shared parameter name makes the header pair overlap
    type Setter = fn(&mut JwsHeader);
    let setters: Vec<(&str, Setter)> = vec![
      ("typ", |h| h.set_typ("a")),
      ("cty", |h| h.set_cty("a")),
      ("nonce", |h| h.set_nonce("a")),
      ("x5t", |h| h.set_x5t("a")),
      ("x5t#S256", |h| h.set_x5t_s256("a")),
      ("x5c", |h| h.set_x5c(["a"])),
      ("url", |h| h.set_url(identity_core::common::Url::parse("https://a.example").unwrap())),
      ("jku", |h| h.set_jku(identity_core::common::Url::parse("https://a.example").unwrap())),
      ("x5u", |h| h.set_x5u(identity_core::common::Url::parse("https://a.example").unwrap())),
      ("jwk", |h| h.set_jwk(key("k", None))),
      ("custom", |h| {
        let mut m = std::collections::BTreeMap::new();
        m.insert("x".to_owned(), serde_json::Value::Bool(true));
        h.set_custom(m)
      }),
    ];
    for (i, (n1, s1)) in setters.iter().enumerate() {
      for (j, (n2, s2)) in setters.iter().enumerate() {
        let mut ph = build(H { alg: true, b64: None, crit: None, kid: false });
        let mut uh = JwsHeader::new();
        s1(&mut ph);
        s2(&mut uh);
        let got = FlattenedJwsEncoder::new(b"payload", Recipient::new().protected(&ph).unprotected(&uh), false).is_ok();
        if got != (i != j) {
          log.push(format!("protected {n1} + unprotected {n2}: {}", if got { "accepted" } else { "rejected" }));
        }
      }
    }
    // every name in crit has to be an understood extension - one understood name does not vouch for the rest - and an unprotected
    // header never carries crit, whatever other (registered or custom) parameters sit next to it
    {
      for (list, extra_present) in [(vec!["b64", "x-policy"], true), (vec!["x-policy", "b64"], true), (vec!["b64", "exp"], true), (vec!["b64", "x-policy"], false), (vec!["b64", "b64", "x-policy"], true)] {
        let mut h = JwsHeader::new();
        h.set_alg(JwsAlgorithm::EdDSA);
        h.set_b64(false);
        h.set_crit(list.iter().copied());
        if extra_present {
          let mut m = std::collections::BTreeMap::new();
          m.insert(list.iter().find(|n| **n != "b64").unwrap().to_string(), serde_json::json!(1));
          h.set_custom(m);
        }
        let tag = format!("crit {list:?} (the other extension present in the header: {extra_present})");
        if CompactJwsEncoder::new_with_options(b"payload", &h, CompactJwsEncodingOptions::Detached).is_ok() {
          log.push(format!("compact encoder accepts {tag}"));
        }
        let rec = Recipient::new().protected(&h);
        if FlattenedJwsEncoder::new(b"payload", rec, true).is_ok() || GeneralJwsEncoder::new(b"payload", rec, true).is_ok() {
          log.push(format!("json encoder accepts {tag}"));
        }
        let pj = identity_jose::jwu::encode_b64(serde_json::to_vec(&h).unwrap());
        let sig = identity_jose::jwu::encode_b64(toy_sign(&k, format!("{pj}.payload").as_bytes()));
        if Decoder::new().decode_compact_serialization(format!("{pj}..{sig}").as_bytes(), Some(b"payload")).is_ok() {
          log.push(format!("decoder accepts {tag}"));
        }
      }
      for (what, with_custom, with_kid) in [("alone", false, false), ("next to a custom parameter", true, false), ("next to kid", false, true), ("next to kid and a custom parameter", true, true)] {
        let ph = build(H { alg: true, b64: None, crit: None, kid: false });
        let mut uh = JwsHeader::new();
        uh.set_crit(["exp"]);
        if with_custom {
          let mut m = std::collections::BTreeMap::new();
          m.insert("exp".to_owned(), serde_json::json!(1));
          m.insert("x-trace".to_owned(), serde_json::json!("abc"));
          uh.set_custom(m);
        }
        if with_kid {
          uh.set_kid("k");
        }
        let rec = Recipient::new().protected(&ph).unprotected(&uh);
        if FlattenedJwsEncoder::new(b"payload", rec, false).is_ok() || GeneralJwsEncoder::new(b"payload", rec, false).is_ok() {
          log.push(format!("encoder accepts crit in the unprotected header ({what})"));
        }
        let pj = identity_jose::jwu::encode_b64(serde_json::to_vec(&ph).unwrap());
        let payload = identity_jose::jwu::encode_b64(b"payload");
        let sig = identity_jose::jwu::encode_b64(toy_sign(&k, format!("{pj}.{payload}").as_bytes()));
        let text = serde_json::json!({"payload": payload, "protected": pj, "header": serde_json::to_value(&uh).unwrap(), "signature": sig}).to_string();
        if Decoder::new().decode_flattened_serialization(text.as_bytes(), None).is_ok() {
          log.push(format!("decoder accepts crit in the unprotected header ({what})"));
        }
      }
    }
    // custom parameters overlap by *name*: the same name with other values (or among other names) on both sides is an overlap;
    // distinct names are not - through the encoders and the decoder
    for (pv, uv, extra, overlap) in [
      (serde_json::json!(1), serde_json::json!(2), false, true),
      (serde_json::json!("a"), serde_json::json!({"a": 1}), false, true),
      (serde_json::json!(null), serde_json::json!(false), true, true),
      (serde_json::json!(1), serde_json::json!(1), true, true),
      (serde_json::json!(1), serde_json::json!(2), true, false),
    ] {
      let mut ph = build(H { alg: true, b64: None, crit: None, kid: false });
      let mut uh = JwsHeader::new();
      let mut pm = std::collections::BTreeMap::new();
      let mut um = std::collections::BTreeMap::new();
      pm.insert("x-shared".to_owned(), pv.clone());
      um.insert(if overlap { "x-shared".to_owned() } else { "x-other".to_owned() }, uv.clone());
      if extra {
        pm.insert("x-left".to_owned(), serde_json::json!(true));
        um.insert("x-right".to_owned(), serde_json::json!(true));
      }
      ph.set_custom(pm);
      uh.set_custom(um);
      let tag = format!("custom parameter on both sides (same name: {overlap}, values {pv} / {uv}, other names alongside: {extra})");
      let rec = Recipient::new().protected(&ph).unprotected(&uh);
      if FlattenedJwsEncoder::new(b"payload", rec, false).is_ok() == overlap || GeneralJwsEncoder::new(b"payload", rec, false).is_ok() == overlap {
        log.push(format!("encoder {} {tag}", if overlap { "accepts" } else { "rejects" }));
      }
      let pj = identity_jose::jwu::encode_b64(serde_json::to_vec(&ph).unwrap());
      let payload = identity_jose::jwu::encode_b64(b"payload");
      let sig = identity_jose::jwu::encode_b64(toy_sign(&k, format!("{pj}.{payload}").as_bytes()));
      let text = serde_json::json!({"payload": payload, "protected": pj, "header": serde_json::to_value(&uh).unwrap(), "signature": sig}).to_string();
      if Decoder::new().decode_flattened_serialization(text.as_bytes(), None).is_ok() == overlap {
        log.push(format!("decoder {} {tag}", if overlap { "accepts" } else { "rejects" }));
      }
    }
    // an extension that is present but not implemented must not be accepted as critical
    {
      let mut ph = build(H { alg: true, b64: None, crit: Some(&["x-unknown"]), kid: false });
      let mut m = std::collections::BTreeMap::new();
      m.insert("x-unknown".to_owned(), serde_json::Value::Bool(true));
      ph.set_custom(m);
      if CompactJwsEncoder::new(b"payload", &ph).is_ok() {
        log.push("crit naming a present but unimplemented extension accepted".into());
      }
    }
    // recipients disagreeing on b64
    let a = build(H { alg: true, b64: None, crit: None, kid: false });
    let b = build(H { alg: true, b64: Some(false), crit: Some(&["b64"]), kid: false });
    if let Ok(e) = GeneralJwsEncoder::new(b"payload", Recipient::new().protected(&a), false) {
      let e = e.set_signature(b"s");
      if e.add_recipient(Recipient::new().protected(&b)).is_ok() {
        log.push("general encoder accepts recipients that disagree on b64".into());
      }
    }
    if let Ok(e) = GeneralJwsEncoder::new(b"payload", Recipient::new().protected(&a), false) {
      let e = e.set_signature(b"s");
      if e.add_recipient(Recipient::new().protected(&a)).is_err() {
        log.push("general encoder rejects a second recipient with the same b64".into());
      }
    }
    // every ordered pair of effective b64 settings, spelled in every way (absent header, b64 omitted, explicit true / false)
    {
      let explicit_true = build(H { alg: true, b64: Some(true), crit: Some(&["b64"]), kid: false });
      let mut unprot = JwsHeader::new();
      unprot.set_kid("k");
      let forms: Vec<(&str, Option<&JwsHeader>, bool)> =
        vec![("no protected header", None, true), ("b64 omitted", Some(&a), true), ("b64=true", Some(&explicit_true), true), ("b64=false", Some(&b), false)];
      for (n1, h1, e1) in &forms {
        for (n2, h2, e2) in &forms {
          fn mk<'a>(h: Option<&'a JwsHeader>, unprot: &'a JwsHeader) -> Recipient<'a> {
            match h {
              Some(h) => Recipient::new().protected(h),
              None => Recipient::new().unprotected(unprot),
            }
          }
          if let Ok(e) = GeneralJwsEncoder::new(b"payload", mk(*h1, &unprot), false) {
            let e = e.set_signature(b"s");
            let got = e.add_recipient(mk(*h2, &unprot)).is_ok();
            if got != (e1 == e2) {
              log.push(format!("general encoder: first recipient {n1}, second {n2}: {}", if got { "accepted" } else { "rejected" }));
            }
          }
        }
      }
    }
    log
  });
  match r {
    Err(msg) => Ok(format!("header policy battery panicked: {msg}")),
    Ok(log) if !log.is_empty() => Ok(format!("{} deviations, e.g. {}", log.len(), log[..log.len().min(4)].join("; "))),
    Ok(_) => Err("header policy battery: all expectations met".to_owned()),
  }
}

/// C08: unencoded compact payload character rules (RFC 7797 5.2)
pub fn charset(_cex: &Value) -> Result<String, String> {
  let r = no_panic(|| -> Vec<String> {
    let mut log = Vec::new();
    let mut h = JwsHeader::new();
    h.set_alg(JwsAlgorithm::EdDSA);
    h.set_b64(false);
    h.set_crit(["b64"]);
    for cp in (0u32..0x100).chain([0x2028, 0x10FFFF]) {
      let Some(ch) = char::from_u32(cp) else { continue };
      let payload = format!("a{ch}b");
      let default_ok = (0x20..=0x7E).contains(&cp) && ch != '.';
      let url_ok = ch.is_ascii_alphanumeric() || ch == '-' || ch == '_' || ch == '~';
      for (cs, want, name) in [(CharSet::Default, default_ok, "Default"), (CharSet::UrlSafe, url_ok, "UrlSafe")] {
        let got = CompactJwsEncoder::new_with_options(payload.as_bytes(), &h, CompactJwsEncodingOptions::NonDetached { charset_requirements: cs }).is_ok();
        if got != want {
          log.push(format!("CharSet::{name}: U+{cp:04X} {}", if got { "accepted" } else { "rejected" }));
        }
      }
    }
    if CompactJwsEncoder::new_with_options(&[0x61, 0xFF], &h, CompactJwsEncodingOptions::NonDetached { charset_requirements: CharSet::Default }).is_ok() {
      log.push("invalid UTF-8 accepted as unencoded compact payload".into());
    }
    log
  });
  match r {
    Err(msg) => Ok(format!("charset battery panicked: {msg}")),
    Ok(log) if !log.is_empty() => Ok(format!("{} deviations, e.g. {}", log.len(), log[..log.len().min(4)].join("; "))),
    Ok(_) => Err("charset battery: all expectations met".to_owned()),
  }
}


/// `JwsAlgorithm::name()` against the registered names (RFC 7518 3.1, RFC 8037, RFC 8812), its serde form, Display and FromStr
pub fn alg_names(_cex: &Value) -> Result<String, String> {
  let want: [(JwsAlgorithm, &str); 15] = [
    (JwsAlgorithm::HS256, "HS256"), (JwsAlgorithm::HS384, "HS384"), (JwsAlgorithm::HS512, "HS512"),
    (JwsAlgorithm::RS256, "RS256"), (JwsAlgorithm::RS384, "RS384"), (JwsAlgorithm::RS512, "RS512"),
    (JwsAlgorithm::PS256, "PS256"), (JwsAlgorithm::PS384, "PS384"), (JwsAlgorithm::PS512, "PS512"),
    (JwsAlgorithm::ES256, "ES256"), (JwsAlgorithm::ES384, "ES384"), (JwsAlgorithm::ES512, "ES512"),
    (JwsAlgorithm::ES256K, "ES256K"), (JwsAlgorithm::NONE, "none"), (JwsAlgorithm::EdDSA, "EdDSA"),
  ];
  let r = no_panic(move || {
    let mut log = Vec::new();
    for (a, n) in want {
      let ser = serde_json::to_value(a).ok().and_then(|v| v.as_str().map(str::to_owned));
      if a.name() != n || a.to_string() != n || ser.as_deref() != Some(n) || n.parse::<JwsAlgorithm>().ok() != Some(a) {
        log.push(format!("{n}: name() = {:?}, Display = {:?}, serde = {ser:?}", a.name(), a.to_string()));
      }
    }
    log
  });
  match r {
    Err(msg) => Ok(format!("algorithm names panicked: {msg}")),
    Ok(log) if !log.is_empty() => Ok(log.join("; ")),
    Ok(_) => Err("every algorithm reports its registered name".to_owned()),
  }
}
