//! Native battery for C20 (resolver dispatch) - confirmation only: handlers that record what they were called with, DIDs of
//! registered / unregistered methods, duplicate inputs, and every completion order of three handlers that stay pending for a
//! prescribed number of polls.
use crate::*;
use identity_did::{CoreDID, DIDJwk, DID};
use identity_document::document::CoreDocument;
use identity_resolver::{ErrorCause, Resolver, SingleThreadedResolver};
use std::cell::RefCell;
use std::collections::HashMap;
use std::future::Future;
use std::pin::Pin;
use std::rc::Rc;
use std::sync::{Arc, Mutex};
use std::task::{Context, Poll};

/// completes after `n` polls
struct Delay(u32);
impl Future for Delay {
  type Output = ();
  fn poll(mut self: Pin<&mut Self>, cx: &mut Context<'_>) -> Poll<()> {
    if self.0 == 0 {
      Poll::Ready(())
    } else {
      self.0 -= 1;
      cx.waker().wake_by_ref();
      Poll::Pending
    }
  }
}

fn doc_for(did: &CoreDID, marker: &str) -> CoreDocument {
  let mut d = CoreDocument::builder(Default::default()).id(did.clone()).build().unwrap();
  d.properties_mut_unchecked().insert("handler".into(), marker.into());
  d
}
fn marker(d: &CoreDocument) -> String {
  d.properties().get("handler").and_then(|v| v.as_str()).unwrap_or("").to_owned()
}

#[derive(Debug)]
struct Boom(String);
impl std::fmt::Display for Boom {
  fn fmt(&self, f: &mut std::fmt::Formatter<'_>) -> std::fmt::Result {
    write!(f, "boom {}", self.0)
  }
}
impl std::error::Error for Boom {}

/// a DID type whose conversion from text is stricter than CoreDID's: method-specific id must start with 'x'
#[derive(Clone, Debug, PartialEq, Eq, Hash, PartialOrd, Ord)]
struct XDid(CoreDID);
impl TryFrom<&str> for XDid {
  type Error = Boom;
  fn try_from(s: &str) -> Result<Self, Boom> {
    let d = CoreDID::parse(s).map_err(|_| Boom("syntax".into()))?;
    if d.method_id().starts_with('x') {
      Ok(XDid(d))
    } else {
      Err(Boom("not-x".into()))
    }
  }
}
impl std::str::FromStr for XDid {
  type Err = Boom;
  fn from_str(s: &str) -> Result<Self, Boom> {
    XDid::try_from(s)
  }
}
impl TryFrom<CoreDID> for XDid {
  type Error = Boom;
  fn try_from(d: CoreDID) -> Result<Self, Boom> {
    XDid::try_from(d.as_str())
  }
}

impl AsRef<CoreDID> for XDid {
  fn as_ref(&self) -> &CoreDID {
    &self.0
  }
}
impl From<XDid> for String {
  fn from(d: XDid) -> String {
    d.0.into_string()
  }
}
impl From<XDid> for CoreDID {
  fn from(d: XDid) -> CoreDID {
    d.0
  }
}

type Log = Arc<Mutex<Vec<String>>>;

fn send_sync_resolver(log: &Log, delays: HashMap<&'static str, u32>) -> Resolver<CoreDocument> {
  let mut r: Resolver<CoreDocument> = Resolver::new();
  for m in ["foo", "bar", "baz"] {
    let l = log.clone();
    let dl = delays.clone();
    r.attach_handler(m.to_owned(), move |did: CoreDID| {
      let l = l.clone();
      let n = dl.get(did.method_id()).copied().unwrap_or(0);
      async move {
        Delay(n).await;
        l.lock().unwrap().push(format!("{m}<-{did}"));
        if did.method_id() == "fail" {
          Err(Boom(format!("{m}")))
        } else {
          Ok(doc_for(&did, m))
        }
      }
    });
  }
  let l = log.clone();
  r.attach_handler("xm".to_owned(), move |did: XDid| {
    let l = l.clone();
    async move {
      l.lock().unwrap().push(format!("xm<-{}", did.0));
      Ok::<_, Boom>(doc_for(&did.0, "xm"))
    }
  });
  r
}

pub fn resolver(cex: &Value) -> Result<String, String> {
  let only: Option<String> = cex.get("only").and_then(Value::as_str).map(str::to_owned);
  let r = no_panic(|| -> Vec<String> {
    let mut out: Vec<String> = Vec::new();
    let d = |s: &str| CoreDID::parse(s).unwrap();
    // ------------------------------------------------------------------------------------------------------------- [dispatch]
    {
      let log: Log = Default::default();
      let r = send_sync_resolver(&log, HashMap::new());
      for (did, want) in [("did:foo:1", "foo"), ("did:bar:1", "bar"), ("did:baz:foo", "baz"), ("did:foo:bar", "foo"), ("did:bar:foo:baz", "bar")] {
        log.lock().unwrap().clear();
        match storage_block_on(r.resolve(&d(did))) {
          Ok(doc) => {
            if marker(&doc) != want || doc.id().as_str() != did {
              out.push(format!("[dispatch] {did} answered by handler {:?} with document {}", marker(&doc), doc.id()));
            }
          }
          Err(e) => out.push(format!("[dispatch] {did} with a registered method fails: {e}")),
        }
        let l = log.lock().unwrap().clone();
        if l != vec![format!("{want}<-{did}")] {
          out.push(format!("[dispatch] resolving {did} invoked {l:?}"));
        }
      }
      for did in ["did:fo:1", "did:fooo:1", "did:oof:foo", "did:x:foo", "did:jwk:foo"] {
        log.lock().unwrap().clear();
        match storage_block_on(r.resolve(&d(did))) {
          Ok(doc) => out.push(format!("[dispatch] {did} has no handler but resolved to {}", doc.id())),
          Err(e) => {
            if !matches!(e.error_cause(), ErrorCause::UnsupportedMethodError { method, .. } if did.split(':').nth(1) == Some(method.as_str())) {
              out.push(format!("[dispatch] {did} without handler reports {e:?}"));
            }
          }
        }
        if !log.lock().unwrap().is_empty() {
          out.push(format!("[dispatch] {did} has no handler but a handler ran: {:?}", log.lock().unwrap()));
        }
      }
      // handler failure and conversion failure
      log.lock().unwrap().clear();
      match storage_block_on(r.resolve(&d("did:bar:fail"))) {
        Err(e) if matches!(e.error_cause(), ErrorCause::HandlerError { source, .. } if source.to_string() == "boom bar") => {}
        other => out.push(format!("[dispatch] failing handler reported as {:?}", other.map(|d| d.id().to_string()))),
      }
      if *log.lock().unwrap() != vec!["bar<-did:bar:fail".to_owned()] {
        out.push(format!("[dispatch] failing resolution invoked {:?}", log.lock().unwrap()));
      }
      log.lock().unwrap().clear();
      match storage_block_on(r.resolve(&d("did:xm:y1"))) {
        Err(e) if matches!(e.error_cause(), ErrorCause::DIDParsingError { source, .. } if source.to_string() == "boom not-x") => {}
        other => out.push(format!("[dispatch] DID refused by the handler's type reported as {:?}", other.map(|d| d.id().to_string()))),
      }
      if !log.lock().unwrap().is_empty() {
        out.push("[dispatch] handler ran although its DID type refused the input".into());
      }
      match storage_block_on(r.resolve(&d("did:xm:x1"))) {
        Ok(doc) if marker(&doc) == "xm" && doc.id().as_str() == "did:xm:x1" => {}
        other => out.push(format!("[dispatch] did:xm:x1 gives {:?}", other.map(|d| d.id().to_string()))),
      }
      // re-attaching replaces, attaching another method does not disturb
      let mut r = r;
      let l2 = log.clone();
      r.attach_handler("foo".to_owned(), move |did: CoreDID| {
        let l = l2.clone();
        async move {
          l.lock().unwrap().push(format!("foo2<-{did}"));
          Ok::<_, Boom>(doc_for(&did, "foo2"))
        }
      });
      log.lock().unwrap().clear();
      let a = storage_block_on(r.resolve(&d("did:foo:1"))).map(|d| marker(&d)).unwrap_or_default();
      let b = storage_block_on(r.resolve(&d("did:bar:1"))).map(|d| marker(&d)).unwrap_or_default();
      if a != "foo2" || b != "bar" || *log.lock().unwrap() != vec!["foo2<-did:foo:1".to_owned(), "bar<-did:bar:1".to_owned()] {
        out.push(format!("[dispatch] after re-attaching foo: {a} {b} {:?}", log.lock().unwrap()));
      }
      // method names are registered as given: a handler under "FOO" / " bar" answers no DID (DID method names are lower case)
      {
        let mut odd: Resolver<CoreDocument> = Resolver::new();
        for m in ["FOO", " bar", "baz "] {
          odd.attach_handler(m.to_owned(), move |did: CoreDID| async move { Ok::<_, Boom>(doc_for(&did, m)) });
        }
        for did in ["did:foo:1", "did:bar:1", "did:baz:1"] {
          if let Ok(doc) = storage_block_on(odd.resolve(&d(did))) {
            out.push(format!("[dispatch] {did} answered by the handler registered as {:?}", marker(&doc)));
          }
        }
      }
      // single-threaded flavour
      let seen: Rc<RefCell<Vec<String>>> = Default::default();
      let mut st: SingleThreadedResolver<CoreDocument> = SingleThreadedResolver::new();
      for m in ["foo", "bar"] {
        let s = seen.clone();
        st.attach_handler(m.to_owned(), move |did: CoreDID| {
          let s = s.clone();
          async move {
            s.borrow_mut().push(format!("{m}<-{did}"));
            Ok::<_, Boom>(doc_for(&did, m))
          }
        });
      }
      let a = storage_block_on(st.resolve(&d("did:bar:9"))).map(|d| (marker(&d), d.id().to_string()));
      let b = storage_block_on(st.resolve(&d("did:nope:9"))).map(|d| d.id().to_string());
      if !matches!(&a, Ok((m, id)) if m == "bar" && id == "did:bar:9") || b.is_ok() || *seen.borrow() != vec!["bar<-did:bar:9".to_owned()] {
        out.push(format!("[dispatch] single-threaded resolver: {a:?} {b:?} {:?}", seen.borrow()));
      }
    }
    // ------------------------------------------------------------------------------------------------------------------ [multi]
    {
      // every assignment of delays 0..3 to three DIDs = every completion order (and ties)
      for da in 0..3u32 {
        for db in 0..3u32 {
          for dc in 0..3u32 {
            let log: Log = Default::default();
            let delays: HashMap<&'static str, u32> = [("a", da), ("b", db), ("c", dc)].into_iter().collect();
            let r = send_sync_resolver(&log, delays);
            let input = vec![d("did:foo:a"), d("did:bar:b"), d("did:foo:a"), d("did:baz:c"), d("did:bar:b")];
            match storage_block_on(r.resolve_multiple(&input)) {
              Ok(map) => {
                let mut got: Vec<(String, String)> = map.iter().map(|(k, v)| (k.to_string(), format!("{}@{}", marker(v), v.id()))).collect();
                got.sort();
                let want = vec![
                  ("did:bar:b".to_owned(), "bar@did:bar:b".to_owned()),
                  ("did:baz:c".to_owned(), "baz@did:baz:c".to_owned()),
                  ("did:foo:a".to_owned(), "foo@did:foo:a".to_owned()),
                ];
                if got != want {
                  out.push(format!("[multi] delays {da}{db}{dc}: result {got:?}"));
                }
              }
              Err(e) => out.push(format!("[multi] delays {da}{db}{dc}: error {e}")),
            }
            let mut l = log.lock().unwrap().clone();
            l.sort();
            if l != vec!["bar<-did:bar:b".to_owned(), "baz<-did:baz:c".to_owned(), "foo<-did:foo:a".to_owned()] {
              out.push(format!("[multi] delays {da}{db}{dc}: handler invocations {l:?}"));
            }
          }
        }
      }
      let log: Log = Default::default();
      let r = send_sync_resolver(&log, HashMap::new());
      // one, none, unsupported among supported, failing among succeeding
      match storage_block_on(r.resolve_multiple(&[d("did:foo:only")])) {
        Ok(m) if m.len() == 1 && m.get(&d("did:foo:only")).map(marker).as_deref() == Some("foo") => {}
        other => out.push(format!("[multi] single input gives {:?}", other.map(|m| m.len()))),
      }
      match storage_block_on(r.resolve_multiple::<CoreDID>(&[])) {
        Ok(m) if m.is_empty() => {}
        other => out.push(format!("[multi] empty input gives {:?}", other.map(|m| m.len()))),
      }
      match storage_block_on(r.resolve_multiple(&[d("did:foo:1"), d("did:nope:1"), d("did:bar:1")])) {
        Err(e) if matches!(e.error_cause(), ErrorCause::UnsupportedMethodError { method, .. } if method == "nope") => {}
        other => out.push(format!("[multi] unsupported method among the inputs gives {:?}", other.map(|m| m.len()))),
      }
      match storage_block_on(r.resolve_multiple(&[d("did:foo:1"), d("did:bar:fail"), d("did:baz:1")])) {
        Err(e) if matches!(e.error_cause(), ErrorCause::HandlerError { .. }) => {}
        other => out.push(format!("[multi] failing resolution among the inputs gives {:?}", other.map(|m| m.len()))),
      }
      // many DIDs of one method, last / first positions
      let many: Vec<CoreDID> = (0..9).map(|i| d(&format!("did:{}:n{i}", ["foo", "bar", "baz"][i % 3]))).collect();
      match storage_block_on(r.resolve_multiple(&many)) {
        Ok(m) => {
          for (i, k) in many.iter().enumerate() {
            let w = ["foo", "bar", "baz"][i % 3];
            if m.get(k).map(|v| (marker(v), v.id().to_string())) != Some((w.to_owned(), k.to_string())) {
              out.push(format!("[multi] nine inputs: entry for {k} is {:?}", m.get(k).map(|v| (marker(v), v.id().to_string()))));
            }
          }
          if m.len() != 9 {
            out.push(format!("[multi] nine distinct inputs give {} entries", m.len()));
          }
        }
        Err(e) => out.push(format!("[multi] nine inputs: {e}")),
      }
    }
    // -------------------------------------------------------------------------------------------------------------------- [jwk]
    {
      let mut r: Resolver<CoreDocument> = Resolver::new();
      r.attach_did_jwk_handler();
      let s = "did:jwk:eyJrdHkiOiJPS1AiLCJjcnYiOiJYMjU1MTkiLCJ1c2UiOiJlbmMiLCJ4IjoiM3A3YmZYdDl3YlRUVzJIQzdPUTFOei1EUThoYmVHZE5yZngtRkctSUswOCJ9";
      let did: DIDJwk = s.parse().unwrap();
      match storage_block_on(r.resolve(&did)) {
        Ok(doc) if doc.id().as_str() == s => {}
        other => out.push(format!("[jwk] did:jwk resolution gives {:?}", other.map(|d| d.id().to_string()))),
      }
      if storage_block_on(r.resolve(&CoreDID::parse("did:jwx:abc").unwrap())).is_ok() {
        out.push("[jwk] did:jwx resolved by the did:jwk handler".into());
      }
      // the method carries exactly the key the DID encodes: optional members survive, a private key is refused
      for json in [
        r#"{"kty":"OKP","crv":"Ed25519","x":"11qYAYKxCrfVS_7TyWQHOg7hcvPapiMlrwIaaPcHURo"}"#,
        r#"{"kty":"OKP","crv":"Ed25519","x":"11qYAYKxCrfVS_7TyWQHOg7hcvPapiMlrwIaaPcHURo","kid":"k1","alg":"EdDSA","use":"sig","key_ops":["verify"]}"#,
        r#"{"kty":"OKP","crv":"Ed25519","x":"11qYAYKxCrfVS_7TyWQHOg7hcvPapiMlrwIaaPcHURo","x5u":"https://example.com/cert","x5t":"abc","x5t#S256":"def","x5c":["MIIB"]}"#,
        r#"{"kty":"EC","crv":"P-256","x":"f83OJ3D2xF1Bg8vub9tLe1gHMzV76e8Tus9uPHvRVEU","y":"x_FEzRu9m36HLN_tue659LNpXW6pCyStikYjKIWI5a0","kid":"ec"}"#,
      ] {
        let want: identity_jose::jwk::Jwk = serde_json::from_str(json).unwrap();
        let text = format!("did:jwk:{}", identity_jose::jwu::encode_b64(json));
        let did: DIDJwk = match text.parse() {
          Ok(d) => d,
          Err(e) => {
            out.push(format!("[jwk] {text} refused: {e}"));
            continue;
          }
        };
        match storage_block_on(r.resolve(&did)) {
          Ok(doc) => {
            let ms: Vec<_> = doc.methods(None);
            let key = ms.first().and_then(|m| m.data().public_key_jwk().cloned());
            if ms.len() != 1 || key.as_ref() != Some(&want) || doc.id().as_str() != text || ms[0].id().did().as_str() != text {
              out.push(format!("[jwk] expansion of a did:jwk encoding {json}: {} method(s), key {:?}", ms.len(), key.map(|k| serde_json::to_string(&k).unwrap())));
            }
          }
          Err(e) => out.push(format!("[jwk] did:jwk encoding {json} does not resolve: {e}")),
        }
      }
      {
        let json = r#"{"kty":"OKP","crv":"Ed25519","x":"11qYAYKxCrfVS_7TyWQHOg7hcvPapiMlrwIaaPcHURo","d":"nWGxne_9WmC6hEr0kuwsxERJxWl7MmkZcDusAxyuf2A"}"#;
        let text = format!("did:jwk:{}", identity_jose::jwu::encode_b64(json));
        if let Ok(did) = text.parse::<DIDJwk>() {
          if let Ok(doc) = storage_block_on(r.resolve(&did)) {
            out.push(format!("[jwk] a did:jwk encoding a private key expands to a document with {} method(s)", doc.methods(None).len()));
          }
        }
      }
      let mut st: SingleThreadedResolver<CoreDocument> = SingleThreadedResolver::new();
      st.attach_did_jwk_handler();
      match storage_block_on(st.resolve(&did)) {
        Ok(doc) if doc.id().as_str() == s => {}
        other => out.push(format!("[jwk] single-threaded did:jwk resolution gives {:?}", other.map(|d| d.id().to_string()))),
      }
    }
    out
  });
  match r {
    Err(msg) => Ok(format!("resolver battery panicked: {msg}")),
    Ok(log) => {
      let log: Vec<String> = log.into_iter().filter(|l| only.as_ref().map(|o| l.contains(o.as_str())).unwrap_or(true)).collect();
      if log.is_empty() {
        Err("resolver battery: all expectations met".to_owned())
      } else {
        Ok(format!("{} deviations, e.g. {}", log.len(), log[..log.len().min(3)].join("; ")))
      }
    }
  }
}
