//! Native battery for C10 (DID / DID URL syntax) - confirmation of solver candidates only.
use crate::*;
use identity_did::{CoreDID, DIDUrl, RelativeDIDUrl, DID};

fn is_hex(c: u8) -> bool {
  c.is_ascii_hexdigit()
}

/// W3C DID core ABNF
fn abnf_method(s: &str) -> bool {
  !s.is_empty() && s.bytes().all(|c| c.is_ascii_lowercase() || c.is_ascii_digit())
}
fn abnf_chars(s: &str, extra: &str) -> bool {
  let b = s.as_bytes();
  let mut i = 0;
  while i < b.len() {
    let c = b[i];
    if c == b'%' {
      if i + 2 >= b.len() + 0 && !(i + 2 < b.len()) {
        return false;
      }
      if i + 2 >= b.len() || !is_hex(b[i + 1]) || !is_hex(b[i + 2]) {
        return false;
      }
      i += 3;
      continue;
    }
    if !(c.is_ascii_alphanumeric() || extra.as_bytes().contains(&c)) {
      return false;
    }
    i += 1;
  }
  true
}
fn abnf_method_id(s: &str) -> bool {
  !s.is_empty() && abnf_chars(s, ".-_:")
}
const PCHAR: &str = "-._~!$&'()*+,;=:@";
fn abnf_path(s: &str) -> bool {
  abnf_chars(s, &format!("{PCHAR}/"))
}
fn abnf_qf(s: &str) -> bool {
  abnf_chars(s, &format!("{PCHAR}/?"))
}

fn check_did(input: &str, log: &mut Vec<String>) {
  if let Ok(d) = CoreDID::parse(input) {
    if d.as_str() != input {
      log.push(format!("[stray] CoreDID::parse({input:?}).as_str() = {:?}", d.as_str()));
    }
    let re = format!("did:{}:{}", d.method(), d.method_id());
    if re != input {
      log.push(format!("[stray] CoreDID::parse({input:?}) accepted but components re-concatenate to {re:?}"));
    }
    if !abnf_method(d.method()) || !abnf_method_id(d.method_id()) {
      log.push(format!("[abnf] CoreDID::parse({input:?}) accepted with method {:?} / id {:?} outside the DID ABNF", d.method(), d.method_id()));
    }
    if input.contains(['/', '?', '#']) {
      log.push(format!("[stray] plain DID accepted with URL parts: {input:?}"));
    }
    if CoreDID::parse(d.to_string()).ok().as_ref() != Some(&d) {
      log.push(format!("[reparse] CoreDID {input:?} does not re-parse to itself"));
    }
  }
}

fn check_url(input: &str, log: &mut Vec<String>) {
  if let Ok(u) = DIDUrl::parse(input) {
    let s = u.to_string();
    if s != input {
      log.push(format!("[stray] DIDUrl::parse({input:?}).to_string() = {s:?}"));
    }
    let re = format!(
      "did:{}:{}{}{}{}",
      u.did().method(),
      u.did().method_id(),
      u.path().unwrap_or(""),
      u.query().map(|q| format!("?{q}")).unwrap_or_default(),
      u.fragment().map(|f| format!("#{f}")).unwrap_or_default()
    );
    if re != input {
      log.push(format!("[stray] DIDUrl {input:?}: components re-concatenate to {re:?}"));
    }
    if !abnf_method(u.did().method())
      || !abnf_method_id(u.did().method_id())
      || !abnf_path(u.path().unwrap_or(""))
      || !abnf_qf(u.query().unwrap_or(""))
      || !abnf_qf(u.fragment().unwrap_or(""))
    {
      log.push(format!("[abnf] DIDUrl {input:?} accepted with a component outside the ABNF"));
    }
    if u.did().as_str().contains(['/', '?', '#']) {
      log.push(format!("[stray] DIDUrl {input:?}: inner DID carries URL parts: {:?}", u.did().as_str()));
    }
  }
}

pub fn syntax(cex: &Value) -> Result<String, String> {
  let only: Option<String> = cex.get("only").and_then(Value::as_str).map(str::to_owned);
  let skip: Option<String> = cex.get("skip").and_then(Value::as_str).map(str::to_owned);
  let r = no_panic(|| -> Vec<String> {
    let mut log = Vec::new();
    // Baseline deviations of the pinned tree that no solver obligation decides are kept out of the battery so that it
    // only confirms what a candidate is about (see DESIGN.md, C10 "observed natively"): empty query/fragment dropped by
    // to_string ("did:a:b?" -> "did:a:b"), empty method name / id accepted by the setters, sloppy percent-escapes.
    let alphabet: Vec<&str> = vec![
      "a", "Z", "0", ":", ".", "-", "_", "%", "%4", "%41", "%zz", "%+f", "/", "?", "#", " ", "\n", "\t", "~", "@", "!", "é", "\u{0}",
      "+", "=", ";", "&", "*", "(", ")", "'", ",", "$", "[", "]", "{", "\\", "\"", "<", "^", "|", "`",
    ];
    let mut tails: Vec<String> = vec![String::new()];
    for a in &alphabet {
      tails.push(a.to_string());
      for b in &alphabet {
        tails.push(format!("{a}{b}"));
      }
    }
    for t in &tails {
      for input in [format!("did:a:b{t}"), format!("did:a:{t}b"), format!("did:a{t}:b"), format!("{t}did:a:b"), format!("did:a:b{t}c")] {
        if input.contains('%') {
          continue;
        }
        // an empty query / fragment is dropped by the third-party to_string: DID URL expectations skip those inputs, the
        // plain-DID expectations (no URL part at all, not even an empty one) do not
        let url_too = !(input.ends_with('?') || input.ends_with('#') || input.contains("?#") || input.contains("??") || input.contains("##"));
        let i2 = input.clone();
        match no_panic(move || {
          let mut l = Vec::new();
          check_did(&i2, &mut l);
          if url_too {
            check_url(&i2, &mut l);
          }
          l
        }) {
          Ok(l) => log.extend(l),
          Err(msg) => log.push(format!("[panic] parsing {input:?} panicked: {msg}")),
        }
      }
    }
    // equality, ordering and hashing of DID URLs agree with one another
    {
      use std::collections::hash_map::DefaultHasher;
      use std::hash::{Hash, Hasher};
      let texts = ["did:a:b", "did:a:c", "did:a:b/p", "did:a:b/P", "did:a:b?q", "did:a:b#f", "did:a:b#F", "did:a:b#key%2d1", "did:a:b#key%2D1", "did:a:b?k=%aF&x", "did:a:b?k=%Af&x", "did:a:b/%3a/p", "did:a:b/%3A/p", "did:a:b/p?q#f", "did:a:b/p?q#g"];
      let urls: Vec<DIDUrl> = texts.iter().filter_map(|t| DIDUrl::parse(t).ok()).collect();
      let h = |u: &DIDUrl| {
        let mut s = DefaultHasher::new();
        u.hash(&mut s);
        s.finish()
      };
      for a in &urls {
        for b in &urls {
          let (eq, ord) = (a == b, a.cmp(b));
          if eq != (ord == std::cmp::Ordering::Equal) {
            log.push(format!("[eqordhash] {a} vs {b}: == is {eq} but cmp is {ord:?}"));
          }
          if eq && h(a) != h(b) {
            log.push(format!("[eqordhash] {a} == {b} but their hashes differ"));
          }
          if ord != b.cmp(a).reverse() {
            log.push(format!("[eqordhash] {a} vs {b}: cmp is not antisymmetric"));
          }
          if eq != (a.to_string() == b.to_string()) {
            log.push(format!("[eqordhash] {a} vs {b}: == is {eq} although the string forms {}", if eq { "differ" } else { "are equal" }));
          }
        }
      }
    }
    // setters / join: either re-parses to itself or rejected leaving the value unchanged
    for t in &tails {
      if t.is_empty() || t.starts_with('?') || t.starts_with('#') || t.contains("?#") || t.ends_with('?') && t.len() > 1 {
        continue;
      }
      if t.contains('%') {
        continue;
      }
      if t.contains('%') {
        // malformed percent-escapes make the third-party parser panic (recorded under [panic] above)
        let t2 = t.clone();
        if no_panic(move || {
          let mut d = CoreDID::parse("did:a:b").unwrap();
          let _ = d.set_method_id(&t2).map(|_| CoreDID::parse(d.to_string()).is_ok());
          let _ = DIDUrl::parse("did:a:b").unwrap().join(format!("#{t2}")).map(|j| DIDUrl::parse(j.to_string()).is_ok());
        })
        .is_err()
        {
          log.push(format!("[panic] setter/join with {t:?} panicked"));
          continue;
        }
      }
      let mut d = CoreDID::parse("did:a:b").unwrap();
      let before = d.clone();
      match d.set_method_id(t) {
        Ok(()) => {
          if CoreDID::parse(d.to_string()).ok().as_ref() != Some(&d) || !abnf_method_id(t) {
            log.push(format!("[setter] set_method_id({t:?}) accepted: {:?} does not re-parse to itself / violates the ABNF", d.to_string()));
          }
        }
        Err(_) => {
          if d != before {
            log.push(format!("[setter] rejected set_method_id({t:?}) changed the value"));
          }
        }
      }
      let mut d = CoreDID::parse("did:a:b").unwrap();
      match d.set_method_name(t) {
        Ok(()) => {
          if CoreDID::parse(d.to_string()).ok().as_ref() != Some(&d) || !abnf_method(t) {
            log.push(format!("[setter] set_method_name({t:?}) accepted: {:?} does not re-parse to itself / violates the ABNF", d.to_string()));
          }
        }
        Err(_) => {
          if d != before {
            log.push(format!("[setter] rejected set_method_name({t:?}) changed the value"));
          }
        }
      }
      let base = DIDUrl::parse("did:a:b/p?q#f").unwrap();
      {
        // once per battery run: what an accepted setter stores is its argument (a bare "/" is a path), one-character non-paths are
        // refused, and URLs with a bare "/" path print as they were accepted
        static ONCE: std::sync::atomic::AtomicBool = std::sync::atomic::AtomicBool::new(false);
        if !ONCE.swap(true, std::sync::atomic::Ordering::SeqCst) {
          for arg in ["/", "/a", "/a/", "//", "/%41"] {
            let mut u = base.clone();
            if u.set_path(Some(arg)).is_ok() && u.path() != Some(arg) {
              log.push(format!("[setter] set_path({arg:?}) accepted but path() = {:?}", u.path()));
            }
          }
          for arg in ["a", "?", "#", "%", "p"] {
            let mut u = base.clone();
            if u.set_path(Some(arg)).is_ok() {
              log.push(format!("[setter] set_path({arg:?}) accepted although it is not a path (path() = {:?})", u.path()));
            }
          }
          for (arg, body) in [("?a=1", "a=1"), ("a=1", "a=1"), ("?%41", "%41")] {
            let mut u = base.clone();
            if u.set_query(Some(arg)).is_ok() && u.query() != Some(body) {
              log.push(format!("[setter] set_query({arg:?}) accepted but query() = {:?}", u.query()));
            }
          }
          for (arg, body) in [("#k", "k"), ("k", "k"), ("#%41", "%41")] {
            let mut u = base.clone();
            if u.set_fragment(Some(arg)).is_ok() && u.fragment() != Some(body) {
              log.push(format!("[setter] set_fragment({arg:?}) accepted but fragment() = {:?}", u.fragment()));
            }
          }
          for text in ["did:a:b/", "did:a:b/?q", "did:a:b/#f", "did:a:b/?q#f", "did:a:b//"] {
            if let Ok(u) = DIDUrl::parse(text) {
              if u.to_string() != text || u.path() != Some(&text["did:a:b".len()..text.find(|c| c == '?' || c == '#').unwrap_or(text.len())]) {
                log.push(format!("[setter] {text:?} is accepted but printed as {:?} with path {:?}", u.to_string(), u.path()));
              }
            }
          }
        }
      }
      for (which, lead) in [("path", "/"), ("query", "?"), ("fragment", "#"), ("query", ""), ("fragment", "")] {
        let arg = format!("{lead}{t}");
        let mut u = base.clone();
        let res = match which {
          "path" => u.set_path(Some(&arg)),
          "query" => u.set_query(Some(&arg)),
          _ => u.set_fragment(Some(&arg)),
        };
        match res {
          Ok(()) => {
            if DIDUrl::parse(u.to_string()).ok().as_ref() != Some(&u) {
              log.push(format!("[setter] set_{which}({arg:?}) accepted but {:?} does not re-parse to itself", u.to_string()));
            }
          }
          Err(_) => {
            if u != base {
              log.push(format!("[setter] rejected set_{which}({arg:?}) changed the value"));
            }
          }
        }
        if let Ok(j) = DIDUrl::parse("did:a:b").unwrap().join(&arg) {
          if DIDUrl::parse(j.to_string()).ok().as_ref() != Some(&j) {
            log.push(format!("[join] join({arg:?}) = {:?} does not re-parse to itself", j.to_string()));
          }
          if j.did().as_str() != "did:a:b" {
            log.push(format!("[join] join({arg:?}) altered the DID: {:?}", j.did().as_str()));
          }
        }
      }
    }
    // did:jwk: a text with DID-URL parts is not a DID - refused, or reproduced verbatim; never accepted with the parts dropped
    {
      use identity_did::DIDJwk;
      let id = identity_jose::jwu::encode_b64(br#"{"kty":"OKP","crv":"Ed25519","x":"11qYAYKxCrfVS_7TyWQHOg7hcvPapiMlrwIaaPcHURo"}"#);
      let plain = format!("did:jwk:{id}");
      if DIDJwk::parse(&plain).map(|d| d.to_string()).ok().as_deref() != Some(plain.as_str()) {
        log.push(format!("[jwk] {plain:?} is not accepted and reproduced"));
      }
      for tail in ["#0", "/path", "?q=1", "#", "/", "?", "/p?q#f", " "] {
        let text = format!("{plain}{tail}");
        for (how, got) in [("parse", DIDJwk::parse(&text).ok()), ("from_str", text.parse::<DIDJwk>().ok()), ("try_from(&str)", DIDJwk::try_from(text.as_str()).ok())] {
          if let Some(d) = got {
            if d.to_string() != text {
              log.push(format!("[jwk] DIDJwk::{how}({text:?}) accepted as {:?}", d.to_string()));
            }
          }
        }
      }
    }
    // the serde route accepts exactly what parse accepts and yields the same value (texts without '%': the parser's escape
    // handling is a recorded deviation)
    for text in [
      "did:example:123", "did:example:123/path", "did:example:123?q", "did:example:123#f", "did:example:123/path?q#f", "did:example:123 ", " did:example:123",
      "did:example:123\n", "did:Example:123", "did:example:", "did::123", "did:example:a:b", "did:example:a:", "example:123", "did:example:12 34", "did:iota:0x1234",
    ] {
      let json = serde_json::to_string(text).unwrap();
      let by_parse = CoreDID::parse(text).ok();
      let by_serde = serde_json::from_str::<CoreDID>(&json).ok();
      if by_parse != by_serde {
        log.push(format!("[serde] CoreDID: parse({text:?}) = {:?} but deserialisation gives {:?}", by_parse.map(|d| d.to_string()), by_serde.map(|d| d.to_string())));
      }
      let up = DIDUrl::parse(text).ok();
      let us = serde_json::from_str::<DIDUrl>(&json).ok();
      if up != us {
        log.push(format!("[serde] DIDUrl: parse({text:?}) = {:?} but deserialisation gives {:?}", up.map(|d| d.to_string()), us.map(|d| d.to_string())));
      }
    }
    log
  });
  match r {
    Err(msg) => Ok(format!("DID parsing panicked: {msg}")),
    Ok(log) => {
      let log: Vec<String> = log
        .into_iter()
        .filter(|l| only.as_ref().map(|o| l.contains(o.as_str())).unwrap_or(true))
        .filter(|l| skip.as_ref().map(|o| !l.contains(o.as_str())).unwrap_or(true))
        .collect();
      if log.is_empty() {
        Err("DID syntax battery: all expectations met".to_owned())
      } else {
        Ok(format!("{} deviations, e.g. {}", log.len(), log[..log.len().min(4)].join("; ")))
      }
    }
  }
}


/// Diagnostic: raw behaviour of parse / setters on given strings (never used to confirm a candidate).
pub fn probe(cex: &Value) -> Result<String, String> {
  let mut out = Vec::new();
  for s in cex.get("inputs").and_then(Value::as_array).cloned().unwrap_or_default() {
    let s = s.as_str().unwrap_or("").to_owned();
    let s2 = s.clone();
    let r = no_panic(move || {
      let d = CoreDID::parse(&s2).map(|d| format!("{:?}/{:?}", d.method(), d.method_id())).map_err(|e| e.to_string());
      let u = DIDUrl::parse(&s2).map(|u| format!("{} q={:?} f={:?}", u, u.query(), u.fragment())).map_err(|e| e.to_string());
      let mut c = CoreDID::parse("did:a:b").unwrap();
      let sid = c.set_method_id(&s2).map(|_| c.to_string()).map_err(|e| e.to_string());
      let mut c = CoreDID::parse("did:a:b").unwrap();
      let sn = c.set_method_name(&s2).map(|_| c.to_string()).map_err(|e| e.to_string());
      format!("did={d:?} url={u:?} set_id={sid:?} set_name={sn:?}")
    });
    out.push(format!("{s:?}: {r:?}"));
  }
  Err(out.join("\n"))
}


/// Confirmation of a parser-cursor candidate (C10 / C05): the given input through every DID entry point and accessor.
pub fn cursor(cex: &Value) -> Result<String, String> {
  let input = cex.get("input").and_then(Value::as_str).unwrap_or("").to_owned();
  let i2 = input.clone();
  let r = no_panic(move || {
    let mut notes = Vec::new();
    if let Ok(d) = CoreDID::parse(&i2) {
      let re = format!("did:{}:{}", d.method(), d.method_id());
      if re != i2 {
        notes.push(format!("CoreDID components re-concatenate to {re:?}"));
      }
    }
    if let Ok(u) = DIDUrl::parse(&i2) {
      let _ = (u.did().method().len(), u.did().method_id().len(), u.path().map(str::len), u.query().map(str::len), u.fragment().map(str::len));
      let _ = u.to_string();
    }
    notes
  });
  match r {
    Err(msg) => Ok(format!("parsing {input:?} or reading its components panicked: {msg}")),
    Ok(notes) if !notes.is_empty() => Ok(format!("{input:?}: {}", notes.join("; "))),
    Ok(_) => Err(format!("{input:?} is handled without panic and decomposes consistently")),
  }
}


/// Confirmation of a segment-scanner candidate: the text through the fragment / query / path setters against the ABNF.
pub fn segment(cex: &Value) -> Result<String, String> {
  let text = cex.get("text").and_then(Value::as_str).unwrap_or("").to_owned();
  let t2 = text.clone();
  let r = no_panic(move || {
    let mut notes = Vec::new();
    let mut u = RelativeDIDUrl::new();
    let body_f = t2.strip_prefix('#').unwrap_or(&t2);
    if u.set_fragment(Some(&t2)).is_ok() != (!body_f.is_empty() && abnf_qf(body_f)) {
      notes.push(format!("set_fragment({t2:?}) {}", if abnf_qf(body_f) { "rejected" } else { "accepted" }));
    }
    let body_q = t2.strip_prefix('?').unwrap_or(&t2);
    if u.set_query(Some(&t2)).is_ok() != (!body_q.is_empty() && abnf_qf(body_q)) {
      notes.push(format!("set_query({t2:?}) {}", if abnf_qf(body_q) { "rejected" } else { "accepted" }));
    }
    let p = format!("/{t2}");
    if u.set_path(Some(&p)).is_ok() != abnf_path(&p) {
      notes.push(format!("set_path({p:?}) {}", if abnf_path(&p) { "rejected" } else { "accepted" }));
    }
    notes
  });
  match r {
    Err(msg) => Ok(format!("setters panicked on {text:?}: {msg}")),
    Ok(notes) if !notes.is_empty() => Ok(notes.join("; ")),
    Ok(_) => Err(format!("{text:?}: setters agree with the ABNF")),
  }
}


/// Confirmation of a validator-kernel candidate (C10): `CoreDID::valid_method_id` / `valid_method_name` on the given text against
/// the W3C DID ABNF written out here (method-specific-id = *( *idchar ":" ) 1*idchar, idchar = ALPHA / DIGIT / "." / "-" / "_" /
/// pct-encoded; method-name = 1*( %x61-7A / DIGIT )).
pub fn validator(cex: &Value) -> Result<String, String> {
  let text = cex.get("text").and_then(Value::as_str).unwrap_or("").to_owned();
  let which = cex.get("which").and_then(Value::as_str).unwrap_or("id").to_owned();
  fn ref_id(s: &[u8]) -> bool {
    if s.is_empty() || *s.last().unwrap() == b':' {
      return false;
    }
    let mut i = 0;
    while i < s.len() {
      let c = s[i];
      if c == b'%' {
        if i + 2 >= s.len() + 0 && !(i + 2 < s.len()) {
          return false;
        }
        if !(s[i + 1].is_ascii_hexdigit() && s[i + 2].is_ascii_hexdigit()) {
          return false;
        }
        i += 3;
      } else if c.is_ascii_alphanumeric() || matches!(c, b'.' | b'-' | b'_' | b':') {
        i += 1;
      } else {
        return false;
      }
    }
    true
  }
  fn ref_name(s: &[u8]) -> bool {
    !s.is_empty() && s.iter().all(|c| c.is_ascii_lowercase() || c.is_ascii_digit())
  }
  let t2 = text.clone();
  let w2 = which.clone();
  match no_panic(move || if w2 == "name" { CoreDID::valid_method_name(&t2).is_ok() } else { CoreDID::valid_method_id(&t2).is_ok() }) {
    Err(msg) => Ok(format!("validator panicked on {text:?}: {msg}")),
    Ok(got) => {
      let want = if which == "name" { ref_name(text.as_bytes()) } else { ref_id(text.as_bytes()) };
      if got != want {
        Ok(format!("valid_method_{which}({text:?}) = {got}, the ABNF says {want}"))
      } else {
        Err(format!("valid_method_{which}({text:?}) = {got} agrees with the ABNF"))
      }
    }
  }
}
