//! Native replay of solver counterexamples through the real public API.
//! usage: replay <scenario> '<json>'  -> last stdout line `REPRODUCED <what>` or `NOT-REPRODUCED <what>`
use serde_json::Value;
use std::panic::catch_unwind;

mod statuslist;

fn main() {
  let args: Vec<String> = std::env::args().collect();
  let scenario = args.get(1).map(String::as_str).unwrap_or("");
  let cex: Value = serde_json::from_str(args.get(2).map(String::as_str).unwrap_or("{}")).unwrap_or(Value::Null);
  std::panic::set_hook(Box::new(|_| {}));
  let verdict: Result<String, String> = match scenario {
    "statuslist_set" | "statuslist_get" | "statuslist_set_get" => statuslist::run(scenario, &cex),
    "selftest" => selftest(),
    _ => Err(format!("unknown scenario {scenario}")),
  };
  match verdict {
    Ok(what) => println!("REPRODUCED {what}"),
    Err(what) => println!("NOT-REPRODUCED {what}"),
  }
}

/// runs `f`, mapping a panic of the code under test to Err(message)
pub fn no_panic<T>(f: impl FnOnce() -> T + std::panic::UnwindSafe) -> Result<T, String> {
  catch_unwind(f).map_err(|e| {
    e.downcast_ref::<String>()
      .cloned()
      .or_else(|| e.downcast_ref::<&str>().map(|s| s.to_string()))
      .unwrap_or_else(|| "panic".to_owned())
  })
}

pub fn u(cex: &Value, key: &str) -> u64 {
  cex.get(key).and_then(Value::as_u64).unwrap_or(0)
}
pub fn b(cex: &Value, key: &str) -> bool {
  cex.get(key).and_then(Value::as_bool).unwrap_or(false)
}

fn selftest() -> Result<String, String> {
  Err("selftest: nothing to reproduce".to_owned())
}
