//! Native replay of solver counterexamples through the real public API.
//! usage: replay <scenario> '<json>'  -> last stdout line `REPRODUCED <what>` or `NOT-REPRODUCED <what>`
extern crate alloc;
use serde_json::Value;
use std::panic::catch_unwind;

mod statuslist;
mod jws;
mod docops;
mod storage;
mod coll;
mod jwk;
mod revocation;
mod sdjwt;
mod signing;
mod ts;
mod cred;
mod did;
mod iota;
mod verifiers;
mod malformed;
mod resolver;

// the Kani harness bodies, compiled natively (cfg(not(kani))) and fed with CBMC's concrete values
#[macro_use]
#[path = "../../kani/src/sym.rs"]
pub mod sym;
#[path = "../../kani/src/stubs.rs"]
pub mod stubs;
#[path = "../../kani/src/c12.rs"]
pub mod c12;
#[path = "../../kani/src/c13.rs"]
pub mod c13;
#[path = "../../kani/src/c10.rs"]
pub mod c10;
#[path = "../../kani/src/c08.rs"]
pub mod c08;
#[path = "../../kani/src/c19.rs"]
pub mod c19;
#[path = "../../kani/src/c17.rs"]
pub mod c17;

fn kani_bodies() -> Vec<(&'static str, fn())> {
  let mut v: Vec<(&'static str, fn())> = Vec::new();
  v.extend_from_slice(c12::BODIES);
  v.extend_from_slice(c13::BODIES);
  v.extend_from_slice(c10::BODIES);
  v.extend_from_slice(c08::BODIES);
  v.extend_from_slice(c19::BODIES);
  v.extend_from_slice(c17::BODIES);
  v
}

/// re-runs harness body `name` natively on the values CBMC produced (in `kani::any()` call order)
fn kani_replay(cex: &Value) -> Result<String, String> {
  let name = cex.get("harness").and_then(Value::as_str).unwrap_or("");
  let vals: Vec<Vec<u8>> = cex
    .get("vals")
    .and_then(Value::as_array)
    .map(|a| {
      a.iter()
        .map(|v| v.as_array().map(|b| b.iter().map(|x| x.as_u64().unwrap_or(0) as u8).collect()).unwrap_or_default())
        .collect()
    })
    .unwrap_or_default();
  let body = kani_bodies().into_iter().find(|(n, _)| *n == name).map(|(_, f)| f).ok_or(format!("no native body for {name}"))?;
  sym::load(vals);
  match catch_unwind(body) {
    Ok(()) => Err(format!("{name}: body ran to completion natively on CBMC's values")),
    Err(e) => {
      if e.is::<sym::AssumeViolated>() {
        Err(format!("{name}: an assumption does not hold natively for CBMC's values"))
      } else if e.is::<sym::OutOfValues>() {
        Err(format!("{name}: native run asked for more values than CBMC's trace has"))
      } else {
        let msg = e
          .downcast_ref::<String>()
          .cloned()
          .or_else(|| e.downcast_ref::<&str>().map(|s| s.to_string()))
          .unwrap_or_else(|| "panic".to_owned());
        Ok(format!("{name}: {msg}"))
      }
    }
  }
}

fn main() {
  let args: Vec<String> = std::env::args().collect();
  let scenario = args.get(1).map(String::as_str).unwrap_or("");
  let cex: Value = serde_json::from_str(args.get(2).map(String::as_str).unwrap_or("{}")).unwrap_or(Value::Null);
  std::panic::set_hook(Box::new(|_| {}));
  let verdict: Result<String, String> = match scenario {
    "statuslist_set" | "statuslist_get" | "statuslist_set_get" => statuslist::run(scenario, &cex),
    "statuslist_oneway" => statuslist::oneway(&cex),
    "statuslist_codec" => statuslist::codec(&cex),
    "statuslist_status" => statuslist::status_eval(&cex),
    "jws_binding" => jws::binding(&cex),
    "jws_policy" => jws::policy(&cex),
    "jws_charset" => jws::charset(&cex),
    "state_metadata" => iota::state_metadata(&cex),
    "iota_did" => iota::iota_did(&cex),
    "did_syntax" => did::syntax(&cex),
    "did_probe" => did::probe(&cex),
    "verifier_dispatch" => verifiers::dispatch(&cex),
    "did_cursor" => did::cursor(&cex),
    "did_segment" => did::segment(&cex),
    "did_validator" => did::validator(&cex),
    "malformed_inputs" => malformed::malformed(&cex),
    "credential_validation" => cred::credential_validation(&cex),
    "presentation_validation" => cred::presentation_validation(&cex),
    "claims" => cred::claims(&cex),
    "timestamp" => ts::timestamp(&cex),
    "sd_jwt" => sdjwt::sd_jwt(&cex),
    "revocation" => revocation::bitmap(&cex),
    "jwk" => jwk::jwk(&cex),
    "collections" => coll::collections(&cex),
    "storage_faults" => storage::faults(&cex),
    "storage_signing" => signing::signing(&cex),
    "document_ops" => docops::document_ops(&cex),
    "resolver" => resolver::resolver(&cex),
    "alg_names" => jws::alg_names(&cex),
    "kani" => kani_replay(&cex),
    "panic_sweep" => panic_sweep(),
    "selftest" => selftest(),
    _ => Err(format!("unknown scenario {scenario}")),
  };
  match verdict {
    Ok(what) => println!("REPRODUCED {what}"),
    Err(what) => println!("NOT-REPRODUCED {what}"),
  }
}

/// minimal executor for futures that never wait
pub fn storage_block_on<F: std::future::Future>(f: F) -> F::Output {
  use std::sync::Arc;
  use std::task::{Context, Poll, Wake, Waker};
  struct Noop;
  impl Wake for Noop {
    fn wake(self: Arc<Self>) {}
  }
  let w = Waker::from(Arc::new(Noop));
  let mut cx = Context::from_waker(&w);
  let mut f = Box::pin(f);
  loop {
    if let Poll::Ready(v) = f.as_mut().poll(&mut cx) {
      return v;
    }
  }
}

/// runs `f`, mapping a panic of the code under test to Err(message)
pub fn no_panic<T>(f: impl FnOnce() -> T + std::panic::UnwindSafe) -> Result<T, String> {
  catch_unwind(f).map_err(|e| {
    e.downcast_ref::<String>()
      .cloned()
      .or_else(|| e.downcast_ref::<&str>().map(|s| s.to_string()))
      .unwrap_or_else(|| "panic".to_owned())
  })
}

pub fn u(cex: &Value, key: &str) -> u64 {
  cex.get(key).and_then(Value::as_u64).unwrap_or(0)
}
pub fn b(cex: &Value, key: &str) -> bool {
  cex.get(key).and_then(Value::as_bool).unwrap_or(false)
}

/// C05: the panic-only view of every battery
fn panic_sweep() -> Result<String, String> {
  let empty = Value::Object(Default::default());
  let all: Vec<(&str, fn(&Value) -> Result<String, String>)> = vec![
    ("jws_binding", jws::binding),
    ("jws_policy", jws::policy),
    ("jws_charset", jws::charset),
    ("did_syntax", did::syntax),
    ("timestamp", ts::timestamp),
    ("state_metadata", iota::state_metadata),
    ("iota_did", iota::iota_did),
    ("credential_validation", cred::credential_validation),
    ("presentation_validation", cred::presentation_validation),
    ("claims", cred::claims),
    ("sd_jwt", sdjwt::sd_jwt),
    ("revocation", revocation::bitmap),
    ("jwk", jwk::jwk),
    ("storage_signing", signing::signing),
    ("collections", coll::collections),
    ("document_ops", docops::document_ops),
    ("storage_faults", storage::faults),
    ("statuslist_oneway", statuslist::oneway),
    ("malformed_inputs", malformed::malformed),
    ("verifier_dispatch", verifiers::dispatch),
  ];
  let mut found = Vec::new();
  for (name, f) in all {
    if let Ok(what) = f(&empty) {
      if what.contains("panicked") || what.contains("[panic") || what.contains("-panic]") {
        found.push(format!("{name}: {}", &what[..what.len().min(200)]));
      }
    }
  }
  // status list: out-of-range access must be an error
  for s in ["statuslist_get", "statuslist_set"] {
    if let Ok(what) = statuslist::run(s, &serde_json::json!({"idx": u64::MAX, "k": u64::MAX, "nbytes": 1})) {
      if what.contains("panicked") {
        found.push(format!("{s}: {what}"));
      }
    }
  }
  if found.is_empty() {
    Err("no battery observes a panic".to_owned())
  } else {
    Ok(found.join("; "))
  }
}

fn selftest() -> Result<String, String> {
  Err("selftest: nothing to reproduce".to_owned())
}
