//! Native battery for C18 (JWK projection / coherence) - confirmation only.
use crate::*;
use identity_did::CoreDID;
use identity_jose::jwk::{Jwk, JwkOperation, JwkParams, JwkParamsEc, JwkParamsOct, JwkParamsOkp, JwkParamsRsa, JwkType, JwkUse};
use identity_verification::VerificationMethod;

fn rsa(mask: u8) -> JwkParamsRsa {
  let s = |on: bool, v: &str| if on { Some(v.to_owned()) } else { None };
  JwkParamsRsa {
    n: "n".into(),
    e: "e".into(),
    d: s(mask & 1 != 0, "d"),
    p: s(mask & 2 != 0, "p"),
    q: s(mask & 4 != 0, "q"),
    dp: s(mask & 8 != 0, "dp"),
    dq: s(mask & 16 != 0, "dq"),
    qi: s(mask & 32 != 0, "qi"),
    oth: if mask & 64 != 0 { Some(vec![]) } else { None },
  }
}

pub fn jwk(cex: &Value) -> Result<String, String> {
  let only: Option<String> = cex.get("only").and_then(Value::as_str).map(str::to_owned);
  let r = no_panic(|| -> Vec<String> {
    let mut log = Vec::new();
    let mut keys: Vec<(String, Jwk, bool)> = Vec::new(); // (name, key, has private member)
    for mask in 0..128u8 {
      keys.push((format!("RSA mask {mask:#09b}"), Jwk::from_params(rsa(mask)), mask != 0));
    }
    for d in [false, true] {
      let dv = if d { Some("d".to_owned()) } else { None };
      keys.push((format!("EC d={d}"), Jwk::from_params(JwkParamsEc { crv: "P-256".into(), x: "x".into(), y: "y".into(), d: dv.clone() }), d));
      keys.push((format!("OKP d={d}"), Jwk::from_params(JwkParamsOkp { crv: "Ed25519".into(), x: "x".into(), d: dv }), d));
    }
    keys.push(("oct".into(), Jwk::from_params(JwkParamsOct { k: "k".into() }), true));
    // a private member that is present but empty is present
    keys.push(("EC d=\"\"".into(), Jwk::from_params(JwkParamsEc { crv: "P-256".into(), x: "x".into(), y: "y".into(), d: Some(String::new()) }), true));
    keys.push(("OKP d=\"\"".into(), Jwk::from_params(JwkParamsOkp { crv: "Ed25519".into(), x: "x".into(), d: Some(String::new()) }), true));
    for bit in 0..6u8 {
      let mut r = rsa(0);
      let e = Some(String::new());
      match bit {
        0 => r.d = e,
        1 => r.p = e,
        2 => r.q = e,
        3 => r.dp = e,
        4 => r.dq = e,
        _ => r.qi = e,
      }
      keys.push((format!("RSA private member #{bit} empty"), Jwk::from_params(r), true));
    }
    // keys read from JSON: empty private members, and a declared type that differs from the family of the parameters they carry
    // (serde's untagged parameter enum lets those in) - the private member is there whatever the declared type says
    for (text, private) in [
      (r#"{"kty":"OKP","crv":"Ed25519","x":"x","d":""}"#, true),
      (r#"{"kty":"EC","crv":"P-256","x":"x","y":"y","d":""}"#, true),
      (r#"{"kty":"EC","crv":"Ed25519","x":"x","d":"d"}"#, true),
      (r#"{"kty":"EC","crv":"Ed25519","x":"x"}"#, false),
      (r#"{"kty":"OKP","crv":"P-256","x":"x","y":"y","d":"d"}"#, true),
      (r#"{"kty":"RSA","crv":"Ed25519","x":"x","d":"d"}"#, true),
      (r#"{"kty":"oct","crv":"Ed25519","x":"x","d":"d"}"#, true),
      (r#"{"kty":"OKP","n":"n","e":"e","d":"d"}"#, true),
      (r#"{"kty":"EC","n":"n","e":"e","qi":"qi"}"#, true),
      (r#"{"kty":"EC","k":"k"}"#, true),
      (r#"{"kty":"OKP","k":"k"}"#, true),
      (r#"{"kty":"RSA","k":"k"}"#, true),
    ] {
      if let Ok(k) = serde_json::from_str::<Jwk>(text) {
        keys.push((format!("from JSON {text}"), k, private));
      }
    }
    let incoherent_from = keys.iter().position(|(n, _, _)| n.starts_with("from JSON {\"kty\":\"EC\",\"crv\":\"Ed25519\"")).unwrap_or(keys.len());
    for (ki, (name, k, private)) in keys.iter().enumerate() {
      let coherent = ki < incoherent_from;
      if k.is_public() == *private {
        log.push(format!("[public] {name}: is_public() = {}", k.is_public()));
      }
      let did = CoreDID::parse("did:example:1").unwrap();
      if VerificationMethod::new_from_jwk(did, k.clone(), Some("#k")).is_ok() == *private {
        log.push(format!("[method] {name}: verification method construction {}", if *private { "accepted a private key" } else { "rejected a public key" }));
      }
      match k.to_public() {
        None => {
          if k.kty() != JwkType::Oct && coherent {
            log.push(format!("[public] {name}: no public projection"));
          }
        }
        Some(p) => {
          if !p.is_public() || (coherent && p.kty() != k.kty()) {
            log.push(format!("[public] {name}: projection is_public={} kty={:?}", p.is_public(), p.kty()));
          }
          let text = serde_json::to_string(&p).unwrap();
          for m in ["\"d\"", "\"p\"", "\"q\"", "\"dp\"", "\"dq\"", "\"qi\"", "\"oth\"", "\"k\""] {
            if text.contains(m) {
              log.push(format!("[public] {name}: projection serialises private member {m}"));
            }
          }
          // (a key whose declared type differs from its parameter family - serde lets those in, see DESIGN.md - is re-typed by the
          // projection; only "public exactly when no private member" and the constructors are observed for those)
          if !coherent {
            continue;
          }
          if p.thumbprint_sha256_b64() != k.thumbprint_sha256_b64() {
            log.push(format!("[thumbprint] {name}: thumbprint changes with the private part"));
          }
          if p.to_public().as_ref() != Some(&p) {
            log.push(format!("[idempotent] {name}: to_public(to_public(k)) != to_public(k)"));
          }
        }
      }
    }
    // keys converted from the json-proof-token representation: whatever that key says about itself (its nested kty is set to OKP by
    // that crate's own public projection), the converted key carries EC parameters and declares EC
    {
      use jsonprooftoken::jwk::alg_parameters::{JwkAlgorithmParameters, JwkEllipticCurveKeyParameters};
      use jsonprooftoken::jwk::curves::EllipticCurveTypes;
      use jsonprooftoken::jwk::key::Jwk as JptJwk;
      use jsonprooftoken::jwk::types::KeyType;
      for nested in [KeyType::EllipticCurve, KeyType::OctetKeyPair, KeyType::RSA, KeyType::Octet] {
        for d in [None, Some("FBUWFxgZGhscHQ")] {
          let p = JwkEllipticCurveKeyParameters { kty: nested.clone(), crv: EllipticCurveTypes::BLS12381G2, x: "AAECAwQFBgcICQ".to_owned(), y: "CgsMDQ4PEBESEw".to_owned(), d: d.map(str::to_owned) };
          let src = JptJwk::from_key_params(JwkAlgorithmParameters::EllipticCurve(p));
          let mut sources = vec![("as built", src.clone())];
          if let Some(pubk) = src.to_public() {
            sources.push(("its public projection", pubk));
          }
          for (what, k) in sources {
            match Jwk::try_from(k) {
              Ok(j) => {
                if j.kty() != j.params().kty() || j.kty() != JwkType::Ec {
                  log.push(format!("[coherence] converted JPT key (nested kty {nested:?}, private: {}, {what}): declared {:?}, parameters of family {:?}", d.is_some(), j.kty(), j.params().kty()));
                }
                if j.is_public() == d.is_some() && what == "as built" {
                  log.push(format!("[public] converted JPT key (private: {}): is_public() = {}", d.is_some(), j.is_public()));
                }
              }
              Err(e) => log.push(format!("[coherence] JPT key (nested kty {nested:?}, {what}) does not convert: {e}")),
            }
          }
        }
      }
    }
    // optional members: carried over, projection idempotent, thumbprint unaffected
    let mut k = Jwk::from_params(JwkParamsOkp { crv: "Ed25519".into(), x: "x".into(), d: Some("d".into()) });
    let bare = k.thumbprint_sha256_b64();
    k.set_use(JwkUse::Signature);
    k.set_key_ops([JwkOperation::Sign]);
    k.set_alg("EdDSA");
    k.set_kid("kid");
    if k.thumbprint_sha256_b64() != bare {
      log.push("[thumbprint] optional members change the thumbprint".into());
    }
    // each optional member on its own, through the setters and through JSON, for every key type
    {
      type Set = fn(&mut Jwk);
      let setters: Vec<(&str, Set)> = vec![
        ("use", |k| k.set_use(JwkUse::Encryption)),
        ("key_ops", |k| k.set_key_ops([JwkOperation::Verify])),
        ("alg", |k| k.set_alg("ES256")),
        ("kid", |k| k.set_kid("some-kid")),
        ("x5u", |k| k.set_x5u(identity_core::common::Url::parse("https://example.com/cert").unwrap())),
        ("x5c", |k| k.set_x5c(["MIIB"])),
        ("x5t", |k| k.set_x5t("dGh1bWI")),
        ("x5t#S256", |k| k.set_x5t_s256("dGh1bWIyNTY")),
      ];
      let bases: Vec<(&str, Jwk)> = vec![
        ("OKP", Jwk::from_params(JwkParamsOkp { crv: "Ed25519".into(), x: "eA".into(), d: None })),
        ("EC", Jwk::from_params(identity_jose::jwk::JwkParamsEc { crv: "P-256".into(), x: "eA".into(), y: "eQ".into(), d: None })),
        ("oct", Jwk::from_params(identity_jose::jwk::JwkParamsOct { k: "aw".into() })),
      ];
      for (kty, base) in &bases {
        let bare = base.thumbprint_sha256_b64();
        for (name, set) in &setters {
          let mut k2 = base.clone();
          set(&mut k2);
          if k2.thumbprint_sha256_b64() != bare {
            log.push(format!("[thumbprint] {kty}: optional member {name} changes the thumbprint"));
          }
          if let Ok(text) = serde_json::to_string(&k2) {
            if let Ok(back) = serde_json::from_str::<Jwk>(&text) {
              if back.thumbprint_sha256_b64() != bare {
                log.push(format!("[thumbprint] {kty}: optional member {name} (from JSON) changes the thumbprint"));
              }
            }
          }
        }
      }
    }
    // set_kty always leaves a coherent key (declared type = family of the parameters, nothing private carried over), also when
    // the key it is applied to was incoherent (serde's untagged parameter enum lets such keys in) and the type is "unchanged"
    for text in [r#"{"kty":"OKP","crv":"P-256","x":"eA","y":"eQ","d":"ZA"}"#, r#"{"kty":"EC","crv":"Ed25519","x":"eA","d":"ZA"}"#, r#"{"kty":"OKP","crv":"Ed25519","x":"eA","d":"ZA"}"#] {
      if let Ok(k0) = serde_json::from_str::<Jwk>(text) {
        for ty in [JwkType::Ec, JwkType::Okp, JwkType::Rsa, JwkType::Oct] {
          let mut k2 = k0.clone();
          k2.set_kty(ty);
          let family = match k2.params() {
            JwkParams::Ec(_) => JwkType::Ec,
            JwkParams::Okp(_) => JwkType::Okp,
            JwkParams::Rsa(_) => JwkType::Rsa,
            JwkParams::Oct(_) => JwkType::Oct,
          };
          if k2.kty() != ty || family != ty {
            log.push(format!("[coherence] set_kty({ty:?}) on {text}: declared {:?}, parameters of family {family:?}", k2.kty()));
          }
          if serde_json::to_string(&k2).map(|t| t.contains("\"d\":\"ZA\"")).unwrap_or(false) {
            log.push(format!("[coherence] set_kty({ty:?}) on {text} keeps the private member"));
          }
        }
      }
    }
    // the projection is idempotent for every key_ops list - single operations, both halves of a pair, mixed lists, repeats - on
    // private and on already-public keys
    {
      use JwkOperation::*;
      let lists: Vec<Vec<JwkOperation>> = vec![
        vec![Sign], vec![Verify], vec![Sign, Verify], vec![Verify, Sign], vec![Encrypt, Decrypt], vec![WrapKey, UnwrapKey], vec![DeriveKey, DeriveBits],
        vec![Sign, Verify, Encrypt], vec![Sign, Sign], vec![], vec![Decrypt], vec![UnwrapKey, Sign],
      ];
      for ops in lists {
        for private in [true, false] {
          let mut key = Jwk::from_params(JwkParamsOkp { crv: "Ed25519".into(), x: "eA".into(), d: if private { Some("ZA".into()) } else { None } });
          key.set_key_ops(ops.iter().copied());
          let Some(p1) = key.to_public() else {
            log.push(format!("[idempotent] key with key_ops {ops:?} has no projection"));
            continue;
          };
          let p2 = p1.to_public();
          if p2.as_ref() != Some(&p1) {
            log.push(format!("[idempotent] key_ops {ops:?} (private key: {private}): first projection {:?}, second {:?}", p1.key_ops(), p2.as_ref().and_then(|x| x.key_ops())));
          }
          let p3 = p2.and_then(|x| x.to_public());
          if p3.as_ref() != Some(&p1) {
            log.push(format!("[idempotent] key_ops {ops:?} (private key: {private}): third projection differs from the first"));
          }
        }
      }
    }
    // the guard against private key material sits in the constructor every route ends in: also a direct call of from_builder
    {
      use identity_did::DID as _;
      use identity_verification::{MethodBuilder, MethodData, MethodType, VerificationMethod};
      let did = CoreDID::parse("did:example:1").unwrap();
      for (name, jwk, private) in [
        ("OKP private", Jwk::from_params(JwkParamsOkp { crv: "Ed25519".into(), x: "eA".into(), d: Some("ZA".into()) }), true),
        ("RSA partial private", Jwk::from_params(rsa(4)), true),
        ("OKP public", Jwk::from_params(JwkParamsOkp { crv: "Ed25519".into(), x: "eA".into(), d: None }), false),
      ] {
        let b = || MethodBuilder::default().id(did.to_url().join("#k").unwrap()).controller(did.clone()).type_(MethodType::JSON_WEB_KEY_2020).data(MethodData::PublicKeyJwk(jwk.clone()));
        let direct = VerificationMethod::from_builder(b()).is_ok();
        let built = b().build().is_ok();
        if direct == private || built == private {
          log.push(format!("[method] {name}: from_builder accepted = {direct}, build accepted = {built}"));
        }
      }
    }
    let p = k.to_public().unwrap();
    if p.alg() != Some("EdDSA") || p.kid() != Some("kid") || p.use_() != Some(JwkUse::Signature) {
      log.push("[public] optional members not carried into the projection".into());
    }
    let pp = p.to_public().unwrap();
    if pp != p {
      log.push(format!("[idempotent] key_ops {:?} become {:?} on a second projection", p.key_ops(), pp.key_ops()));
    }
    // RFC 7638 section 3.1 known answer
    {
      let n = "0vx7agoebGcQSuuPiLJXZptN9nndrQmbXEps2aiAFbWhM78LhWx4cbbfAAtVT86zwu1RK7aPFFxuhDR1L6tSoc_BJECPebWKRXjBZCiFV4n3oknjhMstn64tZ_2W-5JsGY4Hc5n9yBXArwl93lqt7_RN5w6Cf0h4QyQ5v-65YGjQR0_FDW2QvzqY368QQMicAtaSqzs8KJZgnYb9c7d0zgdAZHzu6qMQvRL5hajrn1n91CbOpbISD08qNLyrdkt-bFTWhAI4vMQFh6WeZu0fM4lFd2NcRwr3XPksINHaQ-G_xBniIqbw0Ls1jF44-csFCur-kEgU8awapJzKnqDKgw";
      let k = Jwk::from_params(JwkParamsRsa { n: n.into(), e: "AQAB".into(), d: None, p: None, q: None, dp: None, dq: None, qi: None, oth: None });
      if k.thumbprint_sha256_b64() != "NzbLsXh8uDCcd-6MNwXF4W_7noWXFZAfHkxZsRGC9Xs" {
        log.push(format!("[thumbprint] RFC 7638 example key hashes to {}", k.thumbprint_sha256_b64()));
      }
      let okp = Jwk::from_params(JwkParamsOkp { crv: "Ed25519".into(), x: "11qYAYKxCrfVS_7TyWQHOg7hcvPapiMlrwIaaPcHURo".into(), d: None });
      if okp.thumbprint_sha256_b64() != "kPrK_qmxVWaYVA9wwBF6Iuo3vVzz7TxHCTwXBygrS4k" {
        log.push(format!("[thumbprint] RFC 8037 A.3 example key hashes to {}", okp.thumbprint_sha256_b64()));
      }
    }
    // the checked setter goes by the *declared* type, also on a key whose carried family differs from it (unchecked setter, serde):
    // parameters of the declared family are accepted and make the key coherent, parameters of any other family are refused
    {
      let params = |t: JwkType| -> JwkParams {
        match t {
          JwkType::Ec => JwkParams::Ec(identity_jose::jwk::JwkParamsEc { crv: "P-256".into(), x: "eA".into(), y: "eQ".into(), d: Some("ZA".into()) }),
          JwkType::Okp => JwkParams::Okp(JwkParamsOkp { crv: "Ed25519".into(), x: "eA".into(), d: Some("ZA".into()) }),
          JwkType::Rsa => JwkParams::Rsa(rsa(1)),
          JwkType::Oct => JwkParams::Oct(identity_jose::jwk::JwkParamsOct { k: "aw".into() }),
        }
      };
      let all = [JwkType::Ec, JwkType::Okp, JwkType::Rsa, JwkType::Oct];
      for declared in all {
        for carried in all {
          let mut k0 = Jwk::new(declared);
          k0.set_params_unchecked(params(carried));
          for given in all {
            let mut k2 = k0.clone();
            let ok = k2.set_params(params(given)).is_ok();
            if ok != (given == declared) {
              log.push(format!("[coherence] set_params({given:?} parameters) on a key declared {declared:?} carrying {carried:?} parameters: {}", if ok { "accepted" } else { "refused" }));
            }
            if ok && (k2.kty() != k2.params().kty() || k2.kty() != declared) {
              log.push(format!("[coherence] after a successful set_params the key declares {:?} and carries {:?}", k2.kty(), k2.params().kty()));
            }
            if !ok && k2 != k0 {
              log.push("[coherence] a refused set_params changed the key".to_owned());
            }
          }
        }
      }
    }
    // kty / params coherence
    let mut k = Jwk::new(JwkType::Ec);
    if k.set_params(JwkParamsOkp { crv: "Ed25519".into(), x: "x".into(), d: None }).is_ok() {
      log.push("[coherence] OKP parameters accepted on an EC key".into());
    }
    k.set_kty(JwkType::Rsa);
    if !matches!(k.params(), JwkParams::Rsa(_)) {
      log.push("[coherence] set_kty leaves parameters of another family".into());
    }
    log
  });
  match r {
    Err(msg) => Ok(format!("JWK handling panicked: {msg}")),
    Ok(log) => {
      let log: Vec<String> = log.into_iter().filter(|l| only.as_ref().map(|o| l.contains(o.as_str())).unwrap_or(true)).collect();
      if log.is_empty() {
        Err("JWK battery: all expectations met".to_owned())
      } else {
        Ok(format!("{} deviations, e.g. {}", log.len(), log[..log.len().min(3)].join("; ")))
      }
    }
  }
}
