//! Native battery for C08 (storage-backed signing): every JwsSignatureOptions combination over a document with several
//! methods in several scopes; each produced token is decoded by the library's decoder, its protected header compared with
//! what the options ask for, and verified through CoreDocument::verify_jws under the right and the wrong method / nonce / scope.
use crate::*;
use identity_core::common::{Object, Url};
use identity_did::{CoreDID, DIDUrl, DID};
use identity_document::document::CoreDocument;
use identity_document::verifiable::JwsVerificationOptions;
use identity_eddsa_verifier::EdDSAJwsVerifier;
use identity_jose::jws::{Decoder, JwsAlgorithm};
use identity_storage::key_id_storage::KeyIdMemstore;
use identity_storage::key_storage::{JwkMemStore, KeyType};
use identity_storage::storage::{JwkDocumentExt, JwsSignatureOptions, Storage};
use identity_verification::MethodScope;
use std::future::Future;
use std::sync::Arc;
use std::task::{Context, Poll, Wake, Waker};

struct Noop;
impl Wake for Noop {
  fn wake(self: Arc<Self>) {}
}
fn block_on<F: Future>(f: F) -> F::Output {
  let w = Waker::from(Arc::new(Noop));
  let mut cx = Context::from_waker(&w);
  let mut f = Box::pin(f);
  loop {
    if let Poll::Ready(v) = f.as_mut().poll(&mut cx) {
      return v;
    }
  }
}

pub fn signing(cex: &Value) -> Result<String, String> {
  let only: Option<String> = cex.get("only").and_then(Value::as_str).map(str::to_owned);
  let r = no_panic(|| -> Vec<String> {
    let mut log: Vec<String> = Vec::new();
    let did = CoreDID::parse("did:example:signer").unwrap();
    let mut doc = CoreDocument::builder(Object::new()).id(did.clone()).build().unwrap();
    let storage: Storage<JwkMemStore, KeyIdMemstore> = Storage::new(JwkMemStore::new(), KeyIdMemstore::new());
    let scopes = [
      ("#auth", MethodScope::authentication()),
      ("#assert", MethodScope::assertion_method()),
      ("#general", MethodScope::VerificationMethod),
    ];
    for (frag, scope) in scopes.iter() {
      block_on(doc.generate_method(&storage, KeyType::new("Ed25519"), JwsAlgorithm::EdDSA, Some(&frag[1..]), *scope)).unwrap();
    }
    let payloads: [&[u8]; 4] = [b"{\"iss\":\"did:example:signer\"}", b"hello world", b"a.b", &[0xff, 0xfe, 0x80, 0x41]];
    let mut combos = 0u32;
    for code in 0u32..(3 * 2 * 3 * 2 * 2 * 2 * 2 * 2 * 2) {
      let mut c = code;
      let mut take = |n: u32| {
        let v = c % n;
        c /= n;
        v
      };
      let (kid_o, attach, b64_o, typ_o, cty_o, url_o, nonce_o, custom_o, detached) = (take(3), take(2) == 1, take(3), take(2) == 1, take(2) == 1, take(2) == 1, take(2) == 1, take(2) == 1, take(2) == 1);
      for (mi, (frag, _scope)) in scopes.iter().enumerate() {
        // first method: every combination of kid x attach_jwk x b64 x typ x cty plus every fifth of the rest; others: a stride
        if (mi == 0 && !(code < 96 || code % 5 == 0)) || (mi != 0 && code % 11 != mi as u32) {
          continue;
        }
        let method_id = DIDUrl::parse(format!("did:example:signer{frag}")).unwrap();
        let other_id = DIDUrl::parse(format!("did:example:signer{}", scopes[(mi + 1) % 3].0)).unwrap();
        let mut o = JwsSignatureOptions::new();
        let kid_override: Option<String> = match kid_o {
          1 => Some("urn:custom:kid".to_owned()),
          2 => Some(other_id.to_string()),
          _ => None,
        };
        if let Some(k) = &kid_override {
          o = o.kid(k.clone());
        }
        o.attach_jwk = attach;
        match b64_o {
          1 => o = o.b64(true),
          2 => o = o.b64(false),
          _ => {}
        }
        if typ_o {
          o = o.typ("example+jwt");
        }
        if cty_o {
          o = o.cty("example-cty");
        }
        if url_o {
          o = o.url(Url::parse("https://example.com/u").unwrap());
        }
        if nonce_o {
          o = o.nonce("nonce-1");
        }
        let mut custom = Object::new();
        custom.insert("x-custom".to_owned(), serde_json::json!({"a": [1, 2]}));
        if custom_o {
          o = o.custom_header_parameters(custom.clone());
        }
        o = o.detached_payload(detached);
        let payload = payloads[(code as usize + mi) % payloads.len()];
        let tag = format!("[sign] method {frag} kid={kid_override:?} attach_jwk={attach} b64={b64_o} typ={typ_o} cty={cty_o} url={url_o} nonce={nonce_o} custom={custom_o} detached={detached} payload={:?}", String::from_utf8_lossy(payload));
        let token = match block_on(doc.create_jws(&storage, &frag[1..], payload, &o)) {
          Ok(t) => t,
          Err(e) => {
            // the only refusal this universe contains: an unencoded attached payload with a '.' in it
            if !(b64_o == 2 && !detached && (payload.contains(&b'.') || std::str::from_utf8(payload).is_err())) {
              log.push(format!("{tag}: create_jws refused: {e}"));
            }
            continue;
          }
        };
        combos += 1;
        let enc_payload: Vec<u8> = if b64_o == 2 { payload.to_vec() } else { identity_jose::jwu::encode_b64(payload).into_bytes() };
        let det: Option<&[u8]> = if detached { Some(enc_payload.as_slice()) } else { None };
        let method = doc.resolve_method(&method_id, None).unwrap();
        let method_jwk = method.data().public_key_jwk().unwrap().clone();
        // ---- what the library's decoder reads back
        match Decoder::new().decode_compact_serialization(token.as_str().as_bytes(), det) {
          Err(e) => log.push(format!("{tag}: own token does not decode: {e}")),
          Ok(item) => {
            let h = item.protected_header().cloned().unwrap_or_default();
            let want_kid = kid_override.clone().unwrap_or_else(|| method_id.to_string());
            if h.kid() != Some(want_kid.as_str()) {
              log.push(format!("{tag}: header kid is {:?}, expected {want_kid:?}", h.kid()));
            }
            if h.alg() != Some(JwsAlgorithm::EdDSA) {
              log.push(format!("{tag}: header alg is {:?}", h.alg()));
            }
            if h.typ() != Some(if typ_o { "example+jwt" } else { "JWT" }) {
              log.push(format!("{tag}: header typ is {:?}", h.typ()));
            }
            if h.cty() != if cty_o { Some("example-cty") } else { None } {
              log.push(format!("{tag}: header cty is {:?}", h.cty()));
            }
            if h.url().map(|u| u.as_str().to_owned()) != if url_o { Some("https://example.com/u".to_owned()) } else { None } {
              log.push(format!("{tag}: header url is {:?}", h.url()));
            }
            if h.nonce() != if nonce_o { Some("nonce-1") } else { None } {
              log.push(format!("{tag}: header nonce is {:?}", h.nonce()));
            }
            if h.custom().filter(|c| !c.is_empty()) != if custom_o { Some(&custom) } else { None } {
              log.push(format!("{tag}: custom header parameters are {:?}", h.custom()));
            }
            if h.jwk() != if attach { Some(&method_jwk) } else { None } {
              log.push(format!("{tag}: attached jwk is not (exactly) the method's public key when asked for / present when not"));
            }
            if (h.b64(), h.crit().map(|c| c.to_vec())) != if b64_o == 2 { (Some(false), Some(vec!["b64".to_owned()])) } else { (None, None) } {
              log.push(format!("{tag}: b64/crit are {:?}/{:?}", h.b64(), h.crit()));
            }
            if item.claims() != payload {
              log.push(format!("{tag}: decoded payload differs from the signed one"));
            }
          }
        }
        // ---- verification against the document
        let base = || {
          let mut v = JwsVerificationOptions::new();
          if nonce_o {
            v = v.nonce("nonce-1");
          }
          v
        };
        let verify = |v: &JwsVerificationOptions| doc.verify_jws(token.as_str(), det, &EdDSAJwsVerifier::default(), v).is_ok();
        // what verify_jws hands back is the signed payload (decoded), attached or detached, and the header that was signed
        match doc.verify_jws(token.as_str(), det, &EdDSAJwsVerifier::default(), &base().method_id(method_id.clone())) {
          Ok(d) => {
            if d.claims.as_ref() != payload {
              log.push(format!("{tag}: verify_jws hands back claims that are not the signed payload"));
            }
            if d.protected.kid() != Some(kid_override.clone().unwrap_or_else(|| method_id.to_string()).as_str()) {
              log.push(format!("{tag}: verify_jws hands back another protected header"));
            }
          }
          Err(_) => {}
        }
        // a configured method id that does not resolve (unknown fragment, or outside the configured scope) is an error - the
        // token's own kid is not a fallback; nor is a DID that differs in letter case the same DID
        let nope = DIDUrl::parse("did:example:signer#no-such-method").unwrap();
        if verify(&base().method_id(nope)) {
          log.push(format!("{tag}: verifies although the configured method id does not resolve (fell back to the kid)"));
        }
        let out_of_scope = scopes[(mi + 1) % 3].1;
        if kid_override.is_none() && verify(&base().method_id(method_id.clone()).method_scope(out_of_scope)) {
          log.push(format!("{tag}: verifies although the configured method id is outside the configured scope"));
        }
        let upper = DIDUrl::parse(format!("did:example:SIGNER{frag}")).unwrap();
        if verify(&base().method_id(upper)) {
          log.push(format!("{tag}: verifies under a method id whose DID differs in letter case"));
        }
        // by kid when the kid is the method's id; by explicit method id always
        if kid_override.is_none() && !verify(&base()) {
          log.push(format!("{tag}: does not verify by its kid against the document it was produced for"));
        }
        if !verify(&base().method_id(method_id.clone())) {
          log.push(format!("{tag}: does not verify under the method it was produced for"));
        }
        if verify(&base().method_id(other_id.clone())) {
          log.push(format!("{tag}: verifies under another method's key"));
        }
        if kid_o == 2 && verify(&base()) {
          log.push(format!("{tag}: kid names another method and the token verifies under it"));
        }
        // nonce
        let wrong_nonce = JwsVerificationOptions::new().nonce("nonce-2").method_id(method_id.clone());
        if verify(&wrong_nonce) {
          log.push(format!("{tag}: verifies under a different nonce"));
        }
        if nonce_o && verify(&JwsVerificationOptions::new().method_id(method_id.clone())) {
          log.push(format!("{tag}: carries a nonce and verifies although none is expected"));
        }
        // scope: accepted exactly in the scopes that contain the method
        for (si, (_f, sc)) in scopes.iter().enumerate() {
          let inside = si == mi;
          if verify(&base().method_id(method_id.clone()).method_scope(*sc)) != inside {
            log.push(format!("{tag}: scope {sc:?}: verification {} (method is {} that scope)", if inside { "failed" } else { "succeeded" }, if inside { "in" } else { "outside" }));
          }
        }
        if log.len() > 6 {
          return log;
        }
      }
    }
    if combos < 300 {
      log.push(format!("[sign] only {combos} tokens were produced"));
    }
    log
  });
  match r {
    Err(msg) => Ok(format!("storage-backed signing panicked: {msg}")),
    Ok(log) => {
      let log: Vec<String> = log.into_iter().filter(|l| only.as_ref().map(|o| l.contains(o.as_str())).unwrap_or(true)).collect();
      if log.is_empty() {
        Err("storage signing battery: all expectations met".to_owned())
      } else {
        Ok(format!("{} deviations, e.g. {}", log.len(), log[..log.len().min(3)].join("; ")))
      }
    }
  }
}
