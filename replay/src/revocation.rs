//! Native battery for C06 (RevocationBitmap2022) - confirmation only.
use crate::*;
use identity_core::common::{Object, Url};
use identity_core::convert::{Base, BaseEncoding};
use identity_credential::revocation::{RevocationBitmap, RevocationDocumentExt};
use identity_did::{CoreDID, DID};
use identity_document::document::CoreDocument;
use identity_document::service::{Service, ServiceEndpoint};

fn sets() -> Vec<Vec<u32>> {
  let mut v: Vec<Vec<u32>> = vec![vec![], vec![0], vec![u32::MAX], (0..9).collect(), (0..10).collect(), (0..100).collect(), (0..1000).map(|i| i * 7).collect()];
  v.push((0..70_000).collect()); // run-heavy, > 65536: two containers
  v.push((0..5000).map(|i| i * 65_537).collect()); // sparse across many containers
  v.push(vec![3, 9, 254, 65536]);
  // short dense runs: their compressed form contains the two characters (- and _) in which Base64Url and Base64 differ
  for n in [12u32, 16, 17, 24, 33, 48, 64] {
    v.push((0..n).collect());
    v.push((0..n).map(|i| i * 3 + 1).collect());
  }
  // container-count boundaries of the format: one index in each of the first 65535 / all 65536 high-16-bit blocks, and the last block alone
  v.push((0..65_535u32).map(|i| i << 16).collect());
  v.push((0..65_536u32).map(|i| (i << 16) | (i & 0xffff)).collect());
  v.push(vec![u32::MAX - 65_535, u32::MAX]);
  v
}

pub fn bitmap(cex: &Value) -> Result<String, String> {
  let only: Option<String> = cex.get("only").and_then(Value::as_str).map(str::to_owned);
  let r = no_panic(|| -> Vec<String> {
    let mut log = Vec::new();
    let did = CoreDID::parse("did:example:1234").unwrap();
    let sid = did.to_url().join("#revocation").unwrap();
    for s in sets() {
      let mut b = RevocationBitmap::new();
      for i in &s {
        b.revoke(*i);
      }
      let svc = match b.to_service(sid.clone()) {
        Ok(x) => x,
        Err(e) => {
          log.push(format!("[roundtrip] to_service failed for {} entries: {e}", s.len()));
          continue;
        }
      };
      match RevocationBitmap::try_from(&svc) {
        Ok(back) if back == b => {}
        Ok(_) => log.push(format!("[roundtrip] bitmap with {} entries decodes to a different set", s.len())),
        Err(e) => log.push(format!("[roundtrip] bitmap with {} entries does not decode from its own service endpoint: {e}", s.len())),
      }
      // legacy double-encoded endpoint: Base64(Base64Url(zlib(..)))
      if let ServiceEndpoint::One(url) = svc.service_endpoint() {
        let data = url.as_str().strip_prefix("data:application/octet-stream;base64,").unwrap_or("");
        let legacy = format!("data:application/octet-stream;base64,{}", BaseEncoding::encode(data.as_bytes(), Base::Base64));
        let legacy_svc = Service::builder(Object::new())
          .id(sid.clone())
          .type_(RevocationBitmap::TYPE)
          .service_endpoint(ServiceEndpoint::One(Url::parse(legacy).unwrap()))
          .build()
          .unwrap();
        match RevocationBitmap::try_from(&legacy_svc) {
          Ok(back) if back == b => {}
          _ => log.push(format!("[legacy] legacy double-encoded endpoint with {} entries does not decode", s.len())),
        }
      }
    }
    // [iota-wrapper]: the IotaDocument entry points against the CoreDocument ones, mixed batches included
    {
      use identity_iota_core::{IotaDID, IotaDocument, NetworkName};
      let net = NetworkName::try_from("smr").unwrap();
      let idid = IotaDID::new(&[7u8; 32], &net);
      let isid = idid.to_url().join("#rev").unwrap();
      let mut idoc = IotaDocument::new_with_id(idid.clone());
      let svc = RevocationBitmap::new().to_service(isid.clone()).unwrap();
      let _ = idoc.insert_service(svc);
      let mut model: std::collections::BTreeSet<u32> = Default::default();
      let steps: [(bool, &[u32]); 8] = [(true, &[1, 2, 3]), (false, &[2, 9]), (true, &[2, 40]), (false, &[1, 40, 77]), (false, &[3]), (true, &[3, 3, 5]), (false, &[5, 6, 7, 3]), (false, &[100])];
      for (revoke, idx) in steps {
        let res = if revoke { idoc.revoke_credentials(&isid, idx) } else { idoc.unrevoke_credentials(&isid, idx) };
        for i in idx {
          if revoke { model.insert(*i); } else { model.remove(i); }
        }
        match (res, idoc.core_document().resolve_revocation_bitmap((&isid).into())) {
          (Ok(()), Ok(b)) => {
            for i in 0..120u32 {
              if b.is_revoked(i) != model.contains(&i) {
                log.push(format!("[iota-wrapper] after {} {idx:?}: index {i} revoked = {}, expected {}", if revoke { "revoke" } else { "unrevoke" }, b.is_revoked(i), model.contains(&i)));
                break;
              }
            }
            // re-synchronise, so that a deviation is attributed to the step that caused it only
            model = (0..120u32).filter(|i| b.is_revoked(*i)).collect();
          }
          (r, b) => log.push(format!("[iota-wrapper] {} {idx:?} failed: {:?} / bitmap readable: {}", if revoke { "revoke" } else { "unrevoke" }, r.err().map(|e| e.to_string()), b.is_ok())),
        }
      }
    }
    // revoke / unrevoke through the document
    let mut doc = CoreDocument::builder(Object::new()).id(did.clone()).build().unwrap();
    doc.insert_service(RevocationBitmap::new().to_service(sid.clone()).unwrap()).unwrap();
    let mut model = std::collections::BTreeSet::new();
    let mut probes: Vec<u32> = vec![0, 1, 2, 3, 9, 15, 254, 1000, 1337, 65535, 65536, 65537, u32::MAX];
    probes.extend(18..80u32);
    for (revoke, batch) in [(true, vec![3u32, 9, 254, 65536]), (true, vec![2, 15, 1337, 1000, 0, 1, 65535, 65537]), (false, vec![9, 1000, 7]), (true, vec![u32::MAX]), (false, vec![3, 254, 65536, u32::MAX]),
      // batches with repeats, gaps filled by repeats, blocks in any order, a repeat at the end
      (true, vec![20, 22, 22]), (false, vec![20, 22, 20]), (true, vec![40, 41, 42, 43]), (false, vec![43, 41, 41]), (true, vec![50, 52, 51, 50]), (true, vec![60, 60]), (false, vec![61, 60, 60]), (true, vec![70, 72, 74, 72, 70])] {
      let res = if revoke { doc.revoke_credentials(&sid, &batch) } else { doc.unrevoke_credentials(&sid, &batch) };
      if let Err(e) = res {
        log.push(format!("[document] {} {:?} failed: {e}", if revoke { "revoke" } else { "unrevoke" }, batch));
        break;
      }
      for i in &batch {
        if revoke {
          model.insert(*i);
        } else {
          model.remove(i);
        }
      }
      match doc.resolve_revocation_bitmap((&sid).into()) {
        Ok(b) => {
          for p in &probes {
            if b.is_revoked(*p) != model.contains(p) {
              log.push(format!("[document] after {} {:?}: index {p} revoked={} (model {})", if revoke { "revoke" } else { "unrevoke" }, batch, b.is_revoked(*p), model.contains(p)));
            }
          }
          if b.len() != model.len() as u64 {
            log.push(format!("[document] bitmap holds {} entries, model {}", b.len(), model.len()));
          }
        }
        Err(e) => log.push(format!("[document] bitmap service no longer resolves after an update: {e}")),
      }
    }
    // status check through the validator utilities: revoked exactly when the index is a member
    {
      use identity_credential::credential::{CredentialBuilder, RevocationBitmapStatus, Status, Subject};
      use identity_credential::validator::{JwtCredentialValidatorUtils, StatusCheck};
      let members = doc.resolve_revocation_bitmap((&sid).into()).map(|b| probes.iter().map(|p| (*p, b.is_revoked(*p))).collect::<Vec<_>>()).unwrap_or_default();
      for (idx, member) in members {
        let status: Status = RevocationBitmapStatus::new(sid.clone(), idx).into();
        let cred: identity_credential::credential::Credential = CredentialBuilder::default()
          .issuer(Url::parse(did.as_str()).unwrap())
          .subject(Subject::with_id(Url::parse("did:example:subject").unwrap()))
          .status(status)
          .build()
          .unwrap();
        let c2 = cred.clone();
        let d2 = doc.clone();
        match no_panic(move || JwtCredentialValidatorUtils::check_status(&c2, &[d2], StatusCheck::Strict).is_ok()) {
          Err(msg) => log.push(format!("[document] check_status with index {idx} panicked: {msg}")),
          Ok(ok) => {
            if ok == member {
              log.push(format!("[document] check_status for index {idx}: {} although membership is {member}", if ok { "valid" } else { "revoked" }));
            }
          }
        }
      }
    }
    // two bitmap services sharing a fragment under different DIDs: the status id names exactly one of them
    {
      use identity_credential::credential::{CredentialBuilder, RevocationBitmapStatus, Status, Subject};
      use identity_credential::validator::{JwtCredentialValidatorUtils, StatusCheck};
      let foreign = identity_did::DIDUrl::parse("did:example:zzzzzz#twin").unwrap();
      let own = did.to_url().join("#twin").unwrap();
      for (first, second) in [(&foreign, &own), (&own, &foreign)] {
        let mut d = CoreDocument::builder(Object::new()).id(did.clone()).build().unwrap();
        let mut with5 = RevocationBitmap::new();
        with5.revoke(5);
        d.insert_service((if first == &foreign { with5.clone() } else { RevocationBitmap::new() }).to_service(first.clone()).unwrap()).unwrap();
        d.insert_service((if second == &foreign { with5.clone() } else { RevocationBitmap::new() }).to_service(second.clone()).unwrap()).unwrap();
        for (target, revoked) in [(&own, false), (&foreign, true)] {
          let status: Status = RevocationBitmapStatus::new(target.clone(), 5).into();
          let cred: identity_credential::credential::Credential = CredentialBuilder::default()
            .issuer(Url::parse(did.as_str()).unwrap())
            .subject(Subject::with_id(Url::parse("did:example:subject").unwrap()))
            .status(status)
            .build()
            .unwrap();
          let d2 = d.clone();
          match no_panic(move || JwtCredentialValidatorUtils::check_status(&cred, &[d2], StatusCheck::Strict).is_ok()) {
            Err(msg) => log.push(format!("[document] check_status with twin services panicked: {msg}")),
            Ok(ok) if ok == revoked => log.push(format!("[document] two services share a fragment: status {target} index 5 is {} although that service says revoked={revoked}", if ok { "valid" } else { "revoked" })),
            Ok(_) => {}
          }
        }
      }
    }
    if doc.revoke_credentials(&did.to_url().join("#nope").unwrap(), &[1]).is_ok() {
      log.push("[document] revoke on a missing service succeeded".into());
    }
    log
  });
  match r {
    Err(msg) => Ok(format!("revocation bitmap handling panicked: {msg}")),
    Ok(log) => {
      let log: Vec<String> = log.into_iter().filter(|l| only.as_ref().map(|o| l.contains(o.as_str())).unwrap_or(true)).collect();
      if log.is_empty() {
        Err("revocation battery: all expectations met".to_owned())
      } else {
        Ok(format!("{} deviations, e.g. {}", log.len(), log[..log.len().min(3)].join("; ")))
      }
    }
  }
}
