//! Native battery for C16 (SD-JWT credentials and key-binding JWTs) - confirmation only.
use crate::cred::{credential, doc, method_key, sign_jwt, HOLDER, ISSUER, OTHER};
use crate::jws::toy_verify;
use crate::*;
use identity_core::common::{Object, Timestamp};
use identity_core::convert::ToJson;
use identity_credential::sd_jwt_payload::{KeyBindingJwtClaims, SdJwt, SdObjectDecoder, SdObjectEncoder, Sha256Hasher};
use identity_credential::validator::{
  FailFast, JwtCredentialValidationOptions, KeyBindingJWTValidationOptions, SdJwtCredentialValidator,
};
use identity_document::verifiable::JwsVerificationOptions;
use identity_jose::jwk::Jwk;
use identity_jose::jws::{CompactJwsEncoder, JwsAlgorithm, JwsHeader, JwsVerifierFn};
use identity_verification::MethodScope;
use identity_credential::credential::Jwt;
use identity_document::document::CoreDocument;

fn sign_typed(claims: &str, kid: &str, typ: &str, k: &Jwk) -> String {
  let mut h = JwsHeader::new();
  h.set_alg(JwsAlgorithm::EdDSA);
  h.set_kid(kid);
  h.set_typ(typ);
  let e = CompactJwsEncoder::new(claims.as_bytes(), &h).unwrap();
  let sig = crate::jws::toy_sign(k, e.signing_input());
  e.into_jws(&sig)
}

pub fn sd_jwt(cex: &Value) -> Result<String, String> {
  let only: Option<String> = cex.get("only").and_then(Value::as_str).map(str::to_owned);
  let r = no_panic(|| -> Vec<String> {
    let log = std::cell::RefCell::new(Vec::<String>::new());
    let validator = SdJwtCredentialValidator::with_signature_verifier(JwsVerifierFn::from(toy_verify), SdObjectDecoder::new_with_sha256());
    let issuer = doc(ISSUER, &[(ISSUER, "#assert", MethodScope::assertion_method()), (ISSUER, "#auth", MethodScope::authentication())]);
    let holder = doc(HOLDER, &[(HOLDER, "#auth", MethodScope::authentication()), (HOLDER, "#assert", MethodScope::assertion_method())]);
    let t0 = 1_700_000_000i64;
    let ts = |s: i64| Timestamp::from_unix(s).unwrap();
    let cred = credential(ISSUER, HOLDER, ts(t0), Some(ts(t0 + 1000)));
    let payload = cred.serialize_jwt(None).unwrap();
    let mut enc = SdObjectEncoder::new(&payload).unwrap();
    let d1 = enc.conceal("/vc/type", None).unwrap().to_string();
    enc.add_sd_alg_property();
    let encoded = enc.try_to_string().unwrap();
    let kid = format!("{ISSUER}#assert");
    let jwt = sign_jwt(&encoded, Some(&kid), None, &method_key(ISSUER, "#assert"));
    let disclosures = vec![d1.clone()];
    let kb_claims = |nonce: &str, aud: &str, iat: i64, jwt_s: &str, ds: &[String]| {
      KeyBindingJwtClaims::new(&Sha256Hasher::new(), jwt_s.to_string(), ds.to_vec(), nonce.to_string(), aud.to_string(), iat).to_json().unwrap()
    };
    let hkid = format!("{HOLDER}#auth");
    let kb = sign_typed(&kb_claims("n1", "aud1", t0, jwt.as_str(), &disclosures), &hkid, KeyBindingJwtClaims::KB_JWT_HEADER_TYP, &method_key(HOLDER, "#auth"));
    let sd = |kbj: Option<String>, ds: Vec<String>| SdJwt::new(jwt.as_str().to_string(), ds, kbj);
    let copts = || JwtCredentialValidationOptions::default().latest_issuance_date(ts(t0)).earliest_expiry_date(ts(t0 + 1000));
    let expect = |tag: &str, name: &str, got_ok: bool, want_ok: bool| {
      if got_ok != want_ok {
        log.borrow_mut().push(format!("[{tag}] {name}: {} (expected {})", if got_ok { "accepted" } else { "rejected" }, if want_ok { "acceptance" } else { "rejection" }));
      }
    };
    // ---- credential
    let v = |s: &SdJwt, o: &JwtCredentialValidationOptions| validator.validate_credential::<_, Object>(s, &issuer, o, FailFast::FirstError);
    match v(&sd(None, disclosures.clone()), &copts()) {
      Ok(d) => {
        if d.credential != cred {
          log.borrow_mut().push("[cred] fully disclosed credential differs from the one issued".into());
        }
      }
      Err(_) => log.borrow_mut().push("[cred] valid SD-JWT credential rejected".into()),
    }
    expect("cred", "issued after the bound", v(&sd(None, disclosures.clone()), &copts().latest_issuance_date(ts(t0 - 1))).is_ok(), false);
    expect("cred", "expired before the bound", v(&sd(None, disclosures.clone()), &copts().earliest_expiry_date(ts(t0 + 1001))).is_ok(), false);
    expect("cred", "forged disclosure", v(&sd(None, vec![format!("{d1}x")]), &copts()).is_ok(), false);
    expect("cred", "duplicated disclosure", v(&sd(None, vec![d1.clone(), d1.clone()]), &copts()).is_ok(), false);
    expect("cred", "nonce configured but absent", v(&sd(None, disclosures.clone()), &copts().verification_options(JwsVerificationOptions::default().nonce("n"))).is_ok(), false);
    expect(
      "cred",
      "scope excluding the method",
      v(&sd(None, disclosures.clone()), &copts().verification_options(JwsVerificationOptions::default().method_scope(MethodScope::authentication()))).is_ok(),
      false,
    );
    // malformed disclosures of any length and alphabet (the decoder's error echoes them): an error, never a panic
    for ch in ["a", "\u{e9}", "\u{20ac}", "\u{1f600}", "!"] {
      for n in [0usize, 1, 2, 3, 39, 40, 41, 63, 64, 65, 80, 127, 128, 129, 160, 161, 200, 255, 256, 257, 1000] {
        for lead in ["", "x", "xy", "xyz"] {
          let bad = format!("{lead}{}", ch.repeat(n));
          let sdx = sd(None, vec![bad.clone()]);
          let sdy = sd(None, vec![d1.clone(), bad]);
          match no_panic(std::panic::AssertUnwindSafe(|| (v(&sdx, &copts()).is_ok(), v(&sdy, &copts()).is_ok()))) {
            Err(msg) => {
              log.borrow_mut().push(format!("[cred-panic] malformed disclosure ({lead:?} + {n} x {ch:?}): validation panicked: {msg}"));
            }
            Ok((a, b)) => {
              if a || (b && n + lead.len() > 0) {
                log.borrow_mut().push(format!("[cred] malformed disclosure ({lead:?} + {n} x {ch:?}) accepted"));
              }
            }
          }
        }
      }
      if log.borrow().len() > 6 {
        break;
      }
    }
    let wrong = sign_jwt(&encoded, Some(&kid), None, &method_key(ISSUER, "#auth"));
    expect("cred", "signed with another key", validator.validate_credential::<_, Object>(&SdJwt::new(wrong.as_str().to_string(), disclosures.clone(), None), &issuer, &copts(), FailFast::FirstError).is_ok(), false);
    expect("cred", "validated against another document", validator.validate_credential::<_, Object>(&sd(None, disclosures.clone()), &holder, &copts(), FailFast::FirstError).is_ok(), false);
    // several trusted issuers: the token's issuer has to be the DID of the method that verified it
    {
      let other_doc = doc(OTHER, &[(OTHER, "#assert", MethodScope::assertion_method())]);
      let cred_o = credential(OTHER, HOLDER, ts(t0), Some(ts(t0 + 1000)));
      let mut enc_o = SdObjectEncoder::new(&cred_o.serialize_jwt(None).unwrap()).unwrap();
      enc_o.add_sd_alg_property();
      let enc_o = enc_o.try_to_string().unwrap();
      let forged = sign_jwt(&enc_o, Some(&kid), None, &method_key(ISSUER, "#assert")); // names OTHER, signed by ISSUER
      let okid = format!("{OTHER}#assert");
      let honest = sign_jwt(&enc_o, Some(&okid), None, &method_key(OTHER, "#assert"));
      let vs = |j: &Jwt, docs: &[CoreDocument]| {
        validator.verify_signature::<_, Object>(&SdJwt::new(j.as_str().to_string(), vec![], None), docs, &JwsVerificationOptions::default()).is_ok()
      };
      expect("cred", "names trusted B, signed by trusted A (A,B)", vs(&forged, &[issuer.clone(), other_doc.clone()]), false);
      expect("cred", "names trusted B, signed by trusted A (B,A)", vs(&forged, &[other_doc.clone(), issuer.clone()]), false);
      expect("cred", "honest token of B among (A,B)", vs(&honest, &[issuer.clone(), other_doc.clone()]), true);
      expect("cred", "honest token of B, only A trusted", vs(&honest, &[issuer.clone()]), false);
    }
    // the issuer named by the *reconstructed* credential has to be the DID of the key that verified it - also when `iss` is a concealed
    // claim supplied as a disclosure (the signed claims then carry no `iss` at all)
    {
      let other_doc = doc(OTHER, &[(OTHER, "#assert", MethodScope::assertion_method())]);
      for (names, want) in [(ISSUER, true), (OTHER, false)] {
        let c = credential(names, HOLDER, ts(t0), Some(ts(t0 + 1000)));
        let mut e = SdObjectEncoder::new(&c.serialize_jwt(None).unwrap()).unwrap();
        let Ok(d_iss) = e.conceal("/iss", None) else {
          continue;
        };
        e.add_sd_alg_property();
        let signed = sign_jwt(&e.try_to_string().unwrap(), Some(&kid), None, &method_key(ISSUER, "#assert")); // always signed by ISSUER
        let s2 = SdJwt::new(signed.as_str().to_string(), vec![d_iss.to_string()], None);
        let got = validator.verify_signature::<_, Object>(&s2, &[issuer.clone(), other_doc.clone()], &JwsVerificationOptions::default()).is_ok();
        expect("cred", &format!("concealed iss disclosed as {names}, signed by {ISSUER}"), got, want);
        let got2 = validator.validate_credential::<_, Object>(&s2, &issuer, &copts(), FailFast::FirstError).is_ok();
        expect("cred", &format!("concealed iss disclosed as {names}, signed by {ISSUER} (validate_credential)"), got2, want);
      }
    }
    // ---- key binding
    let kopts = || KeyBindingJWTValidationOptions::new().nonce("n1").aud("aud1").earliest_issuance_date(ts(t0)).latest_issuance_date(ts(t0));
    let k = |s: &SdJwt, o: &KeyBindingJWTValidationOptions| no_panic(std::panic::AssertUnwindSafe(|| validator.validate_key_binding_jwt(s, &holder, o).is_ok()));
    let kexpect = |name: &str, r: Result<bool, String>, want: bool| match r {
      Err(msg) => log.borrow_mut().push(format!("[kb-panic] {name}: validate_key_binding_jwt panicked: {msg}")),
      Ok(got) => expect("kb", name, got, want),
    };
    kexpect("valid KB-JWT at the window edges", k(&sd(Some(kb.clone()), disclosures.clone()), &kopts()), true);
    kexpect("KB-JWT absent", k(&sd(None, disclosures.clone()), &kopts()), false);
    kexpect("iat 1s before the earliest bound", k(&sd(Some(kb.clone()), disclosures.clone()), &kopts().earliest_issuance_date(ts(t0 + 1))), false);
    kexpect("iat 1s after the latest bound", k(&sd(Some(kb.clone()), disclosures.clone()), &kopts().latest_issuance_date(ts(t0 - 1))), false);
    kexpect("other nonce", k(&sd(Some(kb.clone()), disclosures.clone()), &kopts().nonce("n2")), false);
    // nonces are compared as whole strings: prefixes, extensions, the empty string and case variants are other nonces
    for required in ["", "n", "n12", "N1", "n1 ", " n1", "1n"] {
      kexpect(&format!("token nonce \"n1\", required nonce {required:?}"), k(&sd(Some(kb.clone()), disclosures.clone()), &kopts().nonce(required)), false);
      let kbn = sign_typed(&kb_claims(required, "aud1", t0, jwt.as_str(), &disclosures), &hkid, KeyBindingJwtClaims::KB_JWT_HEADER_TYP, &method_key(HOLDER, "#auth"));
      kexpect(&format!("token nonce {required:?}, required nonce \"n1\""), k(&sd(Some(kbn), disclosures.clone()), &kopts()), false);
    }
    // each configured member is enforced on its own: audience without a nonce, nonce without an audience
    {
      let only_aud = |a: &str| KeyBindingJWTValidationOptions::new().aud(a).earliest_issuance_date(ts(t0)).latest_issuance_date(ts(t0));
      let only_nonce = |n: &str| KeyBindingJWTValidationOptions::new().nonce(n).earliest_issuance_date(ts(t0)).latest_issuance_date(ts(t0));
      kexpect("only an audience configured, token for that audience", k(&sd(Some(kb.clone()), disclosures.clone()), &only_aud("aud1")), true);
      kexpect("only an audience configured, token for another audience", k(&sd(Some(kb.clone()), disclosures.clone()), &only_aud("aud2")), false);
      kexpect("only a nonce configured, token with that nonce", k(&sd(Some(kb.clone()), disclosures.clone()), &only_nonce("n1")), true);
      kexpect("only a nonce configured, token with another nonce", k(&sd(Some(kb.clone()), disclosures.clone()), &only_nonce("n2")), false);
    }
    // sd_hash covers the disclosures exactly as presented: a presentation that repeats, drops or reorders disclosures is another text
    {
      let reps = vec![d1.clone(), d1.clone()];
      kexpect("KB-JWT over [d] presented with [d, d]", k(&sd(Some(kb.clone()), reps.clone()), &kopts()), false);
      let kb_rep = sign_typed(&kb_claims("n1", "aud1", t0, jwt.as_str(), &reps), &hkid, KeyBindingJwtClaims::KB_JWT_HEADER_TYP, &method_key(HOLDER, "#auth"));
      kexpect("KB-JWT over [d, d] presented with [d]", k(&sd(Some(kb_rep), disclosures.clone()), &kopts()), false);
    }
    for aud in ["", "aud", "aud12", "AUD1"] {
      kexpect(&format!("token audience \"aud1\", required audience {aud:?}"), k(&sd(Some(kb.clone()), disclosures.clone()), &kopts().aud(aud)), false);
    }
    kexpect("other audience", k(&sd(Some(kb.clone()), disclosures.clone()), &kopts().aud("aud2")), false);
    kexpect("disclosure withheld: sd_hash over other data", k(&sd(Some(kb.clone()), vec![]), &kopts()), false);
    let kb_wrong_typ = sign_typed(&kb_claims("n1", "aud1", t0, jwt.as_str(), &disclosures), &hkid, "JWT", &method_key(HOLDER, "#auth"));
    {
      // protected header without any typ
      let mut h = JwsHeader::new();
      h.set_alg(JwsAlgorithm::EdDSA);
      h.set_kid(&hkid);
      let kbc = kb_claims("n1", "aud1", t0, jwt.as_str(), &disclosures);
      let e = CompactJwsEncoder::new(kbc.as_bytes(), &h).unwrap();
      let sig = crate::jws::toy_sign(&method_key(HOLDER, "#auth"), e.signing_input());
      let no_typ = e.into_jws(&sig);
      kexpect("typ absent", k(&sd(Some(no_typ), disclosures.clone()), &kopts()), false);
    }
    kexpect("typ is JWT", k(&sd(Some(kb_wrong_typ), disclosures.clone()), &kopts()), false);
    let kb_wrong_key = sign_typed(&kb_claims("n1", "aud1", t0, jwt.as_str(), &disclosures), &hkid, KeyBindingJwtClaims::KB_JWT_HEADER_TYP, &method_key(HOLDER, "#assert"));
    kexpect("signed with another method's key", k(&sd(Some(kb_wrong_key), disclosures.clone()), &kopts()), false);
    let okid = format!("{OTHER}#auth");
    let kb_other = sign_typed(&kb_claims("n1", "aud1", t0, jwt.as_str(), &disclosures), &okid, KeyBindingJwtClaims::KB_JWT_HEADER_TYP, &method_key(OTHER, "#auth"));
    kexpect("signed by another holder", k(&sd(Some(kb_other), disclosures.clone()), &kopts()), false);
    // a holder-chosen `iat` at the ends of the integer range: rejected (or accepted without bounds), never a panic
    for iat in [i64::MIN, i64::MIN + 1, i64::MIN + 4, i64::MIN + 59, i64::MIN + 3600, i64::MAX, i64::MAX - 1, i64::MAX - 59, i64::MAX - 3600, -62167219201, 253402300800] {
      let kbx = sign_typed(&kb_claims("n1", "aud1", iat, jwt.as_str(), &disclosures), &hkid, KeyBindingJwtClaims::KB_JWT_HEADER_TYP, &method_key(HOLDER, "#auth"));
      kexpect(&format!("iat = {iat}"), k(&sd(Some(kbx.clone()), disclosures.clone()), &kopts()), false);
      if let Err(msg) = k(&sd(Some(kbx), disclosures.clone()), &KeyBindingJWTValidationOptions::new()) {
        log.borrow_mut().push(format!("[kb-panic] iat = {iat}, no bounds: validate_key_binding_jwt panicked: {msg}"));
      }
    }
    let mut o = kopts();
    o.jws_options = JwsVerificationOptions::default().method_scope(MethodScope::assertion_method());
    kexpect("scope excluding the holder method", k(&sd(Some(kb.clone()), disclosures.clone()), &o), false);
    log.into_inner()
  });
  match r {
    Err(msg) => Ok(format!("SD-JWT validation panicked: {msg}")),
    Ok(log) => {
      let log: Vec<String> = log.into_iter().filter(|l| only.as_ref().map(|o| l.contains(o.as_str())).unwrap_or(true)).collect();
      if log.is_empty() {
        Err("SD-JWT battery: all expectations met".to_owned())
      } else {
        Ok(format!("{} deviations, e.g. {}", log.len(), log[..log.len().min(4)].join("; ")))
      }
    }
  }
}
