"""C20 - the resolver dispatches by DID method (engine M: binding audit + fault-schedule mode of the async bodies).

What is decided: the *wiring* of `Resolver::resolve`, `Resolver::resolve_multiple`, `attach_handler` (both command kinds),
`attach_did_jwk_handler`, `Command::apply` and the two `Command::new` closures, executed from the freshly dumped generic MIR with
`HashMap::get/insert`, the handler, the DID conversions and `FuturesUnordered`/`try_collect` as uninterpreted functions.
What is NOT decided (outside): the semantics of `HashMap` (one value per key, look-up by string equality), of `HashSet`
(deduplication) and of `FuturesUnordered`/`TryCollect` (every pushed future is driven to completion, in any completion order) - they
are std / third-party code behind the callees; the native battery exercises them on concrete completion orders but is not a
deciding step.
"""
import re
import z3
from core import *
import execu
from execu import Exec, State, Refuse
from values import *
from audit import *
from loader import load
import models
import c09
from c09 import coroutine_paths, result_of, awaited, ready_val, is_sub
from audit import WRAPPERS

CRATES = ['identity_resolver', 'identity_document', 'identity_verification', 'identity_did']
SRC = []


def R(tag):
    return {'scenario': 'resolver', 'cex': {'only': tag}}


def calls_not_noise(p):
    return [c for c in p.calls if not re.search(c09.NOISE, c.name)]


def app_name(t):
    return t[1] if isinstance(t, tuple) and t and t[0] == 'app' else None


def run(ctx, prog, only=None):
    A = Auditor(ctx, prog, only=only)
    S = prog.structs
    CM = S['Resolver'].index('command_map')

    # ------------------------------------------------------------------------------------------------------ Resolver::resolve
    f = prog.one(r'resolver::<impl at [^>]*>::resolve::\{closure#0\}$')
    paths, ex = coroutine_paths(ctx, prog, f)
    ctx.extra['resolve_paths'] = len(paths)

    def self_map(t):
        """t is (a reference to) self.command_map: field CM of the captured resolver (capture 0 of the coroutine)"""
        fp = field_path(strip(t))
        return fp is not None and fp[0] == 'co' and [i for _, i in fp[1]] == [0, CM]

    def the_did(t):
        fp = field_path(strip(t))
        return fp is not None and fp[0] == 'co' and [i for _, i in fp[1]] == [1]

    def r_resolve(p):
        if p.kind != 'return':
            return 'panic reachable: ' + p.msg
        gets = [c for c in p.calls if re.search(r'HashMap.*::get$|HashMap::get$|::get_key_value$|::contains_key$|BTreeMap.*::get$', c.name)]
        if len(gets) != 1 or not re.search(r'::get$', gets[0].name):
            return 'the handler is not looked up by exactly one map look-up'
        g = gets[0]
        if not self_map(g.args[0]):
            return 'the look-up is not made in the resolver\'s own handler table'
        key = g.args[1]
        while isinstance(key, tuple) and key[0] in ('ref', 'deref'):
            key = key[1]
        if not (app_name(key) and re.search(r'DID>::method$', app_name(key)) and the_did(key[2][0])):
            return 'the handler table is not queried with exactly the method of the DID being resolved (key: %s)' % term_str(key)[:120]
        applies = p.find_calls(r'Command<.*>>::apply$|::apply$')
        others = [c for c in calls_not_noise(p) if re.search(r'Fn<|FnOnce<|FnMut<|::call$|::call_once$|::call_mut$|values|iter\b', c.name)]
        res = result_of(p)
        if p.took(g.ret, 'None'):
            if applies or others:
                return 'a handler is invoked although no handler is registered for the method'
            t = p.term(res)
            if not (isinstance(res, VAgg) and res.variant == 'Err' and 'UnsupportedMethodError' in term_str(t)):
                return 'a missing handler is not reported as an unsupported-method error'
            return None
        if not p.took(g.ret, 'Some'):
            return 'the look-up outcome is not examined'
        if len(applies) != 1 or others:
            return 'not exactly one handler invocation'
        a = applies[0]
        if strip(a.args[0]) != ('field', g.ret, 0, 'Some'):
            return 'the command applied is not the one the look-up returned'
        din = a.args[1]
        while isinstance(din, tuple) and din[0] in ('ref', 'deref'):
            din = din[1]
        if not (app_name(din) and re.search(r'DID>::as_str$|::as_str$|AsRef<str>>::as_ref$', app_name(din)) and the_did(din[2][0])):
            return 'the handler is not given the whole text of the DID being resolved (got %s)' % term_str(din)[:120]
        pl = [q for _, q in awaited(p, r'::apply$')]
        if len(pl) != 1:
            return 'the handler\'s future is not awaited exactly once'
        t = p.term(res)
        if t != ready_val(pl[0]):
            return 'what resolve returns is not the handler\'s result as it stands'
        return None
    A.require('Resolver::resolve/dispatch-by-method-of-the-did', paths, r_resolve, replay=R('[dispatch]'))

    # ------------------------------------------------------------------------------------------------ Command::apply (both kinds)
    for f in prog.find(r'commands::<impl at [^>]*>::apply$'):
        ps, _ = A.paths(f)

        def r_apply(p, f=f):
            if p.kind != 'return':
                return 'panic reachable: ' + p.msg
            cs = [c for c in p.calls if not c.inlined]
            if len(cs) != 1 or not re.search(r'Fn<.*>>::call$', cs[0].name):
                return 'apply does more (or less) than invoke the stored callback once'
            c = cs[0]
            fp = field_path(strip(c.args[0]))
            if not (fp and fp[0] == 'self' and [i for _, i in fp[1]] == [0]):
                return 'the callback invoked is not the command\'s own'
            if not (mentions(c.args[1], r'^input$')) or apps(c.args[1], r'.'):
                return 'the callback is not given the input as received'
            if p.term() != c.ret:
                return 'apply does not return the callback\'s future'
            return None
        A.require('%s::apply/invokes-own-callback-with-the-input' % ('SendSyncCommand' if 'SendSync' in f.args[0][1] else 'SingleThreadedCommand'), ps, r_apply, replay=R('[dispatch]'))

    # --------------------------------------------------------------------------------- Command::new: the callback and its future
    news = prog.find(r'commands::<impl at [^>]*>::new$')
    if len(news) != 2:
        raise Refuse('expected two Command::new constructors, found %d' % len(news))
    for f in news:
        kind = 'SendSyncCommand' if 'SendSync' in f.ret_ty else 'SingleThreadedCommand'
        ps, _ = A.paths(f)

        def r_new(p):
            if p.kind != 'return':
                return 'panic reachable: ' + p.msg
            t = p.term()
            fns = [s for s in subterms(t) if isinstance(s, tuple) and len(s) == 3 and s[0] == 'fn']
            if len(fns) != 1 or not mentions(fns[0][2], r'^handler$'):
                return 'the stored callback does not capture the caller\'s handler'
            return None
        A.require('%s::new/callback-captures-the-handler' % kind, ps, r_new, replay=R('[dispatch]'))

        c0 = prog.one(re.escape(f.name) + r'::\{closure#0\}$')
        ps, _ = A.paths(c0)

        def r_cb(p):
            if p.kind != 'return':
                return 'panic reachable: ' + p.msg
            tf = p.find_calls(r'TryFrom<&str>>::try_from$|FromStr>::from_str$|::parse$')
            if len(tf) != 1 or strip(tf[0].args[0]) != ('leaf', 'input'):
                return 'the DID handed to the handler is not converted from the input text as received'
            t = p.term()
            fns = [s for s in subterms(t) if isinstance(s, tuple) and len(s) == 3 and s[0] == 'fn' and 'coroutine' in s[1]]
            if len(fns) != 1:
                return 'the callback does not return one future'
            cap = fns[0][2]
            caps = cap[3] if isinstance(cap, tuple) and cap[0] == 'agg' else ()
            # one capture carries the conversion outcome, one the (cloned) handler
            conv = [c for c in caps if is_sub(c, tf[0].ret)]
            hnd = [c for c in caps if mentions(c, r'^arg1$|^self$|^_1$') and not is_sub(c, tf[0].ret)]
            if len(conv) != 1 or len(hnd) != 1:
                return 'the future does not capture (conversion outcome, handler)'
            if p.took(tf[0].ret, 'Ok'):
                if strip(conv[0]) != ('agg', 'Result', 'Ok', (('field', tf[0].ret, 0, 'Ok'),)):
                    return 'a successfully converted DID is not passed on as it is'
            elif p.took(tf[0].ret, 'Err'):
                if not (isinstance(conv[0], tuple) and conv[0][0] == 'agg' and conv[0][2] == 'Err' and 'DIDParsingError' in term_str(conv[0])):
                    return 'a failed conversion is not passed on as a DID-parsing error'
            else:
                return 'conversion outcome not examined'
            return None
        A.require('%s::new/callback-converts-the-input-and-hands-it-to-the-future' % kind, ps, r_cb, replay=R('[dispatch]'))

        c1 = prog.one(re.escape(f.name) + r'::\{closure#0\}::\{closure#1\}$')
        ps, _ = coroutine_paths(ctx, prog, c1)

        def r_fut(p):
            if p.kind != 'return':
                return 'panic reachable: ' + p.msg
            res = result_of(p)
            t = p.term(res)
            hc = [c for c in calls_not_noise(p) if re.search(r'Fn<.*>>::call$|FnOnce<.*>>::call_once$|FnMut<.*>>::call_mut$', c.name)]
            parse = ('field', ('leaf', 'co'), 0, '')
            if p.took(parse, 'Err'):
                if hc:
                    return 'the handler is invoked although the DID did not convert'
                if not (isinstance(res, VAgg) and res.variant == 'Err' and strip(t[3][0]) == ('field', parse, 0, 'Err')):
                    return 'a DID conversion error is not returned as it is'
                return None
            if not p.took(parse, 'Ok'):
                return 'conversion outcome not examined'
            if len(hc) != 1:
                return 'the handler is not invoked exactly once'
            h = hc[0]
            fp = field_path(strip(h.args[0]))
            if not (fp and fp[0] == 'co' and [i for _, i in fp[1]] == [1]):
                return 'the function invoked is not the attached handler'
            want = ('field', parse, 0, 'Ok')
            if not (is_sub(h.args[1], want) and not apps(h.args[1], r'.')):
                return 'the handler is not given the converted DID'
            pl = [q for q in p.calls if re.search(r'Future>::poll$', q.name) and is_sub(('x', tuple(q.args)), h.ret)]
            if len(pl) != 1:
                return 'the handler\'s future is not awaited exactly once'
            out = ready_val(pl[0])
            if p.took(out, 'Ok'):
                ok = isinstance(res, VAgg) and res.variant == 'Ok' and strip(t[3][0]) == ('field', out, 0, 'Ok')
                return None if ok else 'the document returned is not the handler\'s document'
            if p.took(out, 'Err'):
                ok = isinstance(res, VAgg) and res.variant == 'Err' and 'HandlerError' in term_str(t) and is_sub(t, ('field', out, 0, 'Err'))
                return None if ok else 'a handler failure is not reported as a handler error carrying its cause'
            return 'handler outcome not examined'
        A.require('%s::new/future-invokes-the-handler-once-with-the-converted-did' % kind, ps, r_fut, replay=R('[dispatch]'))

    # ----------------------------------------------------------------------------------------------------------- attach_handler
    ahs = prog.find(r'resolver::<impl at [^>]*>::attach_handler$')
    if len(ahs) != 2:
        raise Refuse('expected two attach_handler functions, found %d' % len(ahs))
    for f in ahs:
        kind = 'SendSync' if 'SingleThreaded' not in f.args[0][1] else 'SingleThreaded'
        ps, _ = A.paths(f)

        def r_attach(p, kind=kind):
            if p.kind != 'return':
                return 'panic reachable: ' + p.msg
            ins = [c for c in calls_not_noise(p) if re.search(r'HashMap.*::(insert|entry|try_insert|extend|remove|clear|retain)$', c.name)]
            if len(ins) != 1 or not re.search(r'::insert$', ins[0].name):
                return 'registration is not exactly one insertion into the handler table'
            c = ins[0]
            fp = field_path(strip(c.args[0]))
            if not (fp and fp[0] == 'self' and [i for _, i in fp[1]] == [CM]):
                return 'the insertion is not into the resolver\'s handler table'
            if strip(c.args[1]) != ('leaf', 'method') or apps(c.args[1], r'.'):
                return 'the handler is not registered under the method name given by the caller'
            v = c.args[2]
            if not (app_name(v) and re.search(r'%sCommand::new$|%sCommand.*::new$' % (kind, kind), app_name(v)) and strip(v[2][0]) == ('leaf', 'handler')):
                return 'the value registered is not the command built from the caller\'s handler'
            return None
        A.require('Resolver::attach_handler[%s]/registers-the-handler-under-the-given-method' % kind, ps, r_attach, replay=R('[dispatch]'))

    for f in prog.find(r'resolver::<impl at [^>]*>::attach_did_jwk_handler$'):
        kind = 'SendSync' if 'SingleThreaded' not in f.args[0][1] else 'SingleThreaded'
        ps, _ = A.paths(f)

        def r_jwk(p):
            if p.kind != 'return':
                return 'panic reachable: ' + p.msg
            at = p.find_calls(r'attach_handler$')
            if len(at) != 1 or strip(at[0].args[0]) != ('leaf', 'self'):
                return 'not one attach_handler call on this resolver'
            if 'DIDJwk::METHOD' not in term_str(at[0].args[1]) and not any(s_ == ('const', b'jwk') for s_ in subterms(at[0].args[1])):
                return 'the did:jwk handler is not registered under DIDJwk::METHOD'
            return None
        A.require('Resolver::attach_did_jwk_handler[%s]/registered-under-the-jwk-method' % kind, ps, r_jwk, replay=R('[jwk]'))

    # ------------------------------------------------------------------------------------------------------- did:jwk expansion
    # handler -> CoreDocument::expand_did_jwk(did) -> VerificationMethod::try_from(did) -> new_from_jwk(did, did.jwk(), "0"): the key in the
    # method is what DIDJwk::jwk() decodes from the method-specific id, untouched on the way
    for f in prog.find(r'resolver::<impl at [^>]*>::attach_did_jwk_handler::\{closure#0\}::\{closure#0\}$'):
        ps, _ = coroutine_paths(ctx, prog, f)

        def r_h(p):
            if p.kind != 'return':
                return 'panic reachable: ' + p.msg
            cs = p.find_calls(r'CoreDocument::expand_did_jwk$')
            if len(cs) != 1 or field_path(strip(cs[0].args[0])) is None or field_path(strip(cs[0].args[0]))[0] != 'co':
                return 'the did:jwk handler does not expand the DID it was given'
            return None if p.term(result_of(p)) == cs[0].ret else 'the did:jwk handler does not return the expansion as it is'
        A.require('did:jwk handler[%s]/expands-the-did-it-was-given' % ('SingleThreaded' if 'SingleThreaded' in f.name or ':251:' in f.name else 'SendSync'), ps, r_h, replay=R('[jwk]'))

    f = prog.one(r'core_document::<impl at [^>]*>::expand_did_jwk$')
    ps, _ = A.paths(f)

    def r_exp(p):
        if p.kind != 'return':
            return 'panic reachable: ' + p.msg
        tf = p.find_calls(r'VerificationMethod as TryFrom<.*DIDJwk>>::try_from$')
        if len(tf) != 1 or not mentions(tf[0].args[0], r'^did_jwk$') or [a for a in apps(tf[0].args[0], r'.') if not WRAPPERS.search(a[1])]:
            return 'the method is not built from the DID being expanded'
        if p.took(tf[0].ret, 'Err'):
            return None if p.is_err() else 'a key that cannot become a method does not fail the expansion'
        if not p.is_ok() and not apps(p.term(), r'DocumentBuilder::build$'):
            return 'unexpected result'
        m = ('field', tf[0].ret, 0, 'Ok')
        vm = p.find_calls(r'DocumentBuilder::verification_method$')
        if len(vm) != 1 or strip(vm[0].args[1]) != m:
            return 'the document does not carry exactly one embedded method, the one built from the DID'
        idc = p.find_calls(r'DocumentBuilder::id$')
        if len(idc) != 1 or not mentions(idc[0].args[1], r'^did_jwk$') or is_sub(idc[0].args[1], tf[0].ret):
            return 'the document id is not the DID being expanded'
        mid = [c for c in p.find_calls(r'VerificationMethod::id$') if is_sub(c.args[0], m)]
        for rel in ('assertion_method', 'authentication', 'capability_invocation', 'capability_delegation'):
            rc = p.find_calls(r'DocumentBuilder::%s$' % rel)
            if len(rc) != 1 or not mid or not is_sub(rc[0].args[1], mid[0].ret):
                return '%s does not reference the one method' % rel
        others = [c for c in p.calls if re.search(r'DocumentBuilder::(key_agreement|service|controller|also_known_as|verification_method|property|properties)$', c.name)]
        if len(others) != 1:
            return 'the document carries more than the one method and its references'
        b = p.find_calls(r'DocumentBuilder::build$')
        if len(b) != 1 or strip(p.term()) != b[0].ret:
            return 'the document returned is not the one built'
        return None
    A.require('CoreDocument::expand_did_jwk/one-method-built-from-the-did-and-referenced', ps, r_exp, replay=R('[jwk]'))

    f = prog.one(r'verification_method::method::<impl at [^>]*>::try_from$|method::<impl at [^>]*>::try_from$', sig=r'^(\w+::)*DIDJwk')
    ps, _ = A.paths(f)

    def r_vm(p):
        if p.kind != 'return':
            return 'panic reachable: ' + p.msg
        nj = p.find_calls(r'VerificationMethod::new_from_jwk$')
        jk = p.find_calls(r'DIDJwk::jwk$')
        if len(nj) != 1 or len(jk) != 1 or not mentions(jk[0].args[0], r'^did$'):
            return 'the method is not built by new_from_jwk from the key the DID encodes'
        if strip(nj[0].args[1]) != jk[0].ret:
            return 'the key handed to the method is not exactly the key the DID encodes (got %s)' % term_str(nj[0].args[1])[:100]
        if strip(nj[0].args[0]) != ('leaf', 'did'):
            return 'the method is not built for the DID given'
        return None if strip(p.term()) == nj[0].ret else 'the method returned is not the one built'
    A.require('VerificationMethod::try_from<DIDJwk>/carries-exactly-the-key-the-did-encodes', ps, r_vm, replay=R('[jwk]'))

    f = prog.one(r'did_jwk::<impl at [^>]*>::jwk$')
    ps, _ = A.paths(f)

    def r_jwk_acc(p):
        if p.kind != 'return':
            return None      # the expect is the type's invariant (TryFrom<CoreDID> decoded the same text); C05 territory
        dc = p.find_calls(r'decode_b64_json$')
        if len(dc) != 1:
            return 'not one decoding'
        a = dc[0].args[0]
        while isinstance(a, tuple) and a[0] in ('ref', 'deref'):
            a = a[1]
        if not (app_name(a) and re.search(r'DID>::method_id$|::method_id$', app_name(a)) and mentions(a[2][0], r'^self$')):
            return 'the key is not decoded from the whole method-specific id of this DID'
        return None if strip(p.term()) == ('field', dc[0].ret, 0, 'Ok') else 'the key returned is not the decoded one'
    A.require('DIDJwk::jwk/decodes-the-whole-method-specific-id', ps, r_jwk_acc, replay=R('[jwk]'))

    # ----------------------------------------------------------------------------------------- resolve_multiple: per-DID future
    def candidate(name, why, rep):
        if not A.wants(name):
            return
        # the shape the requirement reads is gone (refactored code): a candidate, decided by the native battery - never a pass
        from replay import run_replay
        res = run_replay(rep)
        ctx.add(Ob(name, 'M', VIOLATED if res.get('reproduced') else INCONCLUSIVE,
                   detail='%s | native: %s' % (why, res.get('detail', '')[:300]), replay=rep, cex={'path': why}))

    try:
        f = prog.one(r'resolver::<impl at [^>]*>::resolve_multiple::\{closure#0\}::\{closure#0\}$')
        ps, _ = coroutine_paths(ctx, prog, f)
        if not ps:
            raise Refuse('no ready path')
    except Refuse as e:
        ps = None
        candidate('Resolver::resolve_multiple/each-entry-pairs-the-did-with-its-own-document',
                  'resolve_multiple has no per-DID future that pairs the DID with its document before completion (%s): pairing after '
                  'collection depends on the completion order' % str(e)[:120], R('[multi]'))

    def r_each(p):
        if p.kind != 'return':
            return 'panic reachable: ' + p.msg
        rs = awaited(p, r'Resolver::resolve$|::resolve$')
        if len(rs) != 1:
            return 'not exactly one resolution per DID'
        c, pl = rs[0]
        fp0 = field_path(strip(c.args[0]))
        fp1 = field_path(strip(c.args[1]))
        if not (fp0 and fp0[0] == 'co' and [i for _, i in fp0[1]] == [0] and fp1 and fp1[0] == 'co' and [i for _, i in fp1[1]] == [1]):
            return 'the DID is not resolved through this resolver\'s resolve with the DID of this entry'
        res = result_of(p)
        t = p.term(res)
        out = ready_val(pl)
        if p.took(out, 'Ok'):
            want = ('agg', 'tuple', None, (('field', ('leaf', 'co'), 1, ''), ('field', out, 0, 'Ok')))
            got = strip(t[3][0]) if isinstance(res, VAgg) and res.variant == 'Ok' else None
            if got is None or got[0] != 'agg' or tuple(strip(x) for x in got[3]) != want[3]:
                return 'the entry is not (this DID, the document resolve returned for it)'
            return None
        if p.took(out, 'Err'):
            ok = isinstance(res, VAgg) and res.variant == 'Err' and strip(t[3][0]) == ('field', out, 0, 'Err')
            return None if ok else 'a failed resolution is not passed on as it is'
        return 'resolution outcome not examined'
    if ps is not None:
        A.require('Resolver::resolve_multiple/each-entry-pairs-the-did-with-its-own-document', ps, r_each, replay=R('[multi]'))

    # --------------------------------------------------------------------------------------- resolve_multiple: the collection
    f = prog.one(r'resolver::<impl at [^>]*>::resolve_multiple::\{closure#0\}$')
    UNW = 3
    ex = Exec(prog, models=models.MODELLED, inline=lambda g, d: False, max_paths=20000, unwind=UNW)
    st = State()
    st.mem['co'] = VSym(('leaf', 'co'), 'coroutine')
    st.pc.append(ex.discr_var(('leaf', 'co')) == 0)
    outs = ex.run(f, [VAgg('Pin', None, [VRef('co')]), VSym(('leaf', 'cx'), '&mut Context')], st)
    for g in ex.encoded:
        ctx.functions.add(g)
    cut = sum(1 for o in outs if o.kind == 'bound')
    ctx.extra['resolve_multiple_paths'] = len(outs)
    ctx.extra['resolve_multiple_paths_cut_by_unwind_%d' % UNW] = cut
    ps = [Path(ex, o) for o in outs if o.kind == 'panic' or (o.kind == 'return' and isinstance(o.val, VAgg) and str(o.val.variant) == 'Ready')]
    ADAPT = r'Iterator>::(take|skip|filter|step_by|take_while|skip_while|rev|filter_map|map_while|dedup|chain|zip|peekable|fuse|last|nth)$'

    def r_multi(p):
        if p.kind != 'return':
            return 'panic reachable: ' + p.msg
        cs = calls_not_noise(p)
        if [c for c in cs if re.search(ADAPT, c.name)]:
            return 'the input DIDs pass through an adaptor that can drop or reorder some of them'
        col = [c for c in cs if re.search(r'Iterator>::collect$|FromIterator<.*>>::from_iter$', c.name)]
        if len(col) != 1:
            return 'the set of DIDs is not built by one collect'
        src = col[0].args[0]
        it = [s for s in subterms(src) if app_name(s) and re.search(r'::iter$|IntoIterator>::into_iter$', s[1])]
        if not it or field_path(strip(it[0][2][0])) is None or field_path(strip(it[0][2][0]))[0] != 'co' or [i for _, i in field_path(strip(it[0][2][0]))[1]] != [1]:
            return 'the set of DIDs is not built from the whole input slice'
        nx = [c for c in cs if re.search(r'Iterator>::next$', c.name)]
        if not nx or not all(is_sub(('x', tuple(c.args)), col[0].ret) for c in nx):
            return 'the loop does not run over the collected set'
        some = [c for c in nx if p.took(c.ret, 'Some')]
        push = [c for c in cs if re.search(r'FuturesUnordered.*::push$|::push$', c.name)]
        if len(push) != len(some):
            return 'not exactly one future per distinct DID'
        new = [c for c in cs if re.search(r'FuturesUnordered::new$|FuturesUnordered.*::new$', c.name)]
        if len(new) != 1:
            return 'not one FuturesUnordered'
        for c, n in zip(push, some):
            if strip(c.args[0]) != new[0].ret:
                return 'a future is pushed into another collection'
            fn = c.args[1]
            if not (isinstance(fn, tuple) and fn[0] == 'fn' and 'coroutine' in fn[1]):
                return 'what is pushed is not the per-DID future'
            caps = fn[2][3]
            if len(caps) != 2 or strip(caps[0]) != ('field', ('leaf', 'co'), 0, '') or strip(caps[1]) != ('field', n.ret, 0, 'Some'):
                return 'the per-DID future does not capture (this resolver, the DID of this iteration)'
        tc = awaited(p, r'TryStreamExt>::try_collect$')
        if len(tc) != 1 or strip(tc[0][0].args[0]) != new[0].ret:
            return 'the result is not collected from the futures that were pushed'
        if p.calls.index(tc[0][0]) < max([p.calls.index(c) for c in push] + [0]):
            return 'collection starts before every future is pushed'
        out = ready_val(tc[0][1])
        res = result_of(p)
        t = p.term(res)
        if p.took(out, 'Ok'):
            ok = isinstance(res, VAgg) and res.variant == 'Ok' and strip(t[3][0]) == ('field', out, 0, 'Ok')
            return None if ok else 'the map returned is not the collected one'
        if p.took(out, 'Err'):
            ok = isinstance(res, VAgg) and res.variant == 'Err' and is_sub(t, ('field', out, 0, 'Err'))
            return None if ok else 'a failed resolution is not reported'
        return 'collection outcome not examined'
    A.require('Resolver::resolve_multiple/one-future-per-distinct-did-all-collected', ps, r_multi, replay=R('[multi]'))


def main(ctx):
    prog, info = load(CRATES)
    ctx.extra['mir'] = info
    ctx.bounds.append('every ready-path of the async bodies of Resolver::resolve, the per-DID future of resolve_multiple and the handler future of '
                      'Command::new (every awaited future Ready on first poll, results unconstrained); resolve_multiple\'s loop unrolled 3 times '
                      '(<= 2 distinct DIDs; longer runs are cut and counted); generic MIR, so the result holds for every D / DOC / handler instantiation')
    ctx.outside += ['semantics of HashMap::get/insert (one command per method name, string equality) and of HashSet deduplication',
                    'FuturesUnordered / TryCollect: every pushed future is driven to completion whatever the completion order, and the collected map has one entry per pair - third-party code behind the callees; the native battery runs 24 completion orders but does not decide',
                    'attach_iota_handler / attach_multiple_iota_handlers (need a ledger client)',
                    'handlers that panic or never complete']
    ctx.stubs += ['every awaited future completes on its first poll (Poll::Ready); Pending paths of resolve_multiple are not followed']
    guarded(ctx, 'resolver dispatch audit', 'M', lambda: run(ctx, prog))
