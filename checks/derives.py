"""Shared obligation: the comparison / hashing traits of a set of types are the compiler-derived structural ones.

A derived impl shows up in the MIR as `<impl at FILE:L:C1: L:C2>::method` whose span is the trait's name inside a `#[derive(..)]`
attribute of /repo's source; a hand-written impl has the span of its `impl` item.  Requirements and native oracles that speak of
"equal" (consistency checks, round-trip equality, "equal exactly when networks and tags are equal") rest on these impls."""
import os
import re
from core import *

TOKENS = {'eq': 'PartialEq', 'ne': 'PartialEq', 'partial_cmp': 'PartialOrd', 'cmp': 'Ord', 'hash': 'Hash', 'serialize': 'Serialize'}


def derived_impls(ctx, prog, name, file_rx, need_files, replay, methods=('eq', 'ne')):
    from replay import run_replay
    found = []
    for g in prog.funcs:
        m = re.search(r'<impl at (%s):(\d+):(\d+): (\d+):(\d+)>::(%s)$' % (file_rx, '|'.join(methods)), g.name)
        if m:
            found.append((g.name, m.group(1), int(m.group(2)), int(m.group(3)), int(m.group(4)), int(m.group(5)), m.group(6)))
    have = {(os.path.basename(e[1]), e[6]) for e in found}
    missing = [(f_, m_) for f_ in need_files for m_ in methods if m_ != 'ne' and (f_, m_) not in have]
    if missing:
        # e.g. a hand-written impl placed in another file: not recognised, not a pass
        ctx.add(Ob(name, 'M', INCONCLUSIVE, detail='no impl found for %s' % missing[:4]))
        return
    hand = []
    for (fn_, path, l1, c1, l2, c2, meth) in found:
        try:
            line = open(os.path.join(REPO, path), encoding='utf-8').read().split('\n')[l1 - 1]
        except Exception:
            line = ''
        if re.search(r'\bimpl(\s*<[^>]*>)?\s+(\w+::)*\w+\s*<[^>]+>\s+for\b', line):
            continue   # comparison with another type (PartialEq<str>, ...): not the type's own equality
        if not (l1 == l2 and line[c1 - 1:c2 - 1] == TOKENS[meth] and 'derive' in line):
            hand.append('%s::%s (%s:%d)' % (fn_.split('::')[0], meth, path, l1))
    if not hand:
        ctx.add(Ob(name, 'M', HELD, queries=len(found), sample='%d impls (%s) in %s, all derived' % (len(found), '/'.join(sorted({e[6] for e in found})), file_rx)))
        return
    reps = replay if isinstance(replay, list) else [replay]
    res, used = None, reps[0]
    for rp in reps:
        res = run_replay(rp)
        if res.get('reproduced'):
            used = rp
            break
    ctx.add(Ob(name, 'M', VIOLATED if res.get('reproduced') else INCONCLUSIVE,
               detail='hand-written impl: %s; native: %s' % (', '.join(hand)[:240], res.get('detail', '')[:300]), replay=used))
