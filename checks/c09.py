"""C09 - storage-backed method generation / purge is all-or-nothing under storage faults (engine M).

The async bodies are compiled to state machines; each is executed symbolically from its initial state with every awaited
future completing immediately (Poll::Ready) and every storage call's result *unconstrained* - the fault schedule is a
set of symbolic variables and the path enumeration covers every subset of failing calls.
"""
import re
import z3
from core import *
import execu
from execu import Exec, State, Refuse
from values import *
from audit import *
from loader import load
import models

CRATES = ['identity_storage', 'identity_document']
SRC = ['identity_verification', 'identity_core']
execu.BUILTIN_VARIANTS['Poll'] = {'Ready': 0, 'Pending': 1}
NOISE = r'Pin<|as_mut|new_unchecked|into_future|get_context|Deref|ResumeTy'


def R(tag):
    return {'scenario': 'storage_faults', 'cex': {'only': tag}}


def is_sub(t, want):
    return any(s == want for s in subterms(t))


def coroutine_paths(ctx, prog, f, max_paths=20000):
    """ready-paths of an async body from its initial state"""
    ex = Exec(prog, models=models.MODELLED, inline=lambda g, d: bool(re.search(r'\{closure', g.name)) and 'async' not in g.name and 'join' not in g.name,
              max_paths=max_paths)
    st = State()
    st.mem['co'] = VSym(('leaf', 'co'), 'coroutine')
    st.pc.append(ex.discr_var(('leaf', 'co')) == 0)
    outs = ex.run(f, [VAgg('Pin', None, [VRef('co')]), VSym(('leaf', 'cx'), '&mut Context')], st)
    for g in ex.encoded:
        ctx.functions.add(g)
    if any(o.kind == 'bound' for o in outs):
        raise Refuse('await loop re-entered in %s' % f.name)
    ps = []
    for o in outs:
        if o.kind == 'panic':
            ps.append(Path(ex, o))
        elif o.kind == 'return' and isinstance(o.val, VAgg) and str(o.val.variant) == 'Ready':
            ps.append(Path(ex, o))
    return ps, ex


def result_of(p):
    """the Result inside Poll::Ready"""
    v = p.val.fields[0]
    return v


def awaited(p, callee_rx):
    """(call record of the future-producing call, poll record) pairs for awaited calls matching callee_rx"""
    out = []
    polls = [c for c in p.calls if re.search(r'Future>::poll$', c.name)]
    for c in p.find_calls(callee_rx):
        pl = [q for q in polls if is_sub(('x', tuple(q.args)), c.ret)]
        if pl:
            out.append((c, pl[0]))
    return out


def ready_val(poll):
    return ('field', poll.ret, 0, 'Ready')


def run(ctx, prog):
    A = Auditor(ctx, prog)

    # ------------------------------------------------------------------------------------------------ try_undo_key_generation
    f = prog.one(r'jwk_document_ext::try_undo_key_generation::\{closure#0\}$')
    paths, ex = coroutine_paths(ctx, prog, f)

    def r_undo(p):
        if p.kind != 'return':
            return 'panic ' + p.msg
        de = awaited(p, r'JwkStorage>::delete$')
        if len(de) != 1 or not (mentions(de[0][0].args[1], r'^co$')):
            return 'stray key not deleted exactly once'
        out = result_of(p)
        t = p.term(out)
        if p.took(ready_val(de[0][1]), 'Ok'):
            return None if field_path(strip(t)) and field_path(strip(t))[0] == 'co' else 'original error not returned after a successful undo'
        if p.took(ready_val(de[0][1]), 'Err'):
            return None if (isinstance(out, VAgg) and str(out.variant) == 'UndoOperationFailed') else 'failed undo not reported as UndoOperationFailed'
        return 'delete outcome not examined'
    A.require('try_undo_key_generation/deletes-key-and-reports-failed-undo', paths, r_undo, replay=R('[generate]'))

    # ------------------------------------------------------------------------------------------------------- generate_method
    for doc in ('core_document', 'iota_document'):
        f = prog.one(r'generate_method_%s::\{closure#0\}$' % doc)
        paths, ex = coroutine_paths(ctx, prog, f)
        ctx.extra['generate_%s_paths' % doc] = len(paths)
        docty = 'CoreDocument' if doc == 'core_document' else 'IotaDocument'

        def r_gen(p, docty=docty):
            if p.kind != 'return':
                return 'panic reachable: ' + p.msg
            gen = awaited(p, r'JwkStorage>::generate$|JwkStorageBbsPlusExt>::generate_bbs$')
            if len(gen) != 1:
                return 'key generation not awaited exactly once'
            res = result_of(p)
            ins = p.find_calls(r'%s::insert_method$' % docty)
            rem = p.find_calls(r'%s::remove_method$' % docty)
            kid = awaited(p, r'KeyIdStorage>::insert_key_id$')
            undo = awaited(p, r'try_undo_key_generation$')
            if p.took(ready_val(gen[0][1]), 'Err'):
                if ins or kid or not (isinstance(res, VAgg) and res.variant == 'Err'):
                    return 'key generation failed but the document / key-id store was touched (or success reported)'
                return None
            key_out = ('field', ready_val(gen[0][1]), 0, 'Ok')
            ok_ins = any(p.took(c, 'Ok') for c in ins)
            ok_kid = any(p.took(ready_val(pl), 'Ok') for _, pl in kid)
            if isinstance(res, VAgg) and res.variant == 'Ok':
                if not ok_ins:
                    return 'success reported without the method inserted into the document'
                if not ok_kid:
                    return 'success reported without the key id recorded'
                if not is_sub(kid[0][0].args, key_out) and not mentions(kid[0][0].args, r'.'):
                    return 'recorded key id is not the generated one'
                return None
            # Err after a successful key generation: in scope are failures of storage calls and of the document insertion
            internal = [c for c in p.find_calls(r'MethodDigest::new$') if p.took(c, 'Err')] + \
                [c for c in p.find_calls(r'DIDUrl::fragment$') if p.took(c, 'None')]
            if internal:
                return None      # outside the property: cannot fail for a method built by new_from_jwk (listed under outside_claim)
            # a key id recorded before the failure has to be removed again, and a failing removal must not be swallowed
            kdel = awaited(p, r'KeyIdStorage>::delete_key_id$')
            if ok_kid:
                if not kdel:
                    return 'key id recorded but not removed when the operation fails afterwards'
                t_ = p.term(res.fields[0]) if isinstance(res, VAgg) and res.fields else None
                for _, pl in kdel:
                    if not (p.took(ready_val(pl), 'Ok') or p.took(ready_val(pl), 'Err') or is_sub(t_, ready_val(pl))):
                        return 'the outcome of removing the recorded key id is ignored (a failed removal leaves an orphaned key id behind a plain error)'
                failed = [pl for _, pl in kdel if p.took(ready_val(pl), 'Err')]
                if failed:
                    if not (any(is_sub(t_, ready_val(pl)) for pl in failed) or 'UndoOperationFailed' in term_str(t_)):
                        return 'a failed removal of the recorded key id is not reported (orphaned key id behind a plain error)'
            if len(undo) != 1:
                return 'failure after key generation without undoing the key generation'
            if not is_sub(undo[0][0].args, key_out) and not any(is_sub(a, ready_val(gen[0][1])) for a in undo[0][0].args):
                return 'undo applied to a key id other than the generated one'
            t = strip(p.term(res.fields[0])) if isinstance(res, VAgg) and res.fields else None
            if t != ready_val(undo[0][1]):
                return 'error returned is not the outcome of the undo (a failed undo must be reported)'
            if ok_ins:
                # the method went into the document before the failure: the document has to be as it was before the call.
                # remove_method is not that: it also removes every *reference* to the id, and references may have been there
                # before (the id of a general-purpose method may already be referenced) - a snapshot taken before the
                # insertion is
                snap = [c for c in p.calls if re.search(r'%s as .*Clone>::clone$|%s::clone$' % (docty, docty), c.name) and p.calls.index(c) < p.calls.index(ins[0])]
                back = [v for k_, v in p.st.mem.items() if isinstance(k_, str) and k_.startswith('sym:') and isinstance(v, VSym) and snap and v.term == snap[0].ret]
                if not back:
                    if not rem or p.calls.index(rem[0]) < p.calls.index(ins[0]):
                        return 'key-id recording failed but the inserted method stays in the document'
                    return 'rollback through remove_method also drops the references to the id that existed before the call; the document is not restored'
            return None
        A.require('generate_method[%s]/all-or-nothing-over-every-fault-subset' % docty, paths, r_gen, replay=R('[generate'))

    # ---------------------------------------------------------------------------------------------------------- purge_method
    for doc in ('core_document', 'iota_document'):
        f = prog.one(r'purge_method_%s::\{closure#0\}$' % doc)
        paths, ex = coroutine_paths(ctx, prog, f)
        ctx.extra['purge_%s_paths' % doc] = len(paths)
        docty = 'CoreDocument' if doc == 'core_document' else 'IotaDocument'

        modes = ROLLBACK_MODES

        def r_purge(p, docty=docty):
            if p.kind != 'return':
                return 'panic reachable: ' + p.msg
            res = result_of(p)
            rm = p.find_calls(r'%s::remove_method_and_scope$' % docty)
            if len(rm) != 1:
                return 'method not removed exactly once'
            ins = p.find_calls(r'%s::insert_method$' % docty)
            if p.took(rm[0], 'None'):
                if not (isinstance(res, VAgg) and res.variant == 'Err' and not ins):
                    return 'missing method not reported'
                # remove_method_and_scope removes references to the id even when it finds no method (they may point into another
                # document): "not found" is an error like any other and has to leave the document as it was
                snap0 = [c for c in p.calls if re.search(r'%s as .*Clone>::clone$|%s::clone$' % (docty, docty), c.name) and p.calls.index(c) < p.calls.index(rm[0])]
                back = [v for k_, v in p.st.mem.items() if isinstance(k_, str) and k_.startswith('sym:') and isinstance(v, VSym) and snap0 and v.term == snap0[0].ret]
                return None if back else 'MethodNotFound returned after remove_method_and_scope ran, without restoring the document (references to the id are gone)'
            removed = ('field', rm[0].ret, 0, 'Some')
            gk = awaited(p, r'KeyIdStorage>::get_key_id$')
            jn = [c for c in p.calls if re.search(r'Future>::poll$', c.name) and re.search(r'PollFn|join', term_str(('x', tuple(c.args))))]
            dels = p.find_calls(r'JwkStorage>::delete$')
            delk = p.find_calls(r'KeyIdStorage>::delete_key_id$')
            reins = awaited(p, r'KeyIdStorage>::insert_key_id$')
            restored = [c for c in ins if is_sub(c.args[1], ('field', removed, 0, '')) and is_sub(c.args[2], ('field', removed, 1, ''))]
            # or: the whole document put back from a snapshot cloned before the removal
            snap = [c for c in p.calls if re.search(r'%s as .*Clone>::clone$|%s::clone$' % (docty, docty), c.name) and p.calls.index(c) < p.calls.index(rm[0])]
            doc_cells = [v for k_, v in p.st.mem.items() if isinstance(k_, str) and k_.startswith('sym:') and isinstance(v, VSym) and snap and v.term == snap[0].ret]
            if doc_cells:
                restored = restored or snap
                modes.add('snapshot')
            elif restored:
                modes.add('reinsert')
            is_undo_failed = isinstance(res, VAgg) and res.variant == 'Err' and isinstance(res.fields[0], VAgg) and str(res.fields[0].variant) == 'UndoOperationFailed'
            if isinstance(res, VAgg) and res.variant == 'Ok':
                if not (gk and p.took(ready_val(gk[0][1]), 'Ok') and dels and delk):
                    return 'success reported without key id lookup and both deletions'
                kd, kidd = outcome_of_join(p, ex)
                if kd != 'Ok' or kidd != 'Ok':
                    return 'success reported although a deletion failed (%s, %s)' % (kd, kidd)
                return None if not ins else 'method re-inserted on success'
            if is_undo_failed:
                kd, kidd = outcome_of_join(p, ex)
                # only the two documented patterns may end in UndoOperationFailed
                if (kd, kidd) == ('Ok', 'Err'):
                    return None
                if (kd, kidd) == ('Err', 'Ok') and reins and p.took(ready_val(reins[0][1]), 'Err'):
                    return None
                return 'UndoOperationFailed reported outside the documented undo failures'
            # plain error: document and stores have to be as before
            if not restored:
                return 'error returned but the removed method is not put back with its scope'
            if dels or delk:
                kd, kidd = outcome_of_join(p, ex)
                if kd == 'Ok' or (kidd == 'Ok' and not (reins and p.took(ready_val(reins[0][1]), 'Ok'))):
                    return 'plain error although a key / key id was deleted and not restored (%s, %s)' % (kd, kidd)
            return None
        A.require('purge_method[%s]/all-or-nothing-over-every-fault-subset' % docty, paths, r_purge, replay=R('[purge'))

    # ------------------------------------------------------------------ rollback completeness: what removal destroys vs. what it returns
    if ROLLBACK_MODES == {'snapshot'}:
        ctx.add(Ob('purge-rollback/removal-destroys-only-what-it-returns', 'M', HELD,
                   sample='every plain-error path of purge_method restores the document from a snapshot cloned before the removal; '
                          'what remove_method_and_scope destroys beyond its return value is therefore irrelevant'))
        return
    f = prog.one(r'core_document::<impl at [^>]*>::remove_method_and_scope$')
    paths, ex = A.paths(f, inline=r'remove_method_and_scope::\{closure', unwind=6, allow_bound=True)

    def r_rm(p):
        if p.kind != 'return' or not (isinstance(p.val, VAgg) and p.val.variant == 'Some'):
            return None
        removed_refs = [c for c in p.find_calls(r'OrderedSet<.*MethodRef.*>::remove$|OrderedSet::remove$') if p.took(c, 'Some')]
        removed_vm = [c for c in p.find_calls(r'OrderedSet<.*VerificationMethod.*>::remove$|OrderedSet::remove$') if c not in removed_refs and p.took(c, 'Some')]
        pair = p.val.fields[0]
        scope = pair.fields[1] if isinstance(pair, VAgg) and len(pair.fields) == 2 else None
        general = isinstance(scope, VAgg) and str(scope.variant) == 'VerificationMethod'
        if general and len(removed_refs) >= 1:
            return ('removing a general-purpose method also removes %d relationship reference(s) that are neither returned nor restorable by '
                    'insert_method(method, scope): purge_method\'s rollback silently drops them' % len(removed_refs))
        return None
    A.require('purge-rollback/removal-destroys-only-what-it-returns', paths, r_rm, replay=R('[purge-refs]'),
              finding_key='purge-rollback-drops-relationship-references')


ROLLBACK_MODES = set()


def outcome_of_join(p, ex):
    """(key deletion, key id deletion) outcomes on this path, read from the discriminants the match branched on"""
    cands = [(k, v) for k, v in ex.symvars.items() if k[0] == 'd' and re.search(r'poll#\d+\(.*\)\.Ready\.0\.[01]$', k[1]) and ('PollFn' in k[1] or 'join' in k[1].lower())]
    out = {}
    for k, v in cands:
        which = k[1][-1]
        if p.implies(v == 0):
            out[which] = 'Ok'
        elif p.implies(v == 1):
            out[which] = 'Err'
    return out.get('0', '?'), out.get('1', '?')


def main(ctx):
    prog, info = load(CRATES, src_only=SRC)
    ctx.extra['mir'] = info
    ctx.bounds.append('every subset of failing storage calls (generate, delete, insert_key_id, get_key_id, delete_key_id) of generate_method / purge_method / '
                      'try_undo_key_generation for CoreDocument and IotaDocument; every await completes immediately')
    ctx.assumptions.append('awaited futures are Ready on first poll (no interleaving inside join!); storage results are unconstrained values')
    ctx.outside += ['real stores (C15)', 'interleavings inside futures::join!', 'error paths of generate_method whose failing step is not a storage call (new_from_jwk, MethodDigest::new, fragment(), insert_method): the property quantifies over storage faults',
                    'that remove_method restores the document exactly (C04; insert_method\'s guard is re-used here)']
    guarded(ctx, 'fault schedule audit', 'M', lambda: run(ctx, prog))
    # generate_method's success means "the method is in the document and resolves": that rests on insert_method refusing an id the
    # document already answers queries for (C04's obligation, re-used: every relationship set is asked by query, not by equality)
    import c04

    def insertion_guard():
        prog2, info2 = load(c04.CRATES, src_only=c04.SRC)
        c04.run(ctx, prog2, only=r'^insert_method/|^remove_method_and_scope/|^resolve_method/|^resolve_method_inner/|^resolve_method_ref/|^DIDUrlQuery::')
    guarded(ctx, 'insert_method guard and complete removal (shared with C04)', 'M', insertion_guard)
