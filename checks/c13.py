"""C13 - Timestamps are total, canonical whole-second UTC instants in years 0000-9999.

K: range gate / unix round trip / order / checked arithmetic in windows round both range ends and 0.
M: every constructor (parse, checked_add, checked_sub, serde/FromStr/TryFrom) routes its value through the range gate
   `from_unix`, and no constructor calls a panicking offset conversion.
"""
import re
import z3
from core import *
from execu import Refuse
from values import *
from audit import *
from loader import load

CRATES = ['identity_core']


def R(tag):
    return {'scenario': 'timestamp', 'cex': {'only': tag}}


def run(ctx, prog):
    A = Auditor(ctx, prog)
    f = prog.one(r'timestamp::<impl at [^>]*>::parse$')
    paths, ex = A.paths(f)
    okp = [p for p in paths if p.kind == 'return' and not (isinstance(p.val, VAgg) and p.val.variant == 'Err')]

    def r_parse(p):
        ps = [c for c in p.find_calls(r'OffsetDateTime::parse$') if p.took(c, 'Ok')]
        if not ps or not mentions(ps[0].args[0], r'^input$'):
            return 'input not parsed as RFC 3339'
        parsed = ('field', ps[0].ret, 0, 'Ok')
        bad = [c for c in p.calls if re.search(r'OffsetDateTime::to_offset$', c.name)]
        if bad:
            return 'parsed value converted with the panicking OffsetDateTime::to_offset (out-of-range offsets abort)'
        ux = [c for c in p.find_calls(r'unix_timestamp$') if is_sub(c.args[0], parsed)]
        gate = [c for c in p.find_calls(r'Timestamp::from_unix$')]
        if not ux or not gate:
            return 'accepted value does not pass through the 0000..9999 range gate (from_unix) applied to the parsed instant'
        want = ex.sym_int(ux[0].ret, 64, True).e
        g = [c for c in gate if isinstance(c.argvals[0], VInt) and z3.eq(z3.simplify(c.argvals[0].e), z3.simplify(want))]
        if not g:
            return 'range gate applied to something other than the parsed instant'
        t = strip(p.term())
        if t == g[0].ret or (p.is_ok() and p.took(g[0], 'Ok') and strip(p.term(p.payload())) == ('field', g[0].ret, 0, 'Ok')):
            return None
        return 'returned value is not the gated one'
    A.require('parse/accepted-value-passes-the-range-gate-without-panicking-conversion', okp, r_parse, replay=R('[parse'))

    for nm in ('checked_add', 'checked_sub'):
        f = prog.one(r'timestamp::<impl at [^>]*>::%s$' % nm)
        paths, ex = A.paths(f, inline=r'timestamp::<impl at [^>]*>::%s::\{closure' % nm)

        def r_arith(p, nm=nm):
            if p.kind != 'return':
                return 'panic ' + p.msg
            if not (isinstance(p.val, VAgg) and p.val.variant == 'Some'):
                # nothing is returned exactly when the sum leaves the range: the date arithmetic itself gave up, or the gate refused
                # its result - no other way to None (an early return on "long" durations, a stricter pre-check)
                if isinstance(p.val, VAgg) and p.val.variant == 'None':
                    gave_up = [c for c in p.find_calls(r'OffsetDateTime::%s$' % nm) if p.took(c, 'None')]
                    refused = [c for c in p.find_calls(r'Timestamp::from_unix$') if p.took(c, 'Err')]
                    if not gave_up and not refused:
                        return 'None returned although neither the date arithmetic nor the range gate refused'
                    return None
                # opaque result (and_then / map of the callee's Option): it has to be built from the arithmetic's own result
                t = p.term()
                if not apps(t, r'OffsetDateTime::%s$' % nm):
                    return 'result does not derive from self.0.%s(duration.0)' % nm
                # ... and has to go through the seconds-truncating range gate (from_unix of the sum's unix seconds): a sum wrapped as it
                # is keeps a sub-second part (a deserialised Duration can carry one) and is not a canonical whole-second instant
                if not (apps(t, r'Timestamp::from_unix$') or p.find_calls(r'Timestamp::from_unix$')):
                    return 'the sum is wrapped without passing through the seconds-truncating range gate'
                return None
            ca = [c for c in p.find_calls(r'OffsetDateTime::%s$' % nm) if p.took(c, 'Some')]
            if not ca or not (mentions(ca[0].args[0], r'^self$') and mentions(ca[0].args[1], r'^duration$')):
                return '%s not computed as self.0.%s(duration.0)' % (nm, nm)
            gate = [c for c in p.find_calls(r'Timestamp::from_unix$') if p.took(c, 'Ok')]
            ux = [c for c in p.find_calls(r'unix_timestamp$') if is_sub(c.args[0], ('field', ca[0].ret, 0, 'Some'))]
            if not gate or not ux:
                return 'result not passed through the range gate'
            return None if strip(p.term(p.val.fields[0])) == ('field', gate[0].ret, 0, 'Ok') else 'result is not the gated value'
        A.require('%s/result-passes-the-range-gate' % nm, paths, r_arith, replay=R('[arith]'))

    # Duration constructors: the number of seconds is count * unit as a mathematical integer (u32 counts never saturate or
    # wrap on the way).  Constructors that call each other are inlined; the final time::Duration constructor and its
    # argument are read off the path and the identity is decided over all 2^32 counts.
    UNIT = {'seconds': 1, 'minutes': 60, 'hours': 3600, 'days': 86400, 'weeks': 604800}
    for nm, k in UNIT.items():
        f = prog.one(r'timestamp::<impl at [^>]*>::%s$' % nm, sig=r'^u32')
        paths, ex = A.paths(f, inline=r'timestamp::<impl at [^>]*>::(seconds|minutes|hours|days|weeks)$')

        def r_dur(p, nm=nm, k=k):
            if p.kind != 'return':
                return 'panic ' + p.msg
            t = strip(p.term())
            while isinstance(t, tuple) and t and t[0] == 'agg' and len(t[3]) == 1:
                t = strip(t[3][0])
            if not (isinstance(t, tuple) and t[0] == 'app' and re.search(r'(^|::)(Signed)?Duration::(seconds|minutes|hours|days|weeks)$', t[1]) and len(t[2]) == 1):
                return 'not built by a time::Duration unit constructor: %s' % term_str(t)[:120]
            cs = [c for c in p.find_calls(r'(^|::)(Signed)?Duration::(seconds|minutes|hours|days|weeks)$')]
            arg = cs[-1].argvals[0] if cs else None
            if not isinstance(arg, VInt):
                return 'constructor argument is not an integer expression of the count'
            unit = UNIT[t[1].rsplit('::', 1)[1]]
            pn = [n_ for n_, l_ in f.debug.items() if l_ == 1]
            if not pn:
                return 'count parameter has no debug name'
            x = ex.sym_int(('leaf', pn[0]), 32)
            a = z3.SignExt(64, arg.e) if arg.signed else z3.ZeroExt(128 - arg.bits, arg.e)
            want = z3.ZeroExt(96, x.e) * z3.BitVecVal(k, 128)
            return None if p.implies(a * z3.BitVecVal(unit, 128) == want) else \
                '%s(n) is not n * %d seconds for every n (argument %s of %s)' % (nm, k, term_str(p.term(arg))[:80], t[1].rsplit('::', 1)[1])
        A.require('Duration::%s/count-times-unit-without-saturation' % nm, paths, r_dur, replay=R('[duration]'))

    for nm, rx, sig in (('FromStr', r'timestamp::<impl at [^>]*>::from_str$', None),
                        ('TryFrom<&str>', r'timestamp::<impl at [^>]*>::try_from$', r'^&(\'_ )?str'),
                        ('TryFrom<String>', r'timestamp::<impl at [^>]*>::try_from$', r'^(\w+::)*String'),
                        ('serde', r'timestamp::<impl at [^>]*>::try_from$', r'ProvisionalTimestamp')):
        cands = prog.find(rx, sig=sig) if hasattr(prog, 'find') else []
        if nm == 'serde' and not cands:
            # the validating conversion serde is routed through (`try_from = "ProvisionalTimestamp"`) is gone: a candidate, to be
            # confirmed natively (JSON must yield exactly what parse yields)
            from replay import run_replay
            rep = R('[parse-serde]')
            res = run_replay(rep)
            ctx.add(Ob('serde/delegates-to-parse', 'M', VIOLATED if res.get('reproduced') else INCONCLUSIVE,
                       detail='no conversion from the provisional serde form through Timestamp::parse in the MIR; native: %s' % res.get('detail', '')[:200], replay=rep))
            continue
        f = prog.one(rx, sig=sig)
        paths, ex = A.paths(f)
        A.require('%s/delegates-to-parse' % nm, [p for p in paths if p.kind == 'return'],
                  lambda p: None if (apps(p.term(), r'Timestamp::parse$') and strip(p.term())[0] == 'app') else 'constructor bypasses Timestamp::parse',
                  replay=R('[parse'))


def is_sub(t, want):
    return any(s == want for s in subterms(t))


def kani_part(ctx):
    import kanirun
    fn = ['Timestamp::from_unix', 'Timestamp::to_unix', 'Timestamp::cmp', 'Timestamp::checked_add', 'Timestamp::checked_sub']
    q = ['c13_gate_low', 'c13_gate_high', 'c13_twin_must_fail']
    t = ['c13_gate_zero', 'c13_order_low', 'c13_order_high', 'c13_add_high', 'c13_sub_low', 'c13_add_zero']
    names = q + (t if ctx.tier == 'thorough' else [])
    # (c13_add_zero: the window around 0 cannot leave the range, so its "result leaves the range" witness is unsatisfiable by design)
    specs = [dict(harness=h, timeout_s=1800, functions=fn, must_fail=h.endswith('must_fail'), allow_unsat_cover=(h == 'c13_add_zero'),
                  bounds='unix seconds within +-100000 of the range end / of 0 (arithmetic: +-60 s, durations <= 120 s)') for h in names]
    res = kanirun.run_many(specs)
    kanirun.judge(ctx, specs, res, 'c13')


def text_forms(ctx, prog):
    """Every text form of a Timestamp is `to_rfc3339()` - Display, String::from, the derived Serialize (serde `into = "String"`): one
    formatter, so format-then-parse and the JSON round trip are the same identity (a second, hand-written formatter disagrees with it
    somewhere - years below 1000, say)."""
    A = Auditor(ctx, prog)
    RT = R('[parse-text]')

    def only_rfc(p, leaf):
        if p.kind != 'return':
            return 'panic ' + p.msg
        tr = [c for c in p.calls if re.search(r'Timestamp::to_rfc3339$', c.name) and mentions(c.args[0], leaf)]
        if len(tr) != 1:
            return 'text not produced by to_rfc3339 of this value'
        other = [c for c in p.calls if re.search(r'to_calendar_date|to_hms|::year$|::month$|::day$|::hour$|::minute$|::second$|format_into|::format$', c.name)]
        if other:
            return 'a second formatter next to to_rfc3339 (%s)' % other[0].name.split('::')[-1]
        return None

    def r_disp(p):
        e = only_rfc(p, r'^self$')
        if e:
            return e
        tr = [c for c in p.calls if re.search(r'Timestamp::to_rfc3339$', c.name)][0]
        return None if any(s_ == tr.ret for s_ in subterms(p.term())) else 'what is written is not the to_rfc3339 text'
    fmts = [g for g in prog.find(r'timestamp::<impl at [^>]*>::fmt$') if 'Timestamp' in ' '.join(t for _, t in g.args)]
    if not fmts:
        raise Refuse('no fmt impl of Timestamp found')
    for g in fmts:   # Display and Debug
        m = re.search(r'timestamp\.rs:(\d+):', g.name)
        paths, ex = A.paths(g)
        A.require('fmt[line %s]/writes-to_rfc3339' % (m.group(1) if m else '?'), paths, r_disp, replay=RT)

    f = prog.one(r'timestamp::<impl at [^>]*>::from$', sig=r'^(\w+::)*Timestamp -> (\w+::)*String')
    paths, ex = A.paths(f)
    A.require('String::from/is-to_rfc3339', paths,
              lambda p: only_rfc(p, r'^timestamp$') or (None if strip(p.term()) == strip([c for c in p.calls if re.search(r'to_rfc3339$', c.name)][0].ret) else 'result is not the to_rfc3339 text'), replay=RT)

    fs = [g for g in prog.find(r'timestamp::_::<impl at [^>]*>::serialize$') if 'Timestamp' in ' '.join(t for _, t in g.args)]
    if len(fs) != 1:
        ctx.add(Ob('Serialize/through-String::from', 'M', INCONCLUSIVE, detail='derived Serialize of Timestamp: %d candidates (a hand-written impl is not recognised)' % len(fs)))
        return
    paths, ex = A.paths(fs[0])

    def r_ser(p):
        if p.kind != 'return':
            return 'panic ' + p.msg
        conv = [c for c in p.calls if re.search(r'<(\w+::)*Timestamp as (\w+::)*Into<(\w+::)*String>>::into$|From<(\w+::)*Timestamp>>::from$', c.name)]
        ser = [c for c in p.calls if re.search(r'<(\w+::)*String as (\w+::)*Serialize>::serialize$', c.name)]
        if len(conv) != 1 or len(ser) != 1 or not any(s_ == conv[0].ret for s_ in subterms(ser[0].args[0])):
            return 'the value is not serialised as the String it converts into'
        return None
    A.require('Serialize/through-String::from', paths, r_ser, replay=RT)


def main(ctx):
    prog, info = load(CRATES)
    ctx.extra['mir'] = info
    ctx.outside += ['the RFC 3339 text parser and formatter of the `time` crate (CBMC: 45-minute cap / out of memory on the parse and format shapes)',
                    'mid-range dates away from the windows', 'serde leg beyond its delegation to parse']
    ctx.stubs.append('none (error values are matched and forgotten, never dropped)')
    guarded(ctx, 'constructor routing audit', 'M', lambda: run(ctx, prog))
    guarded(ctx, 'text forms', 'M', lambda: text_forms(ctx, prog))
    if os.environ.get('VERIF_SKIP_K') != '1':
        guarded(ctx, 'range gate windows', 'K', lambda: kani_part(ctx))
