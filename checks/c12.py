"""C12 - StatusList2021 is an independent-bit vector with one-way revocation (engine M part)."""
import z3
from core import *
from execu import Exec, State, Refuse
from values import *
import models
import vc
from loader import load

CRATES = ['identity_credential']
MAXBYTES = 2 ** 60


def fresh_list(st, tag=''):
    arr = z3.Array('store' + tag, z3.BitVecSort(64), z3.BitVecSort(8))
    ln = z3.BitVec('nbytes' + tag, 64)
    st.mem['heap' + tag] = VBytes(arr, z3.BitVecVal(0, 64), ln)
    st.mem['sl' + tag] = VAgg('StatusList2021', None, [VRef('heap' + tag)])
    st.pc.append(z3.ULE(ln, MAXBYTES))
    return arr, ln


def is_variant(v, name):
    return isinstance(v, VAgg) and v.variant == name


def run(ctx, prog, info):
    ex = Exec(prog, models=models.MODELLED)
    f_set = prog.one(r'status_list::<impl at [^>]*>::set$')
    f_get = prog.one(r'status_list::<impl at [^>]*>::get$')
    f_len = prog.one(r'status_list::<impl at [^>]*>::len$')
    ctx.bounds.append('list of any length <= 2^60 bytes (len()*8 must not overflow usize); all usize indices; both values')
    ctx.assumptions.append('Box<[u8]> modelled as SMT array (BV64 -> BV8) plus length')

    idx, val, k = z3.BitVec('idx', 64), z3.Bool('val'), z3.BitVec('k', 64)
    vars_ = {'idx': idx, 'val': val, 'k': k}

    # ---- set: panic freedom, Ok <=> in range, Err leaves the list unchanged --------------------------------------
    st = State()
    arr, ln = fresh_list(st)
    vars_.update({'nbytes': ln})
    set_outs = ex.run(f_set, [VRef('sl'), VInt(idx, 64), VBool(val)], st)
    funcs = sorted(ex.encoded)

    def ob(name, goals, detail_fn=None, finding_key=None, region=None, replay=None):
        v = vc.check_formulas(goals)
        if v.status == 'unsat':
            ctx.add(Ob(name, 'M', HELD, solver_s=v.secs, queries=v.queries, functions=funcs,
                       sample='%s: %d path goals unsat' % (name, len(goals))))
            return
        if v.status == 'unknown':
            ctx.add(Ob(name, 'M', INCONCLUSIVE, detail=v.note, solver_s=v.secs, queries=v.queries, functions=funcs))
            return
        label, model = v.model
        cex = vc.model_vals(model, vars_)
        if 'store' not in cex:
            b = cex.get('idx', 0) // 8
            try:
                cex['byte_at_idx'] = model.eval(z3.Select(arr, z3.BitVecVal(b, 64)), model_completion=True).as_long()
            except Exception:
                pass
        f = ctx.known(finding_key) if finding_key else None
        if f is not None and region is not None:
            goals2 = [(l, c + [z3.Not(region)]) for l, c in goals]
            v2 = vc.check_formulas(goals2)
            if v2.status == 'unsat':
                ctx.add(Ob(name, 'M', KNOWN, detail='%s cex=%s' % (label, cex), cex=cex, solver_s=v.secs + v2.secs,
                           queries=v.queries + v2.queries, functions=funcs, finding=f))
                return
            if v2.status == 'sat':
                label, model = v2.model
                cex = vc.model_vals(model, vars_)
        confirm(ctx, name, label, cex, v, funcs, replay)

    panics = [o for o in set_outs if o.kind == 'panic']
    rets = [o for o in set_outs if o.kind == 'return']
    others = [o for o in set_outs if o.kind not in ('panic', 'return')]
    if others or not rets:
        raise Refuse('unexpected outcomes of set: %r' % (others,))
    ob('set/no-panic', [('panic:' + o.msg, o.st.pc) for o in panics] or [('none', [z3.BoolVal(False)])],
       replay={'scenario': 'statuslist_set'})
    inrange = z3.ULT(idx, ln * 8)
    goals = []
    for o in rets:
        if is_variant(o.val, 'Ok'):
            goals.append(('Ok although out of range', o.st.pc + [z3.Not(inrange)]))
        elif is_variant(o.val, 'Err'):
            goals.append(('Err although in range', o.st.pc + [inrange]))
            post = o.st.mem['heap']
            goals.append(('Err changed the list', o.st.pc + [z3.Select(post.arr, k) != z3.Select(arr, k)]))
        else:
            raise Refuse('set returned %r' % (o.val,))
    ob('set/ok-iff-in-range', goals, replay={'scenario': 'statuslist_set'})

    # ---- get: panic freedom, Err <=> out of range ------------------------------------------------------------
    st2 = State()
    arr2, ln2 = fresh_list(st2)
    get_outs = ex.run(f_get, [VRef('sl'), VInt(k, 64)], st2)
    funcs = sorted(ex.encoded)
    gp = [o for o in get_outs if o.kind == 'panic']
    gr = [o for o in get_outs if o.kind == 'return']
    ob('get/no-panic', [('panic:' + o.msg, o.st.pc) for o in gp] or [('none', [z3.BoolVal(False)])],
       finding_key='get-out-of-range-panics', region=z3.UGE(k, ln2 * 8), replay={'scenario': 'statuslist_get'})
    goals = []
    for o in gr:
        if is_variant(o.val, 'Ok'):
            goals.append(('Ok although out of range', o.st.pc + [z3.UGE(k, ln2 * 8)]))
        elif is_variant(o.val, 'Err'):
            goals.append(('Err although in range', o.st.pc + [z3.ULT(k, ln2 * 8)]))
    ob('get/err-iff-out-of-range', goals, replay={'scenario': 'statuslist_get'})

    # ---- set then get: last-written value at idx, every other entry unchanged (convention-free) ---------------------
    goals = []
    npaths = 0
    for so in rets:
        if not is_variant(so.val, 'Ok'):
            continue
        # pre-state read of k
        for pre in ex.run(f_get, [VRef('sl'), VInt(k, 64)], preserve(st, so.st)):
            if pre.kind != 'return' or not is_variant(pre.val, 'Ok'):
                continue
            # post-state read of k (heap taken from the set path)
            s3 = pre.st.fork()
            s3.mem['heap'] = so.st.mem['heap']
            for post in ex.run(f_get, [VRef('sl'), VInt(k, 64)], s3):
                if post.kind == 'panic':
                    continue   # covered by get/no-panic
                if post.kind != 'return':
                    raise Refuse('get outcome %s' % post.kind)
                npaths += 1
                if not is_variant(post.val, 'Ok'):
                    goals.append(('entry readable before set is not readable after', post.st.pc))
                    continue
                pv, qv = pre.val.fields[0], post.val.fields[0]
                expect = z3.If(k == idx, val, pv.e)
                goals.append(('read after write differs from model', post.st.pc + [qv.e != expect]))
    if not goals:
        raise Refuse('no set;get path combination')
    region = z3.And(z3.Not(val), z3.URem(idx, 8) != 0)
    ob('set-then-get/last-write-wins-and-others-untouched', goals, finding_key='clear-clobbers-neighbours', region=region,
       replay={'scenario': 'statuslist_set_get'})
    ctx.extra['paths_set_get'] = npaths
    ctx.extra['feasibility_queries'] = ex.queries

    # ---- len = 8 * bytes -----------------------------------------------------------------------------------------
    st4 = State()
    arr4, ln4 = fresh_list(st4)
    louts = ex.run(f_len, [VRef('sl')], st4)
    goals = []
    for o in louts:
        if o.kind == 'panic':
            goals.append(('len panics', o.st.pc))
        elif o.kind == 'return':
            goals.append(('len != 8*bytes', o.st.pc + [o.val.e != ln4 * 8]))
    ob('len/eight-per-byte', goals)
    ctx.extra['modelled_core_functions'] = models.names()


def preserve(base, after):
    """state with the pre-set heap but the path condition of `after` (the set path taken)"""
    s = after.fork()
    s.mem['heap'] = base.mem['heap']
    return s


def confirm(ctx, name, label, cex, v, funcs, replay):
    """a solver counterexample is only a candidate: replay it natively before VIOLATION"""
    from replay import run_replay
    if replay is None:
        ctx.add(Ob(name, 'M', INCONCLUSIVE, detail='counterexample without replay scenario: %s %s' % (label, cex),
                   cex=cex, solver_s=v.secs, queries=v.queries, functions=funcs))
        return
    rep = dict(replay, cex=cex)
    res = run_replay(rep)
    if res.get('reproduced'):
        ctx.add(Ob(name, 'M', VIOLATED, detail='%s; cex=%s; native: %s' % (label, cex, res.get('detail', '')), cex=cex,
                   solver_s=v.secs, queries=v.queries, functions=funcs, replay=rep))
    else:
        ctx.add(Ob(name, 'M', INCONCLUSIVE, detail='solver counterexample did not reproduce natively (%s): %s %s' %
                   (res.get('detail', ''), label, cex), cex=cex, solver_s=v.secs, queries=v.queries, functions=funcs))


def main(ctx):
    prog, info = load(CRATES)
    ctx.extra['mir'] = info
    guarded(ctx, 'status-list kernels', 'M', lambda: run(ctx, prog, info))
