"""C12 - StatusList2021 is an independent-bit vector with one-way revocation (engine M part)."""
import re
import z3
from core import *
from execu import Exec, State, Refuse, VOver
from values import *
import models
import vc
from loader import load

CRATES = ['identity_credential']
MAXBYTES = 2 ** 60


def fresh_list(st, tag=''):
    arr = z3.Array('store' + tag, z3.BitVecSort(64), z3.BitVecSort(8))
    ln = z3.BitVec('nbytes' + tag, 64)
    st.mem['heap' + tag] = VBytes(arr, z3.BitVecVal(0, 64), ln)
    st.mem['sl' + tag] = VAgg('StatusList2021', None, [VRef('heap' + tag)])
    st.pc.append(z3.ULE(ln, MAXBYTES))
    return arr, ln


def is_variant(v, name):
    return isinstance(v, VAgg) and v.variant == name


def run(ctx, prog, info):
    ex = Exec(prog, models=models.MODELLED)
    f_set = prog.one(r'status_list::<impl at [^>]*>::set$')
    f_get = prog.one(r'status_list::<impl at [^>]*>::get$')
    f_len = prog.one(r'status_list::<impl at [^>]*>::len$')
    ctx.bounds.append('list of any length <= 2^60 bytes (len()*8 must not overflow usize); all usize indices; both values')
    ctx.assumptions.append('Box<[u8]> modelled as SMT array (BV64 -> BV8) plus length')

    idx, val, k = z3.BitVec('idx', 64), z3.Bool('val'), z3.BitVec('k', 64)
    vars_ = {'idx': idx, 'val': val, 'k': k}

    # ---- set: panic freedom, Ok <=> in range, Err leaves the list unchanged --------------------------------------
    st = State()
    arr, ln = fresh_list(st)
    vars_.update({'nbytes': ln})
    set_outs = ex.run(f_set, [VRef('sl'), VInt(idx, 64), VBool(val)], st)
    funcs = sorted(ex.encoded)

    def ob(name, goals, detail_fn=None, finding_key=None, region=None, replay=None):
        v = vc.check_formulas(goals)
        if v.status == 'unsat':
            ctx.add(Ob(name, 'M', HELD, solver_s=v.secs, queries=v.queries, functions=funcs,
                       sample='%s: %d path goals unsat' % (name, len(goals))))
            return
        if v.status == 'unknown':
            ctx.add(Ob(name, 'M', INCONCLUSIVE, detail=v.note, solver_s=v.secs, queries=v.queries, functions=funcs))
            return
        label, model = v.model
        cex = vc.model_vals(model, vars_)
        if 'store' not in cex:
            b = cex.get('idx', 0) // 8
            try:
                cex['byte_at_idx'] = model.eval(z3.Select(arr, z3.BitVecVal(b, 64)), model_completion=True).as_long()
            except Exception:
                pass
        f = ctx.known(finding_key) if finding_key else None
        if f is not None and region is not None:
            goals2 = [(l, c + [z3.Not(region)]) for l, c in goals]
            v2 = vc.check_formulas(goals2)
            if v2.status == 'unsat':
                ctx.add(Ob(name, 'M', KNOWN, detail='%s cex=%s' % (label, cex), cex=cex, solver_s=v.secs + v2.secs,
                           queries=v.queries + v2.queries, functions=funcs, finding=f))
                return
            if v2.status == 'sat':
                label, model = v2.model
                cex = vc.model_vals(model, vars_)
        confirm(ctx, name, label, cex, v, funcs, replay)

    panics = [o for o in set_outs if o.kind == 'panic']
    rets = [o for o in set_outs if o.kind == 'return']
    others = [o for o in set_outs if o.kind not in ('panic', 'return')]
    if others or not rets:
        raise Refuse('unexpected outcomes of set: %r' % (others,))
    ob('set/no-panic', [('panic:' + o.msg, o.st.pc) for o in panics] or [('none', [z3.BoolVal(False)])],
       replay={'scenario': 'statuslist_set'})
    inrange = z3.ULT(idx, ln * 8)
    goals = []
    for o in rets:
        if is_variant(o.val, 'Ok'):
            goals.append(('Ok although out of range', o.st.pc + [z3.Not(inrange)]))
        elif is_variant(o.val, 'Err'):
            goals.append(('Err although in range', o.st.pc + [inrange]))
            post = o.st.mem['heap']
            goals.append(('Err changed the list', o.st.pc + [z3.Select(post.arr, k) != z3.Select(arr, k)]))
        else:
            raise Refuse('set returned %r' % (o.val,))
    ob('set/ok-iff-in-range', goals, replay={'scenario': 'statuslist_set'})

    # ---- get: panic freedom, Err <=> out of range ------------------------------------------------------------
    st2 = State()
    arr2, ln2 = fresh_list(st2)
    get_outs = ex.run(f_get, [VRef('sl'), VInt(k, 64)], st2)
    funcs = sorted(ex.encoded)
    gp = [o for o in get_outs if o.kind == 'panic']
    gr = [o for o in get_outs if o.kind == 'return']
    ob('get/no-panic', [('panic:' + o.msg, o.st.pc) for o in gp] or [('none', [z3.BoolVal(False)])],
       finding_key='get-out-of-range-panics', region=z3.UGE(k, ln2 * 8), replay={'scenario': 'statuslist_get'})
    goals = []
    for o in gr:
        if is_variant(o.val, 'Ok'):
            goals.append(('Ok although out of range', o.st.pc + [z3.UGE(k, ln2 * 8)]))
        elif is_variant(o.val, 'Err'):
            goals.append(('Err although in range', o.st.pc + [z3.ULT(k, ln2 * 8)]))
    ob('get/err-iff-out-of-range', goals, replay={'scenario': 'statuslist_get'})

    # ---- set then get: last-written value at idx, every other entry unchanged (convention-free) ---------------------
    goals = []
    npaths = 0
    for so in rets:
        if not is_variant(so.val, 'Ok'):
            continue
        # pre-state read of k
        for pre in ex.run(f_get, [VRef('sl'), VInt(k, 64)], preserve(st, so.st)):
            if pre.kind != 'return' or not is_variant(pre.val, 'Ok'):
                continue
            # post-state read of k (heap taken from the set path)
            s3 = pre.st.fork()
            s3.mem['heap'] = so.st.mem['heap']
            for post in ex.run(f_get, [VRef('sl'), VInt(k, 64)], s3):
                if post.kind == 'panic':
                    continue   # covered by get/no-panic
                if post.kind != 'return':
                    raise Refuse('get outcome %s' % post.kind)
                npaths += 1
                if not is_variant(post.val, 'Ok'):
                    goals.append(('entry readable before set is not readable after', post.st.pc))
                    continue
                pv, qv = pre.val.fields[0], post.val.fields[0]
                expect = z3.If(k == idx, val, pv.e)
                goals.append(('read after write differs from model', post.st.pc + [qv.e != expect]))
    if not goals:
        raise Refuse('no set;get path combination')
    region = z3.And(z3.Not(val), z3.URem(idx, 8) != 0)
    ob('set-then-get/last-write-wins-and-others-untouched', goals, finding_key='clear-clobbers-neighbours', region=region,
       replay={'scenario': 'statuslist_set_get'})
    ctx.extra['paths_set_get'] = npaths
    ctx.extra['feasibility_queries'] = ex.queries

    # ---- len = 8 * bytes -----------------------------------------------------------------------------------------
    st4 = State()
    arr4, ln4 = fresh_list(st4)
    louts = ex.run(f_len, [VRef('sl')], st4)
    goals = []
    for o in louts:
        if o.kind == 'panic':
            goals.append(('len panics', o.st.pc))
        elif o.kind == 'return':
            goals.append(('len != 8*bytes', o.st.pc + [o.val.e != ln4 * 8]))
    ob('len/eight-per-byte', goals, replay={'scenario': 'statuslist_get'})
    one_way(ctx, prog, ex, ob, vars_)
    ctx.extra['modelled_core_functions'] = models.names()


def get_expr(ex, f_get, st, heap, k):
    """(ok_cond, bit) of the real `get` on the list whose bytes are in cell `heap` - convention-free reading"""
    s0 = State()
    s0.mem = dict(st.mem)
    s0.mem['slq'] = VAgg('StatusList2021', None, [VRef(heap)])
    oks, bits = [], []
    for o in ex.run(f_get, [VRef('slq'), VInt(k, 64)], s0):
        if o.kind == 'return' and is_variant(o.val, 'Ok'):
            oks.append(z3.And(*o.st.pc) if o.st.pc else z3.BoolVal(True))
            bits.append(z3.And(*(o.st.pc + [o.val.fields[0].e])))
        elif o.kind == 'panic':
            pass
    return (z3.Or(*oks) if oks else z3.BoolVal(False)), (z3.Or(*bits) if bits else z3.BoolVal(False))


def one_way(ctx, prog, ex0, ob, vars_):
    """MutStatusList::set_entry / StatusList2021Credential::{set_entry, entry}: purpose-dependent irreversibility"""
    import re
    f_get = prog.one(r'status_list::<impl at [^>]*>::get$')
    f_mut = prog.one(r'::set_entry$', sig=r'^&mut MutStatusList')
    f_cset = prog.one(r'::set_entry$', sig=r'^&mut (\w+::)*StatusList2021Credential, usize, bool')
    f_entry = prog.one(r'credential::<impl at [^>]*>::entry$', sig=r'StatusList2021Credential, usize')
    idx, val, k = vars_['idx'], vars_['val'], vars_['k']
    rev = prog.enums['StatusPurpose']['Revocation']

    # -- MutStatusList::set_entry from an arbitrary list state and purpose
    ex = Exec(prog, models=models.MODELLED)
    st = State()
    arr, ln = fresh_list(st)
    st.mem['m'] = VAgg('MutStatusList', None, [VAgg('StatusList2021', None, [VRef('heap')]),
                                               VSym(('leaf', 'purpose'), 'StatusPurpose')])
    dpur = ex.discr_var(('leaf', 'purpose'))
    vars_['purpose'] = dpur
    outs = ex.run(f_mut, [VRef('m'), VInt(idx, 64), VBool(val)], st)
    funcs_before = set(ex.encoded)
    goals = []
    pre_ok, pre_bit = get_expr(ex, f_get, st, 'heap', idx)
    prek_ok, prek_bit = get_expr(ex, f_get, st, 'heap', k)
    for o in outs:
        if o.kind == 'panic':
            goals.append(('panic ' + o.msg, o.st.pc))
            continue
        if o.kind != 'return':
            raise Refuse('set_entry outcome ' + o.kind)
        forbidden = z3.And(dpur == rev, z3.Not(val), pre_bit)
        if is_variant(o.val, 'Ok'):
            goals.append(('revocation entry cleared', o.st.pc + [pre_ok, forbidden]))
            post_ok, post_bit = get_expr(ex, f_get, o.st, 'heap', k)
            goals.append(('write not as bit-vector model', o.st.pc + [prek_ok, z3.Or(z3.Not(post_ok), post_bit != z3.If(k == idx, val, prek_bit))]))
        else:
            post = o.st.mem['heap']
            goals.append(('refused write changed the list', o.st.pc + [z3.Select(post.arr, k) != z3.Select(arr, k)]))
            goals.append(('permitted in-range write refused', o.st.pc + [pre_ok, z3.Not(forbidden)]))
    ob('mut-status-list/one-way-revocation', goals, replay={'scenario': 'statuslist_oneway'})

    # -- StatusList2021Credential::set_entry / entry with the gzip/base64 codec as an uninterpreted pair
    snaps = {}

    def m_decode(ex, st, fr, name, args, dty):
        s_ok = st.fork()
        a2, l2 = fresh_list(s_ok, 'D')
        s_err = st.fork()
        return [(s_ok, VAgg('Result', 'Ok', [VAgg('StatusList2021', None, [VRef('heapD')])]), 'ok', ''),
                (s_err, VAgg('Result', 'Err', [VSym(('leaf', 'decode_error'))]), 'ok', '')]

    def m_encode(ex, st, fr, name, args, dty):
        v = args[0]
        ref = v.fields[0]
        n = len(snaps)
        cell = 'snap%d' % n
        st.mem[cell] = ex.load(st, ref.cell, ref.path)
        snaps[cell] = True
        return [(st, VSym(('leaf', 'encoded:' + cell), 'String'), 'ok', '')]

    custom = [(re.compile(r'StatusList2021::try_from_encoded_str$'), m_decode),
              (re.compile(r'StatusList2021::into_encoded_str$'), m_encode)]
    ex2 = Exec(prog, models=custom + models.MODELLED)
    st = State()
    st.mem['cred'] = VSym(('leaf', 'cred'), 'StatusList2021Credential')
    outs = ex2.run(f_cset, [VRef('cred'), VInt(idx, 64), VBool(val)], st)
    goals = []
    n_ok = 0
    for o in outs:
        if o.kind == 'panic':
            goals.append(('panic ' + o.msg, o.st.pc))
            continue
        if o.kind != 'return':
            raise Refuse('cred set_entry outcome ' + o.kind)
        cred = o.st.mem['cred']
        written = isinstance(cred, VOver)
        if is_variant(o.val, 'Ok'):
            n_ok += 1
            if not written:
                goals.append(('Ok without storing the re-encoded list', o.st.pc))
                continue
            encs = [t for t in term_leaves(ex2.to_term(o.st, cred)) if t.startswith('encoded:')]
            if len(encs) != 1:
                goals.append(('Ok but encoded_list is not the re-encoded list', o.st.pc))
                continue
            snap = encs[0].split(':', 1)[1]
            # purpose of this credential as read by the code
            dps = [v for kk, v in ex2.symvars.items() if kk[0] == 'd' and 'cred' in kk[1] and kk[1].count('.') >= 2]
            pre_ok, pre_bit = get_expr(ex2, f_get, o.st_pre if hasattr(o, 'st_pre') else base_with(o.st, 'heapD', 'D'), 'heapD0', idx)
            prek_ok, prek_bit = get_expr(ex2, f_get, base_with(o.st, 'heapD', 'D'), 'heapD0', k)
            post_ok, post_bit = get_expr(ex2, f_get, o.st, snap, k)
            goals.append(('stored list is not the bit-vector update of the decoded list',
                          o.st.pc + [prek_ok, z3.Or(z3.Not(post_ok), post_bit != z3.If(k == idx, val, prek_bit))]))
            pur = purpose_var(ex2)
            if pur is None:
                raise Refuse('purpose of the credential was never read')
            goals.append(('revocation entry cleared through the credential',
                          o.st.pc + [pur == rev, z3.Not(val), pre_ok, pre_bit]))
        else:
            if written:
                goals.append(('failed set_entry modified the credential', o.st.pc))
    if n_ok == 0:
        raise Refuse('credential set_entry has no Ok path')
    ob('credential/set_entry-one-way-and-stores-update', goals, replay={'scenario': 'statuslist_oneway'})

    ex3 = Exec(prog, models=custom + models.MODELLED)
    st = State()
    st.mem['cred'] = VSym(('leaf', 'cred'), 'StatusList2021Credential')
    outs = ex3.run(f_entry, [VRef('cred'), VInt(k, 64)], st)
    goals = []
    tab = prog.enums['CredentialStatus']
    seen = set()
    for o in outs:
        if o.kind == 'panic':
            goals.append(('panic ' + o.msg, o.st.pc))
            continue
        if is_variant(o.val, 'Ok'):
            stv = o.val.fields[0]
            if not isinstance(stv, VAgg):
                raise Refuse('entry status %r' % (stv,))
            seen.add(stv.variant)
            pur = purpose_var(ex3)
            ok_, bit = get_expr(ex3, f_get, o.st, 'heapD', k)
            expect = {'Revoked': z3.And(bit, pur == rev), 'Suspended': z3.And(bit, pur != rev),
                      'Valid': z3.Not(bit)}[stv.variant]
            goals.append(('entry() reports %s wrongly' % stv.variant, o.st.pc + [ok_, z3.Not(expect)]))
    if seen != {'Revoked', 'Suspended', 'Valid'}:
        raise Refuse('entry() paths reach only %s' % seen)
    ob('credential/entry-status-mapping', goals, replay={'scenario': 'statuslist_oneway'})
    for e in (ex, ex2, ex3):
        for f in e.encoded:
            ctx.functions.add(f)
    ctx.stubs.append('StatusList2021::try_from_encoded_str / into_encoded_str (gzip+base64) modelled as an uninterpreted decode/encode pair in the credential-level obligations')


def base_with(st, cell, tag):
    """state in which cell+'0' holds the list as decoded (before any write)"""
    s = st.fork()
    arr = z3.Array('store' + tag, z3.BitVecSort(64), z3.BitVecSort(8))
    ln = z3.BitVec('nbytes' + tag, 64)
    s.mem[cell + '0'] = VBytes(arr, z3.BitVecVal(0, 64), ln)
    return s


def purpose_var(ex):
    c = [v for kk, v in ex.symvars.items() if kk[0] == 'd' and kk[1].startswith('cred') or (kk[0] == 'd' and '*cred' in kk[1])]
    c = [v for kk, v in ex.symvars.items() if kk[0] == 'd' and 'cred' in kk[1]]
    return c[0] if len(c) == 1 else None


def preserve(base, after):
    """state with the pre-set heap but the path condition of `after` (the set path taken)"""
    s = after.fork()
    s.mem['heap'] = base.mem['heap']
    return s


def confirm(ctx, name, label, cex, v, funcs, replay):
    """a solver counterexample is only a candidate: replay it natively before VIOLATION"""
    from replay import run_replay
    if replay is None:
        ctx.add(Ob(name, 'M', INCONCLUSIVE, detail='counterexample without replay scenario: %s %s' % (label, cex),
                   cex=cex, solver_s=v.secs, queries=v.queries, functions=funcs))
        return
    rep = dict(replay, cex=cex)
    res = run_replay(rep)
    if res.get('reproduced'):
        ctx.add(Ob(name, 'M', VIOLATED, detail='%s; cex=%s; native: %s' % (label, cex, res.get('detail', '')), cex=cex,
                   solver_s=v.secs, queries=v.queries, functions=funcs, replay=rep))
    else:
        ctx.add(Ob(name, 'M', INCONCLUSIVE, detail='solver counterexample did not reproduce natively (%s): %s %s' %
                   (res.get('detail', ''), label, cex), cex=cex, solver_s=v.secs, queries=v.queries, functions=funcs))


def is_sub_t(t, want):
    from audit import subterms
    return any(x == want for x in subterms(t))


def codec_and_status(ctx, prog):
    """binding audits: the string form is base64(gzip(all bytes)) and back with nothing dropped or capped in between; the status
    evaluation compares list id *and* purpose before reading the entry"""
    from audit import Auditor, strip, apps, mentions, subterms, term_str
    A = Auditor(ctx, prog)
    RC = {'scenario': 'statuslist_codec'}

    f = prog.one(r'status_list::<impl at [^>]*>::try_from_encoded_str$')
    paths, ex = A.paths(f, inline=r'try_from_encoded_str::\{closure')

    def r_dec(p):
        if p.kind != 'return':
            return 'panic ' + p.msg
        if not p.is_ok():
            return None
        b64 = [c for c in p.find_calls(r'BaseEncoding::decode$') if mentions(c.args, r'^s$') and 'Base64' in term_str(c.args[1]) and 'Base64Url' not in term_str(c.args[1])]
        gz = [c for c in p.calls if re.search(r'GzDecoder<.*>::new$|GzDecoder::new$', c.name)]
        rd = [c for c in p.calls if re.search(r'Read>::read_to_end$|::read_to_end$', c.name)]
        if not b64 or not gz or not rd:
            return 'not base64-decoded, gunzipped and read to the end'
        if not any(s_ == b64[0].ret for a in gz[0].args for s_ in subterms(a)):
            return 'gzip decoder not fed with the base64-decoded bytes'
        limit = [c for c in p.calls if re.search(r'Read>::take$|::take$|::chain$|::bytes$|truncate$|::split_off$|drain$', c.name)]
        if limit:
            return 'decoded data passes through %s: the list can come back shorter than it was written' % limit[0].name.split('::')[-1]
        if not any(s_ == gz[0].ret or (isinstance(s_, tuple) and s_ and s_[0] == 'post' and s_[1] == gz[0].ret) for a in rd[0].args for s_ in subterms(a)):
            return 'read_to_end does not read from the gzip decoder itself'
        return None
    A.require('try_from_encoded_str/base64-then-gunzip-to-the-end-uncapped', paths, r_dec, replay=RC)

    f = prog.one(r'jwt_credential_validator_utils::<impl at [^>]*>::check_status_with_status_list_2021$')
    paths, ex = A.paths(f, inline=r'check_status_with_status_list_2021::\{closure')

    def r_sl(p):
        if p.kind != 'return':
            return 'panic ' + p.msg
        ent = [c for c in p.find_calls(r'StatusList2021Credential::entry$')]
        if not ent:
            return None            # nothing read from the list: skipped, absent or rejected
        eqs = [c for c in p.find_calls(r'PartialEq.*>::(eq|ne)$')]
        def took_equal(c):
            return p.took(c.ret, 'true' if c.name.endswith('::eq') else 'false')
        url_ok = any(took_equal(c) and apps(('x', tuple(c.args)), r'status_list_credential$') and mentions(c.args, r'^status_list_credential$') for c in eqs)
        pur_ok = any(took_equal(c) and len(apps(('x', tuple(c.args)), r'::purpose$')) >= 2 for c in eqs)
        if not url_ok:
            return 'list entry read although the status does not name this list credential'
        if not pur_ok:
            return 'list entry read although the purposes of status and list were not compared equal'
        idx = [c for c in p.find_calls(r'StatusList2021Entry::index$')]
        if not idx or not any(s_ == idx[0].ret for a in ent[0].args for s_ in subterms(a)) and not isinstance(ent[0].argvals[1], VInt):
            return 'entry read at something other than the status index'
        return None
    # every way to Ok(()) that does not read the list: only SkipAll or a credential without status (a status of this type is never
    # "unsupported": skipping it under SkipUnsupported would report revoked credentials as valid)
    def r_skip(p):
        if p.kind != 'return':
            return 'panic ' + p.msg
        if not p.is_ok() or p.find_calls(r'StatusList2021Credential::entry$'):
            return None
        eqs = [c for c in p.find_calls(r'PartialEq.*>::(eq|ne)$')]
        skip_all = any(('SkipAll' in term_str(('x', tuple(c.args)))) and mentions(c.args, r'^status_check$') and
                       p.took(c.ret, 'true' if c.name.endswith('::eq') else 'false') for c in eqs)
        cs = S_CRED.index('credential_status')
        no_status = p.took(('field', ('deref', ('leaf', 'credential')), cs, ''), 'None') or \
            any(p.took(t_, 'None') for t_ in [('field', ('leaf', 'credential'), cs, ''), ('ref', ('field', ('deref', ('leaf', 'credential')), cs, ''))])
        if skip_all or no_status:
            return None
        return 'status evaluation reports Ok without reading the list although a status is present and the check is not SkipAll'
    S_CRED = prog.structs['Credential']
    A.require('check_status_with_status_list_2021/ok-without-reading-the-list-only-for-SkipAll-or-no-status', paths, r_skip,
              replay={'scenario': 'statuslist_status'})

    # StatusList2021::new: Err exactly below the minimum size, otherwise a zero-filled store of exactly ceil(n / 8) bytes
    fn_ = prog.one(r'status_list::<impl at [^>]*>::new$', sig=r'^usize')
    npaths, nex = A.paths(fn_)
    MIN = 131072

    def r_new(p):
        if p.kind != 'return':
            return 'panic ' + p.msg
        pn = [n_ for n_, l_ in fn_.debug.items() if l_ == 1]
        n = nex.sym_int(('leaf', pn[0] if pn else 'arg1'), 64).e
        if p.is_err():
            return None if p.implies(z3.ULT(n, MIN)) else 'a size of at least the minimum is refused'
        if not p.is_ok():
            return 'unexpected result'
        if not p.implies(z3.UGE(n, MIN)):
            return 'a size below the minimum is accepted'
        fe = p.find_calls(r'vec::from_elem$|Vec.*::resize$|vec::from_elem_in$')
        if len(fe) != 1 or not isinstance(fe[0].argvals[1], VInt):
            return 'the store is not one zero-filled vector of a computed size'
        if term_str(fe[0].args[0]) not in ('const(0)', '0'):
            return 'the store is not zero-filled'
        if not is_sub_t(p.term(), fe[0].ret):
            return 'the list returned is not that store'
        sz = z3.ZeroExt(64, fe[0].argvals[1].e)
        n2 = z3.ZeroExt(64, n)
        ok = z3.And(z3.UGE(sz * 8, n2), z3.ULT(sz * 8, n2 + 8))
        return None if p.implies(ok) else 'the store does not hold exactly ceil(num_entries / 8) bytes for every size'
    A.require('new/err-iff-below-minimum-else-exactly-ceil-n-over-8-zero-bytes', npaths, r_new, replay={'scenario': 'statuslist_codec', 'cex': {'only': '[new]'}})

    # StatusList2021Credential::update: decode, hand the list (with the credential's purpose) to the caller's function once, and store
    # the re-encoded list whenever that function succeeded - unconditionally, whatever the function did
    fu = prog.one(r'status_list_2021::credential::<impl at [^>]*>::update$')
    upaths, uex = A.paths(fu, inline=r'credential::<impl at [^>]*>::update::\{closure')
    from execu import VOver

    def r_up(p):
        if p.kind != 'return':
            return 'panic ' + p.msg
        mem = p.st.mem.get('sym:self')
        written = isinstance(mem, VOver)
        dl = [c for c in p.calls if re.search(r'StatusList2021Credential::status_list$', c.name)]
        fc = [c for c in p.calls if re.search(r'FnOnce<.*>>::call_once$', c.name) and mentions(c.args[0], r'^update_fn$')]
        if not p.is_ok():
            return 'failed update modified the credential' if written else None
        if len(dl) != 1 or not p.took(dl[0], 'Ok') or len(fc) != 1 or not p.took(fc[0], 'Ok'):
            return 'Ok without decoding the list and applying the caller\'s function once successfully'
        if not is_sub_t(fc[0].args[1], ('field', dl[0].ret, 0, 'Ok')) or not apps(fc[0].args[1], r'StatusList2021Credential::purpose$'):
            return 'the function is not given the decoded list together with the credential\'s purpose'
        en = [c for c in p.calls if re.search(r'StatusList2021::into_encoded_str$', c.name)]
        if not written or len(en) != 1 or not is_sub_t(uex.to_term(p.st, mem), en[0].ret):
            return 'Ok without storing the re-encoded list (the update is lost)'
        return None
    A.require('credential/update-applies-once-and-always-stores', upaths, r_up, replay={'scenario': 'statuslist_oneway'})

    # into_inner (the serialised form): the credential that was parsed, with its subject replaced - as a whole - by the current status
    # list subject (nothing of the subject it was parsed from survives next to it)
    SLC = prog.structs['StatusList2021Credential']
    CRD = prog.structs['Credential']
    fi = prog.one(r'status_list_2021::credential::<impl at [^>]*>::into_inner$')
    ipaths, iex = A.paths(fi)

    def r_ii(p):
        if p.kind != 'return':
            return 'panic ' + p.msg
        t = p.term()
        inner = ('field', ('leaf', 'self'), SLC.index('inner'), '')
        subj = ('field', ('leaf', 'self'), SLC.index('subject'), '')
        if not (isinstance(t, tuple) and t[0] == 'over' and strip(t[1]) == inner):
            return 'result is not the inner credential with members replaced'
        ents = t[2]
        if len(ents) != 1 or (ents[0][0][1] if isinstance(ents[0][0], tuple) else ents[0][0]) != CRD.index('credential_subject'):
            return 'something besides credentialSubject is rewritten'
        v = strip(ents[0][1])
        ok = isinstance(v, tuple) and v[0] == 'agg' and str(v[2]) == 'One' and len(v[3]) == 1
        if ok:
            x = v[3][0]
            while isinstance(x, tuple) and x and x[0] in ('ref', 'deref'):
                x = x[1]
            ok = isinstance(x, tuple) and x[0] == 'app' and re.search(r'Into<(\w+::)*Subject>>::into$|From<(\w+::)*StatusList2021CredentialSubject>>::from$', x[1]) and strip(x[2][0]) == subj
        return None if ok else 'credentialSubject is not exactly One(Subject::from(the current status list subject)): stale members of the parsed subject can survive'
    A.require('into_inner/subject-replaced-as-a-whole-by-the-current-list', ipaths, r_ii, replay={'scenario': 'statuslist_oneway'})

    A.require('check_status_with_status_list_2021/same-list-and-same-purpose-before-reading-the-entry', paths, r_sl, replay={'scenario': 'statuslist_status'})


def main(ctx):
    prog, info = load(CRATES)
    ctx.extra['mir'] = info
    guarded(ctx, 'status-list kernels', 'M', lambda: run(ctx, prog, info))
    guarded(ctx, 'codec and status evaluation', 'M', lambda: codec_and_status(ctx, prog))
    guarded(ctx, 'status-list API harnesses', 'K', lambda: kani_part(ctx))


def kani_part(ctx):
    import kanirun
    fn = ['StatusList2021::default', 'StatusList2021::new', 'StatusList2021::set', 'StatusList2021::get']
    specs = [
        dict(harness='c12_out_of_range_is_error', timeout_s=600, functions=fn,
             bounds='default 131072-entry list, every index >= len, both values'),
        dict(harness='c12_twin_must_fail', timeout_s=600, must_fail=True, functions=fn),
    ]
    # (c12_two_writes_one_read - two writes and a read at arbitrary indices of the default 16 KiB list - hit its 40-minute cap in the
    # thorough run of the build round and is not registered; the M kernel decides set-then-get for lists of any length)
    res = kanirun.run_many(specs)
    kanirun.judge(ctx, specs, res, 'c12')


