"""C16 - SD-JWT credentials and key-binding JWTs are accepted only when fully bound (engine M binding audit)."""
import re
import z3
from core import *
from execu import Refuse
from values import *
from audit import *
from loader import load
from c02 import fld, is_proj_of, is_sub, is_opt_field

CRATES = ['identity_credential']
SRC = ['identity_document', 'identity_jose', 'identity_core', 'identity_did', 'identity_verification']


def R(tag):
    return {'scenario': 'sd_jwt', 'cex': {'only': tag}}


def eq_took(p, pred_a, pred_b):
    """an equality/inequality call between terms satisfying pred_a / pred_b whose outcome on this path is `equal`"""
    for c in p.find_calls(r'PartialEq.*>::(eq|ne)$'):
        a, b = c.args
        if (pred_a(a) and pred_b(b)) or (pred_a(b) and pred_b(a)):
            if p.took(c.ret, 'true' if c.name.endswith('::eq') else 'false'):
                return True
    return False


def ord_not(p, op, pred_l, pred_r):
    """comparison `l op r` evaluated and false on this path (e.g. issuance < earliest is false)"""
    flip = {'ge': 'le', 'le': 'ge', 'gt': 'lt', 'lt': 'gt'}
    for c in p.find_calls(r'PartialOrd.*>::(ge|le|gt|lt)$'):
        m = re.search(r'::(ge|le|gt|lt)$', c.name).group(1)
        a, b = c.args
        eff = m if (pred_l(a) and pred_r(b)) else (flip[m] if (pred_r(a) and pred_l(b)) else None)
        if eff == op and p.took(c.ret, 'false'):
            return True
    return False


def run(ctx, prog):
    A = Auditor(ctx, prog)
    S = prog.structs
    KO = S['KeyBindingJWTValidationOptions']
    JVO = S['JwsVerificationOptions']
    DJ = S['DecodedJws']
    DJC = S['DecodedJwtCredential']
    CVO = S['JwtCredentialValidationOptions']

    # ------------------------------------------------------------------------------------------ validate_key_binding_jwt
    f = prog.one(r'sd_jwt::validator::<impl at [^>]*>::validate_key_binding_jwt$')
    paths, ex = A.paths(f, inline=r'validate_key_binding_jwt::\{closure')
    ctx.extra['kb_paths'] = len(paths)
    import panicmodels
    ppaths, _ = A.paths(f, inline=r'validate_key_binding_jwt::\{closure', extra_models=panicmodels.PANIC_MODELS)
    A.no_panic('key-binding/failure-is-an-error-never-a-panic', ppaths, replay=R('[kb-panic]'), finding_key='kb-verify-unwrap')
    okp = [p for p in paths if p.kind == 'return' and p.is_ok()]
    if not okp:
        raise Refuse('validate_key_binding_jwt has no Ok path')
    ji = KO.index('jws_options')

    def r_kb(p):
        dcs = [c for c in p.find_calls(r'decode_compact_serialization$') if p.took(c, 'Ok')]
        kb_items = [c for c in dcs if mentions(c.args[1], r'key_binding_jwt|kb_jwt') or apps(c.args[1], r'Clone>::clone$')]
        if not kb_items:
            return 'KB-JWT not decoded'
        vf = [c for c in p.find_calls(r'JwsValidationItem::verify$') if p.took(c, 'Ok')]
        if not vf:
            return 'accepted without the KB-JWT signature verifying'
        if not is_proj_of(vf[0].args[1], 'self', [0]):
            return 'KB-JWT not verified with the validator\'s verifier'
        item = strip(vf[0].args[0])
        if not any(item == ('field', c.ret, 0, 'Ok') for c in kb_items):
            return 'verified item is not the decoded KB-JWT'
        rm = [c for c in p.find_calls(r'CoreDocument::resolve_method$') if p.took(c, 'Some')]
        if not rm or not mentions(rm[0].args[0], r'^holder$') or not is_proj_of(rm[0].args[2], 'options', [ji, JVO.index('method_scope')]):
            return 'key not resolved in the holder document within options.jws_options.method_scope'
        if not (apps(vf[0].args[2], r'public_key_jwk$') and is_sub(vf[0].args[2], rm[0].ret)):
            return 'KB-JWT not verified under the resolved holder key'
        mid = strip(rm[0].args[1])
        opt_mid = fld(('deref', ('leaf', 'options')), ji, JVO.index('method_id'))
        if p.took(opt_mid, 'Some'):
            if not is_opt_field(mid, 'options', ji):
                return 'configured method id not used'
        else:
            if not (apps(mid, r'DIDUrl::parse$') and apps(mid, r'::kid$')):
                return 'method id is not the KB-JWT kid'
        # typ == "kb+jwt"
        typ = [c for c in p.find_calls(r'JwtHeader::typ$|::typ$') if p.took(c, 'Some')]
        if not typ:
            return 'typ header not read'
        tval = ('field', typ[0].ret, 0, 'Some')
        b = ex.sym_bytes(tval)
        want = z3.And(b.len == 6, *[z3.Select(b.arr, b.off + i) == ch for i, ch in enumerate(b'kb+jwt')])
        # the expected value is a constant of the sd-jwt-payload crate (opaque here) or the literal
        if not p.implies(want) and not eq_took(p, lambda t: is_sub(t, tval), lambda t: 'KB_JWT_HEADER_TYP' in term_str(t)):
            return 'accepted although typ may differ from "kb+jwt"'
        fs = [c for c in p.find_calls(r'(^|::)from_slice$') if p.took(c, 'Ok') and is_sub(c.args[0], fld(('field', vf[0].ret, 0, 'Ok'), DJ.index('claims')))]
        if not fs:
            return 'KB claims not parsed from the verified payload'
        claims = ('field', fs[0].ret, 0, 'Ok')
        if strip(p.term(p.payload())) != claims:
            return 'returned claims are not the verified ones'
        KC = ['iat', 'aud', 'nonce', 'sd_hash']   # KeyBindingJwtClaims field order (sd-jwt-payload 0.2): resolved by term text below
        dg = [c for c in p.find_calls(r'encoded_digest$')]
        if not dg:
            return 'digest over the presented token never computed'
        payload_t = dg[0].args[1]
        if not (mentions(payload_t, r'^sd_jwt$') and apps(payload_t, r'format$|fmt::format')):
            return 'digest not computed over the presented jwt and disclosures'
        ad = apps(payload_t, r'(^|::)(unique\w*|dedup\w*|filter\w*|skip\w*|take\w*|rev|sorted\w*|step_by|chain|zip|flat\w*|map_while|scan|nth|last|next)$')
        if ad:
            return 'digest computed over a reshaped disclosure list (%s), not over the disclosures as presented' % ad[0][1].split('::')[-1]
        if not eq_took(p, lambda t: is_sub(t, claims), lambda t: is_sub(t, dg[0].ret)):
            return 'sd_hash not compared equal with the digest'
        for nm in ('nonce', 'aud'):
            opt = fld(('deref', ('leaf', 'options')), KO.index(nm))
            if p.took(opt, 'Some'):
                if not eq_took(p, lambda t: is_opt_field(t, 'options', KO.index(nm)), lambda t: is_sub(t, claims)):
                    return 'configured %s not compared equal with the KB claim' % nm
            elif not p.took(opt, 'None'):
                return 'options.%s not examined' % nm
        fu = [c for c in p.find_calls(r'Timestamp::from_unix$') if p.took(c, 'Ok')]
        if not fu:
            return 'iat not converted'
        iat = ('field', fu[0].ret, 0, 'Ok')
        e_opt = fld(('deref', ('leaf', 'options')), KO.index('earliest_issuance_date'))
        l_opt = fld(('deref', ('leaf', 'options')), KO.index('latest_issuance_date'))
        if p.took(e_opt, 'Some'):
            if not ord_not(p, 'lt', lambda t: is_sub(t, iat), lambda t: is_opt_field(t, 'options', KO.index('earliest_issuance_date'))):
                return 'iat not checked against earliest_issuance_date (inclusive)'
        elif not p.took(e_opt, 'None'):
            return 'earliest_issuance_date not examined'
        if p.took(l_opt, 'Some'):
            if not ord_not(p, 'gt', lambda t: is_sub(t, iat), lambda t: is_opt_field(t, 'options', KO.index('latest_issuance_date'))):
                return 'iat not checked against latest_issuance_date (inclusive)'
        elif p.took(l_opt, 'None'):
            if not ord_not(p, 'gt', lambda t: is_sub(t, iat), lambda t: bool(apps(t, r'Timestamp::now_utc$'))):
                return 'iat not checked against the current time when no latest bound is configured'
        else:
            return 'latest_issuance_date not examined'
        return None
    A.require('key-binding/typ-key-signature-sd_hash-nonce-aud-iat', okp, r_kb, replay=R('[kb]'))

    # ------------------------------------------------------------------------------------------------ verify_signature
    f = prog.one(r'sd_jwt::validator::<impl at [^>]*>::verify_signature$')
    paths, ex = A.paths(f, inline=r'sd_jwt::validator::<impl at [^>]*>::verify_signature::\{closure')
    okp = [p for p in paths if p.kind == 'return' and p.is_ok()]
    if not okp:
        raise Refuse('SD-JWT verify_signature has no Ok path')
    ppaths, _ = A.paths(f, inline=r'sd_jwt::validator::<impl at [^>]*>::verify_signature::\{closure', extra_models=panicmodels.PANIC_MODELS)
    A.no_panic('sd-jwt/verify_signature-no-panic', ppaths, replay=R('[cred'))
    SJ = None

    def r_sd(p):
        dec = [c for c in p.find_calls(r'JwtCredentialValidator.*::decode$') if p.took(c, 'Ok')]
        if not dec or not mentions(dec[0].args[0], r'^credential$'):
            return 'issuer JWT not decoded from the SD-JWT'
        item = ('field', dec[0].ret, 0, 'Ok')
        pj = [c for c in p.find_calls(r'::parse_jwk$') if p.took(c, 'Ok')]
        if not pj or strip(pj[0].args[0]) != item or strip(pj[0].args[1]) != ('leaf', 'trusted_issuers') or strip(pj[0].args[2]) != ('leaf', 'options'):
            return 'key not selected by parse_jwk(decoded, trusted_issuers, options) - same issuer/kid/scope/nonce rules as plain JWTs'
        key = fld(('field', pj[0].ret, 0, 'Ok'), 0)
        mid = fld(('field', pj[0].ret, 0, 'Ok'), 1)
        vr = [c for c in p.find_calls(r'::verify_signature_raw$') if p.took(c, 'Ok')]
        if not vr or strip(vr[0].args[0]) != item or strip(vr[0].args[1]) != key or not is_proj_of(vr[0].args[2], 'self', [0]):
            return 'issuer signature not verified over the decoded token with the selected key'
        dj = ('field', vr[0].ret, 0, 'Ok')
        fs = [c for c in p.find_calls(r'(^|::)from_slice$') if p.took(c, 'Ok')]
        if not fs or not is_sub(fs[0].args[0], fld(dj, DJ.index('claims'))):
            return 'claims not parsed from the verified payload'
        dd = [c for c in p.find_calls(r'SdObjectDecoder::decode$') if p.took(c, 'Ok')]
        if not dd or not is_sub(dd[0].args[1], fs[0].ret) or not mentions(dd[0].args[2], r'^credential$'):
            return 'disclosures not decoded into the verified claims'
        if p.calls.index(dd[0]) < p.calls.index(vr[0]):
            return 'disclosures processed before the issuer signature was verified'
        fj = [c for c in p.find_calls(r'from_json$') if p.took(c, 'Ok')]
        if not fj or not is_sub(fj[0].args[0], dd[0].ret):
            return 'credential claims not built from the decoded (disclosed) object'
        tc = [c for c in p.find_calls(r'::try_into_credential$') if p.took(c, 'Ok')]
        if not tc or strip(tc[0].args[0]) != ('field', fj[0].ret, 0, 'Ok'):
            return 'credential not reconstructed (with consistency check) from the decoded claims'
        out = p.payload()
        if strip(p.term(out.fields[DJC.index('credential')])) != ('field', tc[0].ret, 0, 'Ok'):
            return 'returned credential is not the reconstructed one'
        ei = [c for c in p.find_calls(r'::extract_issuer$') if p.took(c, 'Ok')]
        if not ei or not is_sub(ei[0].args[0], ('field', tc[0].ret, 0, 'Ok')):
            return 'issuer not extracted from the reconstructed credential'
        if not eq_took(p, lambda t: is_sub(t, ('field', ei[0].ret, 0, 'Ok')),
                       lambda t: bool(apps(t, r'DIDUrl::did$')) and is_sub(t, mid)):
            return 'credential issuer not compared equal with the DID of the verifying method'
        return None
    A.require('sd-jwt/signature-first-then-disclosures-then-issuer-identity', okp, r_sd, replay=R('[cred]'))

    # --------------------------------------------------------------------------------------------- validate_credential
    f = prog.one(r'sd_jwt::validator::<impl at [^>]*>::validate_credential$')
    paths, ex = A.paths(f)

    def r_vc(p):
        if p.kind != 'return':
            return 'panic ' + p.msg
        vs = p.find_calls(r'SdJwtCredentialValidator.*::verify_signature$')
        if len(vs) != 1 or strip(vs[0].args[1]) != ('leaf', 'sd_jwt') or not mentions(vs[0].args[2], r'^issuer$') \
                or not is_proj_of(vs[0].args[3], 'options', [CVO.index('verification_options')]):
            return 'verify_signature not called with (sd_jwt, [issuer], options.verification_options)'
        if p.took(vs[0], 'Err'):
            return None if p.is_err() else 'signature failure not reported'
        vd = p.find_calls(r'validate_decoded_credential$')
        if len(vd) != 1 or strip(p.term()) != vd[0].ret:
            return 'result is not validate_decoded_credential(..) - the same date/structure/status units as plain JWTs'
        b = vd[0].args
        if strip(b[0]) != ('field', vs[0].ret, 0, 'Ok') or not mentions(b[1], r'^issuer$') or strip(b[2]) != ('leaf', 'options') \
                or strip(b[3]) != ('leaf', 'fail_fast'):
            return 'validate_decoded_credential not called with (verified credential, [issuer], options, fail_fast)'
        return None
    A.require('sd-jwt/validate_credential=signature-then-the-same-units', paths, r_vc, replay=R('[cred]'))


def main(ctx):
    prog, info = load(CRATES, src_only=SRC)
    ctx.extra['mir'] = info
    ctx.bounds.append('all acyclic paths of validate_key_binding_jwt (171 blocks), SD-JWT verify_signature and validate_credential; callee results unconstrained')
    ctx.outside += ['SdObjectDecoder::decode (disclosure hashing, third-party)', 'real hashing / signatures', 'JSON parsing',
                    ]
    guarded(ctx, 'sd-jwt audit', 'M', lambda: run(ctx, prog))
    # the issuer signature is selected and checked by the same parse_jwk / verify_decoded_signature as a plain JWT credential: C02's obligations, re-used
    import c02
    guarded(ctx, 'issuer key selection (shared with plain JWT credentials)', 'M', lambda: c02.run(ctx, prog, only=r'^parse_jwk/|^verify_decoded_signature/|^validate_decoded_credential/'))
    # "passes the same date / structure / status checks": the unit bodies themselves (C02's obligations) and the claims consistency
    # conversion (C07's), re-used
    import c07
    guarded(ctx, 'claims consistency (shared with C07)', 'M', lambda: c07.credential_consistency(Auditor(ctx, prog), prog, {'scenario': 'claims', 'cex': {'only': '[consistency]'}}))
    guarded(ctx, 'validation units (shared with C02)', 'M', lambda: c02.units(ctx, prog, only=r'^check_status/|^check_revocation_bitmap_status/|^check_structure/'))
