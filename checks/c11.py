"""C11 - JOSE header policy (crit, b64, disjointness, alg) is enforced fail-closed.

M: composition of validate_jws_headers, validate_disjoint, is_disjoint formulas, validate_b64, encoder gates, recipient b64
   agreement.   validate_crit with its loop unrolled (lists <= 2), JwsHeader::has kernels.  (The Kani harnesses of validate_crit ran out
   of memory at 14 GB - 2.7 M symex steps through the custom-parameter BTreeMap - and were removed under rule 9.)
"""
import re
import z3
from core import *
from execu import Exec, State, Refuse
from values import *
from audit import *
from loader import load

CRATES = ['identity_jose']
REPLAY = {'scenario': 'jws_policy'}
P, U = ('leaf', 'protected'), ('leaf', 'unprotected')


def run(ctx, prog, only=None):
    A = Auditor(ctx, prog, only=only)

    # ----------------------------------------------------------------------------------- validate_jws_headers = conjunction
    f = prog.one(r'(^|::)validate_jws_headers$')
    paths, ex = A.paths(f)

    def r_comp(p):
        if p.kind != 'return':
            return 'panic ' + p.msg
        got = {}
        for nm in ('validate_disjoint', 'validate_crit', 'validate_b64'):
            cs = [c for c in p.find_calls(r'(^|::)%s$' % nm)]
            for c in cs:
                if [strip(a) for a in c.args] != [P, U]:
                    return '%s not called with (protected, unprotected)' % nm
            got[nm] = cs
        if p.is_ok():
            for nm, cs in got.items():
                if not any(p.took(c, 'Ok') for c in cs):
                    return 'header set accepted without %s returning Ok' % nm
            return None
        if any(p.took(c, 'Err') for cs in got.values() for c in cs):
            return None
        return 'header set rejected although every validator accepted'
    A.require('validate_jws_headers/conjunction-of-three-validators', paths, r_comp, replay=REPLAY)

    # -------------------------------------------------------------------------------------------------- validate_disjoint
    f = prog.one(r'(^|::)validate_disjoint$')
    paths, ex = A.paths(f)

    def r_disj(p):
        if p.kind != 'return':
            return 'panic ' + p.msg
        both = p.took(P, 'Some') and p.took(U, 'Some')
        cs = p.find_calls(r'JwsHeader::is_disjoint$')
        if both:
            if len(cs) != 1 or not (is_proj(cs[0].args[0], 'protected') and is_proj(cs[0].args[1], 'unprotected')
                                    or is_proj(cs[0].args[0], 'unprotected') and is_proj(cs[0].args[1], 'protected')):
                return 'both headers present but is_disjoint(protected, unprotected) not consulted'
            want = 'true' if p.is_ok() else 'false'
            return None if p.took(cs[0].ret, want) else 'verdict does not follow is_disjoint'
        return None if p.is_ok() else 'rejected although at most one header is present'
    A.require('validate_disjoint/err-iff-both-present-and-overlapping', paths, r_disj, replay=REPLAY)

    # ------------------------------------------------------------------------------------- is_disjoint formulas (kernels)
    for ty, fn_rx, nested in (('JwtHeader', r'jwt::header::<impl at [^>]*>::is_disjoint$', False),
                              ('JwsHeader', r'jws::header::<impl at [^>]*>::is_disjoint$', True)):
        f = prog.one(fn_rx)
        fields = prog.structs.get(ty)
        if not fields:
            raise Refuse('no field list for ' + ty)
        paths, ex = A.paths(f, inline=r'^(?!.*(is_custom_disjoint|JwtHeader::is_disjoint|jwt::header::<impl at [^>]*>::is_disjoint)).*$' if nested else r'^(?!.*is_custom_disjoint).*$')
        ex_ = ex

        def fld(who, i):
            return ('field', ('deref', ('leaf', who)), i, '')

        def both_expr(i):
            return z3.And(ex_.discr_var(fld('self', i)) == 1, ex_.discr_var(fld('other', i)) == 1)

        opt_fields = [i for i, n in enumerate(fields) if n not in ('common', 'custom')]

        def r_formula(p, fields=fields, nested=nested, opt_fields=opt_fields):
            if p.kind != 'return' or not isinstance(p.val, VBool):
                return 'not a boolean result'
            dup = z3.Or(*[both_expr(i) for i in opt_fields])
            if not p.implies(z3.Implies(p.val.e, z3.Not(dup))):
                bad = [fields[i] for i in opt_fields if p.consistent(z3.And(p.val.e, both_expr(i)))]
                return 'is_disjoint can return true although both headers set %s' % bad
            subs = []
            if nested:
                cs = p.find_calls(r'JwtHeader::is_disjoint$|jwt::header::<impl at [^>]*>::is_disjoint$')
                cu = p.find_calls(r'is_custom_disjoint$')
                if p.consistent(p.val.e):
                    if not any(p.implies(z3.Implies(p.val.e, ex_.sym_bool(c.ret).e)) for c in cs) or \
                            not any(p.implies(z3.Implies(p.val.e, ex_.sym_bool(c.ret).e)) for c in cu):
                        return 'true without the common-parameter and custom-parameter checks both returning true'
                    for c in cs + cu:
                        l = leaves(c.args)
                        if not ('self' in l and 'other' in l):
                            return 'sub-check not over (self, other)'
                subs = [ex_.sym_bool(c.ret).e for c in cs + cu]
                if len(cs) == 1 and len(cu) == 1:
                    if not p.implies(z3.Implies(z3.And(z3.Not(dup), *subs), p.val.e)):
                        return 'is_disjoint false although nothing overlaps'
            else:
                if not p.implies(z3.Implies(z3.Not(dup), p.val.e)):
                    return 'is_disjoint false although nothing overlaps'
            return None
        A.require('%s::is_disjoint/true-iff-no-parameter-set-on-both-sides' % ty, paths, r_formula, replay=REPLAY)
        ctx.samples.append('%s fields compared: %s' % (ty, [fields[i] for i in opt_fields]))

    # ------------------------------------------------------------------------------------------- custom parameters (by name)
    f = prog.one(r'jws::header::<impl at [^>]*>::is_custom_disjoint$')
    JH = prog.structs['JwsHeader']
    ci = JH.index('custom')
    paths, ex = A.paths(f, inline=r'is_custom_disjoint::\{closure', unwind=2, allow_bound=True)
    ctx.bounds.append('is_custom_disjoint: at most 2 custom parameters on the left (%d longer paths cut)' % A.last_bound_hits)

    def r_cd(p):
        if p.kind != 'return':
            return 'panic ' + p.msg
        if not isinstance(p.val, VBool):
            return 'result is not a bool'
        both = p.took(('field', ('deref', ('leaf', 'self')), ci, ''), 'Some') and p.took(('field', ('deref', ('leaf', 'other')), ci, ''), 'Some')
        nx = [c for c in p.calls if re.search(r'Iterator>::next$', c.name) and p.took(c, 'Some')]
        ck = [c for c in p.calls if re.search(r'BTreeMap(<.*>)?::contains_key$', c.name) and mentions(c.args[0], r'^other$')]
        vals = [c for c in p.calls if re.search(r'BTreeMap(<.*>)?::get$|PartialEq.*>::(eq|ne)$|::values$|::iter$', c.name)]
        if vals:
            return 'custom parameters compared by value (%s): a shared *name* is the overlap, whatever the values' % vals[0].name.split('::')[-1]
        if p.implies(p.val.e):
            if not both:
                return None
            if len(ck) != len(nx):
                return 'disjoint reported without every name of the left header being looked up in the right one'
            for n_, c_ in zip(nx, ck):
                if not any(s_ == ('field', n_.ret, 0, 'Some') for s_ in subterms(c_.args[1])) or not p.took(c_.ret, 'false'):
                    return 'disjoint reported although a name of the left header is present in the right one (or another key was looked up)'
            return None
        if p.implies(z3.Not(p.val.e)):
            return None if both and ck and p.took(ck[-1].ret, 'true') else 'overlap reported without a shared name'
        return 'verdict does not follow the name look-ups'
    A.require('is_custom_disjoint/shared-names-regardless-of-values', paths, r_cd, replay=REPLAY)

    # ------------------------------------------------------------------------------------------------------- validate_b64
    f = prog.one(r'(^|::)validate_b64$')
    paths, ex = A.paths(f, inline=r'validate_b64::\{closure#[01]\}$')

    def r_b64(p):
        if p.kind != 'return':
            return 'panic ' + p.msg

        def opt(rx, who):
            """(is_some, is_none) of accessor `rx` applied to header `who` on this path"""
            if p.took(('leaf', who), 'None'):
                return False, True
            cs = [c for c in p.find_calls(rx) if is_proj(c.args[0], who)]
            if not cs:
                return None, None
            return p.took(cs[0], 'Some'), p.took(cs[0], 'None')
        ub = opt(r'JwsHeader::b64$', 'unprotected')
        pb = opt(r'JwsHeader::b64$', 'protected')
        pcr = opt(r'JwtHeader::crit$|JwsHeader::crit$|::crit$', 'protected')
        if p.is_err():
            if ub[0] or (pb[0] and pcr[1]):
                return None
            return 'b64 rule rejects although b64 is protected and crit is present (or b64 absent)'
        if ub[0] is None or ub[0]:
            return 'accepted without establishing that the unprotected header has no b64'
        if pb[0] is None:
            return 'accepted without looking at the protected b64'
        if pb[0] and (pcr[1] or pcr[0] is None):
            return 'protected b64 accepted although crit is absent'
        return None
    A.require('validate_b64/b64-only-protected-and-only-with-crit', paths, r_b64, replay=REPLAY)

    # -------------------------------------------------------------------------------------------------------- extract_b64
    f = prog.one(r'(^|::)extract_b64$')
    paths, ex = A.paths(f)

    def r_extract(p):
        if p.kind != 'return' or not isinstance(p.val, VBool):
            return 'not boolean'
        if p.took(('leaf', 'header'), 'None'):
            return None if p.implies(p.val.e) else 'default b64 is not true'
        cs = [c for c in p.find_calls(r'JwsHeader::b64$') if is_proj(c.args[0], 'header')]
        if len(cs) != 1:
            return 'b64 of the header not read'
        if p.took(cs[0], 'None'):
            return None if p.implies(p.val.e) else 'default b64 is not true'
        v = ex.sym_bool(('field', cs[0].ret, 0, 'Some')).e
        return None if p.implies(p.val.e == v) else 'extract_b64 does not return the header value'
    A.require('extract_b64/header-value-or-true', paths, r_extract, replay=REPLAY)

    # -------------------------------------------------------------------------------------------------------------- gates
    f = prog.one(r'(^|::)validate_headers_json_serialization$')
    paths, ex = A.paths(f)
    rs = prog.structs['Recipient']

    def r_gate_json(p):
        if p.kind != 'return':
            return 'panic ' + p.msg
        rp = ('field', ('leaf', 'recipient'), rs.index('protected'), '')
        ru = ('field', ('leaf', 'recipient'), rs.index('unprotected'), '')
        none_both = p.took(rp, 'None') and p.took(ru, 'None')
        cs = p.find_calls(r'(^|::)validate_jws_headers$')
        if none_both:
            return None if p.is_err() else 'recipient without any header accepted'
        t = strip(p.term())
        if len(cs) == 1 and [strip(a) for a in cs[0].args] == [rp, ru] and t == cs[0].ret:
            return None
        return 'gate does not return validate_jws_headers(protected, unprotected)'
    A.require('json-encoders/gate-requires-a-header-and-the-validator', paths, r_gate_json, replay=REPLAY)

    f = prog.one(r'encoder::<impl at [^>]*>::validate_header$')
    paths, ex = A.paths(f)

    def r_gate_compact(p):
        cs = p.find_calls(r'(^|::)validate_jws_headers$')
        if p.kind == 'return' and len(cs) == 1 and strip(p.term()) == cs[0].ret:
            a0, a1 = cs[0].args
            if a0[0] == 'agg' and a0[2] == 'Some' and strip(a0[3][0]) == ('leaf', 'protected_header') and a1[0] == 'agg' and a1[2] == 'None':
                return None
        return 'compact gate is not validate_jws_headers(Some(header), None)'
    A.require('compact-encoder/gate-is-the-validator', paths, r_gate_compact, replay=REPLAY)

    for enc, fn in (('compact', r'encoder::<impl at [^>]*>::new_with_options$'),
                    ('flattened', r'encoder::<impl at [^>]*>::new$'),):
        cands = [g for g in prog.find(fn) if (enc == 'compact' or 'FlattenedJwsEncoder' in g.ret_ty)]
        if len(cands) != 1:
            raise Refuse('encoder constructor %s: %d candidates' % (enc, len(cands)))
        paths, ex = A.paths(cands[0])
        gate = r'validate_header$' if enc == 'compact' else r'validate_headers_json_serialization$'
        A.require('%s-encoder/nothing-produced-unless-gate-ok' % enc, paths,
                  lambda p, gate=gate: None if (p.kind != 'return' or not p.is_ok() or any(p.took(c, 'Ok') for c in p.find_calls(gate)))
                  else 'encoder constructed without its header gate returning Ok', replay=REPLAY)

    gen_new = [g for g in prog.find(r'encoder::<impl at [^>]*>::new$') if 'GeneralJwsEncoder' in g.ret_ty]
    add = prog.one(r'encoder::<impl at [^>]*>::add_recipient$')
    if len(gen_new) != 1:
        raise Refuse('GeneralJwsEncoder::new: %d candidates' % len(gen_new))
    paths, ex = A.paths(gen_new[0])
    A.require('general-encoder/new-gated', paths,
              lambda p: None if (p.kind != 'return' or not p.is_ok() or any(p.took(c, 'Ok') for c in p.find_calls(r'validate_headers_json_serialization$')))
              else 'encoder constructed without its header gate returning Ok', replay=REPLAY)
    paths, ex = A.paths(add)
    gi = prog.structs['GeneralJwsEncoder'].index('b64')

    def r_add(p):
        if p.kind != 'return' or not p.is_ok():
            return None
        if not any(p.took(c, 'Ok') for c in p.find_calls(r'validate_headers_json_serialization$')):
            return 'recipient added without the header gate'
        cs = [c for c in p.find_calls(r'(^|::)extract_b64$') if mentions(c.args, r'^recipient$')]
        if len(cs) != 1:
            return 'b64 of the new recipient not extracted'
        newb = ex.sym_bool(cs[0].ret).e
        oldb = ex.sym_bool(('field', ('leaf', 'self'), gi, '')).e
        return None if p.implies(newb == oldb) else 'recipient with a different b64 value accepted'
    A.require('general-encoder/recipients-agree-on-b64', paths, r_add, replay=REPLAY)


def crit_audit(ctx, prog):
    """validate_crit with its loop unrolled twice (crit lists of up to 2 entries), table lookups and has_claim as callees"""
    A = Auditor(ctx, prog)
    f = prog.one(r'(^|::)validate_crit$')
    paths, ex = A.paths(f, inline=r'validate_crit::\{closure', unwind=2, allow_bound=True)
    ctx.bounds.append('validate_crit: crit lists with at most 2 entries (loop unrolled twice; %d longer-list paths cut)' % A.last_bound_hits)
    ctx.extra['crit_paths'] = len(paths)
    REG = {b'alg', b'jku', b'jwk', b'kid', b'x5u', b'x5c', b'x5t', b'typ', b'cty', b'crit'}

    def table(t):
        t = strip(t)
        if isinstance(t, tuple) and t[0] == 'agg' and t[1] == 'array':
            return {strip(x)[1] for x in t[3] if strip(x)[0] == 'const'}
        return None

    def r_crit(p):
        if p.kind != 'return':
            return 'panic ' + p.msg
        if not p.is_ok():
            return None
        if not p.took(U, 'None'):
            hc = [c for c in p.find_calls(r'has_claim$') if is_proj(c.args[0], 'unprotected') and strip(c.args[1]) == ('const', b'crit')]
            if not hc or not p.took(hc[0].ret, 'false'):
                return 'accepted although the unprotected header may carry crit'
        cr = [c for c in p.find_calls(r'JwtHeader::crit$|::crit$') if mentions(c.args, r'^protected$')]
        if p.took(P, 'None') or (cr and p.took(cr[0], 'None')):
            return None
        if not cr or not p.took(cr[0], 'Some'):
            return 'crit of the protected header not examined'
        vals = ('field', cr[0].ret, 0, 'Some')
        emp = [c for c in p.find_calls(r'is_empty$') if strip(c.args[0]) == vals]
        if not emp or not p.took(emp[0].ret, 'false'):
            return 'empty crit list accepted'
        nexts = [c for c in p.calls if re.search(r'Iterator>::next$', c.name) and p.took(c, 'Some')]
        if not nexts:
            walked = [c for c in p.calls if re.search(r'Iterator>::next$', c.name) and is_sub(('x', tuple(c.args)), cr[0].ret)]
            return None if walked else 'accepted without walking the crit list'
        for nx in nexts:
            v = ('field', nx.ret, 0, 'Some')
            cont = [c for c in p.find_calls(r'<impl \[&str\]>::contains$') if is_sub(c.args[1], v)]
            reg = [c for c in cont if (table(c.args[0]) or set()) >= REG]
            perm = [c for c in cont if table(c.args[0]) == {b'b64'}]
            if not reg or not p.took(reg[0].ret, 'false'):
                return 'crit entry not checked against the registered header parameter names'
            if not perm or not p.took(perm[0].ret, 'true'):
                return 'crit entry accepted without being an understood extension (only "b64")'
            hc = [c for c in p.find_calls(r'has_claim$') if is_sub(c.args[1], v) and p.took(c.ret, 'true')]
            if not hc:
                return 'crit entry accepted although the named parameter may be absent from the headers'
        return None
    A.require('validate_crit/protected-nonempty-understood-present', paths, r_crit, replay=REPLAY)

    # has(claim) for the names the policy depends on
    f = prog.one(r'jws::header::<impl at [^>]*>::has$')
    fields = prog.structs['JwsHeader']
    jf = prog.structs['JwtHeader']
    from execu import State
    for claim, path in ((b'b64', [fields.index('b64')]), (b'alg', [fields.index('alg')]),
                        (b'crit', [fields.index('common'), jf.index('crit')])):
        st = State()
        ex0 = None
        paths, ex = A.paths(f, inline=r'^(?!.*(BTreeMap|Map<|::get$)).*$', state=st,
                            args=[VSym(('leaf', 'self'), '&JwsHeader'), None], max_depth=8) if False else (None, None)
        A2 = Auditor(ctx, prog)
        import models
        from execu import Exec
        ex = Exec(prog, models=models.MODELLED, inline=lambda g, d: not re.search(r'BTreeMap|custom', g.name), max_depth=8)
        st = State()
        cref = ex.alloc_bytes(st, claim)
        outs = ex.run(f, [VSym(('leaf', 'self'), '&JwsHeader'), cref], st)
        t = ('deref', ('leaf', 'self'))
        for i in path:
            t = ('field', t, i, '')
        d = ex.discr_var(t)
        goals = []
        for o in outs:
            if o.kind != 'return' or not isinstance(o.val, VBool):
                raise Refuse('has(%s): outcome %s' % (claim, o.kind))
            if claim == b'crit':
                # common parameters are also looked up among the custom parameters: present => true; no custom map => equal
                cust = ex.discr_var(('field', ('deref', ('leaf', 'self')), fields.index('custom'), ''))
                goals.append(('has("crit") false although crit is set', o.st.pc + [d == 1, z3.Not(o.val.e)]))
                goals.append(('has("crit") true although neither crit nor a custom parameter is set', o.st.pc + [d == 0, cust == 0, o.val.e]))
            else:
                goals.append(('has("%s") differs from presence of the field' % claim.decode(), o.st.pc + [o.val.e != (d == 1)]))
        import vc
        v = vc.check_formulas(goals)
        for g in ex.encoded:
            ctx.functions.add(g)
        if v.status == 'unsat':
            ctx.add(Ob('JwsHeader::has("%s")=field-present' % claim.decode(), 'M', HELD, solver_s=v.secs, queries=v.queries))
        elif v.status == 'sat':
            from replay import run_replay
            res = run_replay(REPLAY)
            ctx.add(Ob('JwsHeader::has("%s")=field-present' % claim.decode(), 'M', VIOLATED if res.get('reproduced') else INCONCLUSIVE,
                       detail='%s; native: %s' % (v.model[0], res.get('detail')), replay=REPLAY))
        else:
            ctx.add(Ob('JwsHeader::has("%s")=field-present' % claim.decode(), 'M', INCONCLUSIVE, detail=v.note))


def is_sub(t, want):
    return any(s == want for s in subterms(t))


def is_proj(t, leaf):
    fp = field_path(strip(t))
    return bool(fp) and fp[0] == leaf


def header_serde_shape(ctx, prog):
    """The JOSE header types are read member by member by serde's derived routines. A custom per-field deserialiser (`deserialize_with`
    / `with`) shows up in the MIR as a helper `...::visit_map::<impl>::deserialize` nested in the derive of a type declared in a header
    file; none may exist: the policy is enforced on the *deserialised* header, so a lenient reader (e.g. `"b64": true` read as absent)
    changes which tokens the fail-closed rules see."""
    from replay import run_replay
    name = 'JwsHeader+JwtHeader/members-read-by-the-derived-deserialiser'
    helpers = [g.name for g in prog.funcs if re.search(r'(jws|jwt)/header\.rs[^>]*>::deserialize::.*visit_(map|seq)::<impl at [^>]*>::deserialize$', g.name)]
    helpers += [g.name for g in prog.funcs if re.match(r'\w+$', g.name) and re.search(r'Deserializer<.*>>::Error>', g.ret_ty or '')]
    derives = [g.name for g in prog.funcs if re.search(r'<impl at [^>]*(jws|jwt)/header\.rs[^>]*>::deserialize$', g.name)]
    if not derives:
        ctx.add(Ob(name, 'M', INCONCLUSIVE, detail='no derived Deserialize found for the header types'))
        return
    if not helpers:
        ctx.add(Ob(name, 'M', HELD, queries=len(derives), sample='%d derived Deserialize impls in the header files, no per-field deserialiser helper' % len(derives)))
        return
    rep = {'scenario': 'jws_policy'}
    res = run_replay(rep)
    ctx.add(Ob(name, 'M', VIOLATED if res.get('reproduced') else INCONCLUSIVE,
               detail='custom per-field deserialiser in a header type (%s); native: %s' % (helpers[0][-120:], res.get('detail', '')[:300]), replay=rep,
               cex={'path': helpers[0][-160:]}))


def main(ctx):
    prog, info = load(CRATES)
    ctx.extra['mir'] = info
    ctx.bounds.append('M: all paths of the validators/gates with callee results unconstrained; is_disjoint over all 2^(2n) presence patterns')
    ctx.outside += ['header parameter values', 'custom-parameter maps (is_custom_disjoint is a callee here)',
                    ]
    guarded(ctx, 'header policy audit', 'M', lambda: run(ctx, prog))
    # verification requires alg in the *protected* header: C01's obligation on JwsValidationItem::verify, re-used
    import c01
    guarded(ctx, 'alg at verification', 'M', lambda: c01.run(ctx, prog, only=r'^verify/|^JwsValidationItem::alg/'))
    guarded(ctx, 'validate_crit / has', 'M', lambda: crit_audit(ctx, prog))
    guarded(ctx, 'header serde shape', 'M', lambda: header_serde_shape(ctx, prog))
