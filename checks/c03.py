"""C03 - JWT presentation validation binds the token to the holder document (engine M binding audit)."""
import re
import z3
from core import *
from execu import Exec, State, Refuse
from values import *
from audit import *
from loader import load
from c02 import fld, is_proj_of, is_sub, is_opt_field

CRATES = ['identity_credential', 'identity_document']
SRC = ['identity_jose', 'identity_core', 'identity_did', 'identity_verification']
REPLAY = {'scenario': 'presentation_validation'}


def cmp_ok(p, left_pred, right_pred, op):
    """a PartialOrd comparison (possibly flipped) between something satisfying left_pred and right_pred took `true`"""
    flip = {'ge': 'le', 'le': 'ge', 'gt': 'lt', 'lt': 'gt'}
    for c in p.find_calls(r'PartialOrd.*>::(ge|le|gt|lt)$'):
        m = re.search(r'::(ge|le|gt|lt)$', c.name).group(1)
        a, b = c.args
        eff = m if (left_pred(a) and right_pred(b)) else (flip[m] if (right_pred(a) and left_pred(b)) else None)
        if eff == op and p.took(c.ret, 'true'):
            return True
    return False


def run(ctx, prog, only=None):
    A = Auditor(ctx, prog, only=only)
    S = prog.structs
    PVO = S['JwtPresentationValidationOptions']
    PC = S['PresentationJwtClaims']
    DJ = S['DecodedJws']
    DP = S['DecodedJwtPresentation']
    JVO = S['JwsVerificationOptions']

    f = prog.one(r'jwt_presentation_validator::<impl at [^>]*>::validate$')
    paths, ex = A.paths(f, inline=r'jwt_presentation_validator::<impl at [^>]*>::validate::\{closure')
    okp = [p for p in paths if p.kind == 'return' and p.is_ok()]
    if not okp:
        raise Refuse('validate has no Ok path')
    ctx.extra['validate_paths'] = len(paths)

    def r_val(p):
        vj = [c for c in p.find_calls(r'CoreDocument::verify_jws$') if p.took(c, 'Ok')]
        if not vj:
            return 'accepted without CoreDocument::verify_jws succeeding'
        a = vj[0].args
        if not (mentions(a[0], r'^holder$') and apps(a[1], r'Jwt::as_str$') and mentions(a[1], r'^presentation$') and
                a[2] == ('agg', 'Option', 'None', ()) and is_proj_of(a[3], 'self', [0]) and
                is_proj_of(a[4], 'options', [PVO.index('presentation_verifier_options')])):
            return 'verify_jws not called as holder.verify_jws(jwt, None, verifier, options.presentation_verifier_options)'
        dj = ('field', vj[0].ret, 0, 'Ok')
        fj = [c for c in p.find_calls(r'from_json_slice$') if p.took(c, 'Ok')]
        if not fj or not is_sub(fj[0].args[0], fld(dj, DJ.index('claims'))):
            return 'claims not parsed from the verified payload'
        claims = ('field', fj[0].ret, 0, 'Ok')
        # iss == holder document id
        fs = [c for c in p.find_calls(r'CoreDID as .*FromStr>::from_str$|CoreDID::from_str$') if p.took(c, 'Ok')]
        if not fs or not is_sub(fs[0].args[0], fld(claims, PC.index('iss'))):
            return 'iss claim not parsed as a DID'
        iss = ('field', fs[0].ret, 0, 'Ok')
        okid = False
        for c in p.find_calls(r'PartialEq.*>::(eq|ne)$'):
            xs = c.args
            if any(is_sub(x, iss) for x in xs) and any(apps(x, r'CoreDocument::id$') and mentions(x, r'^holder$') for x in xs) \
                    and p.took(c.ret, 'true' if c.name.endswith('::eq') else 'false'):
                okid = True
        if not okid:
            return 'iss not compared equal with the holder document id'
        # expiry
        out = p.payload()
        exp_f = fld(claims, PC.index('exp'))
        exp_out = out.fields[DP.index('expiration_date')]
        bound = lambda oi: (lambda t: is_opt_field(t, 'options', oi) or (strip_some(t)[0] == 'const'))   # noqa
        if p.took(exp_f, 'Some'):
            want = ex.sym_int(('field', exp_f, 0, 'Some'), 64, True).e
            fu = [c for c in p.find_calls(r'Timestamp::from_unix$') if p.took(c, 'Ok') and isinstance(c.argvals[0], VInt)
                  and z3.eq(z3.simplify(c.argvals[0].e), z3.simplify(want))]
            if not fu:
                return 'exp present but not converted to a timestamp'
            ts = ('field', fu[0].ret, 0, 'Ok')
            oi = PVO.index('earliest_expiry_date')
            if not cmp_ok(p, lambda t: is_sub(t, ts), bound(oi), 'ge'):
                return 'exp not compared >= earliest_expiry_date (inclusive)'
            opt = ('field', ('deref', ('leaf', 'options')), oi, '')
            if p.took(opt, 'Some') and not cmp_ok(p, lambda t: is_sub(t, ts), lambda t: is_opt_field(t, 'options', oi), 'ge'):
                return 'exp compared with something other than options.earliest_expiry_date'
            if not is_sub(p.term(exp_out), ts):
                return 'returned expiration date is not the signed exp'
        elif p.took(exp_f, 'None'):
            if not (isinstance(exp_out, VAgg) and exp_out.variant == 'None'):
                return 'expiration date invented'
        else:
            return 'exp presence not examined'
        # issuance
        iss_out = out.fields[DP.index('issuance_date')]
        tid = [c for c in p.find_calls(r'to_issuance_date$')]
        if tid:
            if not p.took(tid[0], 'Ok') or not is_sub(tid[0].args[0], fld(claims, PC.index('issuance_date'))):
                return 'issuance date not taken from the signed nbf/iat'
            ts = ('field', tid[0].ret, 0, 'Ok')
            oi = PVO.index('latest_issuance_date')
            if not cmp_ok(p, lambda t: is_sub(t, ts), bound(oi), 'le'):
                return 'issuance date not compared <= latest_issuance_date (inclusive)'
            opt = ('field', ('deref', ('leaf', 'options')), oi, '')
            if p.took(opt, 'Some') and not cmp_ok(p, lambda t: is_sub(t, ts), lambda t: is_opt_field(t, 'options', oi), 'le'):
                return 'issuance date compared with something other than options.latest_issuance_date'
            if not is_sub(p.term(iss_out), ts):
                return 'returned issuance date is not the signed one'
        else:
            idf = fld(claims, PC.index('issuance_date'))
            none = p.took(idf, 'None')
            if not none:
                ic = S['IssuanceDateClaims']
                both_absent = p.took(('field', ('field', idf, 0, 'Some'), ic.index('iat'), ''), 'None') and \
                    p.took(('field', ('field', idf, 0, 'Some'), ic.index('nbf'), ''), 'None')
                if not both_absent:
                    return 'nbf/iat present but issuance date not checked'
            if not (isinstance(iss_out, VAgg) and iss_out.variant == 'None'):
                return 'issuance date invented'
        tp = [c for c in p.find_calls(r'::try_into_presentation$') if p.took(c, 'Ok')]
        if not tp or strip(tp[0].args[0]) != claims:
            return 'presentation not reconstructed (with consistency check) from the parsed claims'
        if strip(p.term(out.fields[DP.index('presentation')])) != ('field', tp[0].ret, 0, 'Ok'):
            return 'returned presentation is not the reconstructed one'
        if not is_sub(p.term(out.fields[DP.index('header')]), fld(dj, DJ.index('protected'))):
            return 'returned header is not the verified protected header'
        if not is_sub(p.term(out.fields[DP.index('aud')]), fld(claims, PC.index('aud'))):
            return 'returned audience is not the signed one'
        if not is_sub(p.term(out.fields[DP.index('custom_claims')]), fld(claims, PC.index('custom'))):
            return 'returned custom claims are not the signed ones'
        return None
    A.require('validate/jws-holder-iss-dates-consistency-and-returned-values', okp, r_val, replay=REPLAY)
    A.no_panic('validate/no-panic', paths, replay=REPLAY)

    # --------------------------------------------------------------------------------------------- CoreDocument::verify_jws
    f = prog.one(r'core_document::<impl at [^>]*>::verify_jws$')
    paths, ex = A.paths(f)
    okp = [p for p in paths if p.kind == 'return' and not (isinstance(p.val, VAgg) and p.val.variant == 'Err')]
    ni, mi, si = JVO.index('nonce'), JVO.index('method_id'), JVO.index('method_scope')

    def r_vj(p):
        dc = [c for c in p.find_calls(r'decode_compact_serialization$') if p.took(c, 'Ok')]
        if not dc or not mentions(dc[0].args[1], r'^jws$') or strip(dc[0].args[2]) != ('leaf', 'detached_payload'):
            return 'token not decoded from (jws bytes, detached payload)'
        item = ('field', dc[0].ret, 0, 'Ok')
        okn = False
        opt_nonce = ('field', ('deref', ('leaf', 'options')), ni, '')
        for c in p.find_calls(r'Option<&str> as PartialEq>::(eq|ne)$'):
            sides = c.args
            hdr = any(apps(x, r'JwsValidationItem::nonce$') and is_sub(x, item) for x in sides)
            opt = any(is_opt_field(x, 'options', ni) for x in sides) or \
                (p.took(opt_nonce, 'None') and any(strip(x) == ('agg', 'Option', 'None', ()) for x in sides))
            if hdr and opt and p.took(c.ret, 'true' if c.name.endswith('::eq') else 'false'):
                okn = True
        if not okn:
            return 'header nonce not compared equal with options.nonce'
        rm = [c for c in p.find_calls(r'CoreDocument::resolve_method$') if p.took(c, 'Some')]
        if not rm or strip(rm[0].args[0]) != ('leaf', 'self') or not is_proj_of(rm[0].args[2], 'options', [si]):
            return 'method not resolved in this document within options.method_scope'
        q = rm[0].args[1]
        opt_mid = ('field', ('deref', ('leaf', 'options')), mi, '')
        if p.took(opt_mid, 'Some'):
            if not is_opt_field(q, 'options', mi):
                return 'configured method id not used for the lookup'
        elif p.took(opt_mid, 'None'):
            kid = [c for c in p.find_calls(r'JwsValidationItem::kid$') if p.took(c, 'Some')]
            if not kid or not is_sub(q, ('field', kid[0].ret, 0, 'Some')) or not is_sub(kid[0].args[0], item):
                return 'lookup query is not the token\'s kid'
        else:
            return 'options.method_id not examined'
        pk = [c for c in p.find_calls(r'try_public_key_jwk$') if p.took(c, 'Ok')]
        if not pk or not is_sub(pk[0].args[0], rm[0].ret):
            return 'public key not taken from the resolved method'
        key = ('field', pk[0].ret, 0, 'Ok')
        vf = [c for c in p.find_calls(r'JwsValidationItem::verify$')]
        if not vf or strip(vf[0].args[0]) != item or strip(vf[0].args[1]) != ('leaf', 'signature_verifier') or strip(vf[0].args[2]) != key:
            return 'signature not verified over the decoded token with the resolved key and the caller\'s verifier'
        t = strip(p.term())
        if p.is_ok():
            return None if (p.took(vf[0], 'Ok') and strip(p.term(p.payload())) == ('field', vf[0].ret, 0, 'Ok')) else 'success not backed by verify'
        # result is map_err(verify(..)): opaque, acceptable when it wraps the verify result
        return None if is_sub(t, vf[0].ret) else 'result does not derive from the verification'
    A.require('verify_jws/nonce-kid-scope-key-of-this-document', okp, r_vj, replay=[REPLAY, {'scenario': 'storage_signing'}])
    A.no_panic('verify_jws/no-panic', paths, replay=REPLAY)
    # the configured method id reaches resolution as a typed DIDUrl: the query built from it carries the DID, not only the fragment
    if only is None:
        import c04
        c04.run(ctx, prog, only=r'^DIDUrlQuery::|^resolve_method/|^resolve_method_inner/|^resolve_method_ref/')
    import c07
    c07.presentation_consistency(A, prog, {'scenario': 'presentation_validation', 'cex': {'only': '[consistency]'}})


def strip_some(t):
    t = strip(t)
    while isinstance(t, tuple) and t[0] == 'agg' and t[2] == 'Some' and len(t[3]) == 1:
        t = strip(t[3][0])
    return t


def main(ctx):
    prog, info = load(CRATES, src_only=SRC)
    ctx.extra['mir'] = info
    ctx.bounds.append('all acyclic paths of JwtPresentationValidator::validate (closures inlined) and CoreDocument::verify_jws, callee results unconstrained')
    ctx.outside += ['JSON parsing of claims', 'cryptographic verification', 
                    'CoreDocument::resolve_method / DIDUrlQuery::matches (C04)', 'credentials nested in the presentation']
    guarded(ctx, 'presentation validation audit', 'M', lambda: run(ctx, prog))
    import c07
    guarded(ctx, 'presentation claims serde shape', 'M', lambda: c07.claims_serde_shape(ctx, prog, 'presentation'))
