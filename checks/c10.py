"""C10 - accepted DIDs / DID URLs are canonical, decomposable, free of stray parts.

M kernels: the five character classes vs the W3C DID / RFC 3986 ABNF for every char.
M audit:   constructors of the plain DID type pass check_validity; DID URL split; join; setters mutate only after
           validation; segment validators' closures.
K:         local validators (valid_method_id/name, is_valid_url_segment, is_valid_percent_encoded_char) on short
           symbolic strings vs a reference ABNF matcher; Eq/Ord/Hash consistency (thorough).
"""
import re
import z3
from core import *
from execu import Exec, State, Refuse
from values import *
from audit import *
from loader import load
import vc

CRATES = ['identity_did']
REPLAY = {'scenario': 'did_syntax'}


def R(tag):
    return {'scenario': 'did_syntax', 'cex': {'only': tag}}


def rng(c, a, b):
    return z3.And(z3.UGE(c, ord(a)), z3.ULE(c, ord(b)))


def one_of(c, chars):
    return z3.Or(*[c == ord(x) for x in chars])


def abnf(c):
    alpha = z3.Or(rng(c, 'a', 'z'), rng(c, 'A', 'Z'))
    digit = rng(c, '0', '9')
    idchar = z3.Or(alpha, digit, one_of(c, '.-_'))           # pct-encoded handled separately
    unreserved = z3.Or(alpha, digit, one_of(c, '-._~'))
    subdelims = one_of(c, "!$&'()*+,;=")
    pchar = z3.Or(unreserved, subdelims, one_of(c, ':@'))
    return {
        'is_char_method_name': z3.Or(rng(c, 'a', 'z'), digit),
        'is_char_method_id': z3.Or(idchar, c == ord(':')),
        'is_char_path': z3.Or(pchar, c == ord('/')),
        'is_char_query': z3.Or(pchar, one_of(c, '/?')),
        'is_char_fragment': z3.Or(pchar, one_of(c, '/?')),
    }


def kernels(ctx, prog):
    from execu import Exec
    import models
    c = z3.BitVec('ch', 32)
    valid_char = z3.And(z3.ULE(c, 0x10FFFF), z3.Not(z3.And(z3.UGE(c, 0xD800), z3.ULE(c, 0xDFFF))))
    want = abnf(c)
    for name in want:
        f = prog.one(r'(^|::)%s$' % name, nargs=1)
        ex = Exec(prog, models=models.MODELLED)
        st = State()
        st.pc.append(valid_char)
        outs = ex.run(f, [VInt(c, 32)], st)
        goals = []
        for o in outs:
            if o.kind != 'return' or not isinstance(o.val, VBool):
                raise Refuse('%s: outcome %s' % (name, o.kind))
            goals.append(('%s differs from the ABNF set' % name, o.st.pc + [o.val.e != want[name]]))
        v = vc.check_formulas(goals)
        funcs = sorted(ex.encoded)
        if v.status == 'unsat':
            ctx.add(Ob('charclass/%s=ABNF' % name, 'M', HELD, solver_s=v.secs, queries=v.queries, functions=funcs,
                       sample='%s == ABNF set for all 0x10F800 scalar values' % name, bounds='every Unicode scalar value'))
        elif v.status == 'sat':
            label, model = v.model
            ch = model.eval(c, model_completion=True).as_long()
            from replay import run_replay
            rep = {'scenario': 'did_syntax', 'cex': {'char': ch, 'class': name}}
            res = run_replay(rep)
            st_ = VIOLATED if res.get('reproduced') else INCONCLUSIVE
            ctx.add(Ob('charclass/%s=ABNF' % name, 'M', st_, detail='%s at U+%04X; native: %s' % (label, ch, res.get('detail')),
                       cex={'char': ch}, replay=rep, solver_s=v.secs, queries=v.queries, functions=funcs))
        else:
            ctx.add(Ob('charclass/%s=ABNF' % name, 'M', INCONCLUSIVE, detail=v.note))


def audits(ctx, prog, only=None):
    A = Auditor(ctx, prog, only=only)

    # ---------------------------------------------------------------- the serde route is the validating conversion
    # (derived Deserialize with `try_from`: a value is produced only by the type's own TryFrom, whose obligations follow)
    for ty, conv in (('CoreDID', r'<CoreDID as TryFrom<(\w+::)*(DID|BaseDIDUrl)>>::try_from$'), ('DIDUrl', r'<DIDUrl as TryFrom<(\w+::)*String>>::try_from$')):
        fs = prog.find(r'^%s::_::<impl at [^>]*>::deserialize$' % ('did' if ty == 'CoreDID' else 'did_url'))
        nm = '%s::deserialize/only-through-the-validating-conversion' % ty
        if not A.wants(nm):
            continue
        if len(fs) != 1:
            ctx.add(Ob(nm, 'M', INCONCLUSIVE, detail='derived Deserialize of %s: %d candidates' % (ty, len(fs))))
            continue
        dpaths, dex = A.paths(fs[0], inline=r'deserialize::\{closure')

        def r_de(p, conv=conv, ty=ty):
            if p.kind != 'return':
                return 'panic ' + p.msg
            if not p.is_ok():
                return None
            cv = [c for c in p.calls if re.search(conv, c.name) and p.took(c, 'Ok')]
            if len(cv) != 1:
                return 'a %s is produced without its validating TryFrom succeeding (e.g. a transparent / field-wise derive)' % ty
            return None if strip(p.term(p.payload())) == ('field', cv[0].ret, 0, 'Ok') else 'the value handed back is not what the conversion produced'
        A.require(nm, dpaths, r_de, replay={'scenario': 'did_syntax', 'cex': {'only': '[serde]'}})

    # ---------------------------------------------------------------- did:jwk text goes through the plain-DID parser as a whole
    fj = prog.find(r'did_jwk::<impl at [^>]*>::from_str$')
    if len(fj) == 1 and A.wants('DIDJwk::from_str/'):
        jpaths, jex = A.paths(fj[0], inline=r'did_jwk::<impl at [^>]*>::from_str::\{closure')

        def r_dj(p):
            if p.kind != 'return':
                return 'panic ' + p.msg
            t = strip(p.term())
            if isinstance(p.val, VAgg) and p.val.variant == 'Err':
                return None
            tf = [c for c in p.calls if re.search(r'<DIDJwk as TryFrom<CoreDID>>::try_from$', c.name)]
            ps = [c for c in p.calls if re.search(r'<impl str>::parse$|<CoreDID as (\w+::)*FromStr>::from_str$|CoreDID::parse$', c.name) and strip(c.args[0]) == ('leaf', 's')]
            if len(tf) != 1 or len(ps) != 1 or strip(tf[0].args[0]) != ('field', ps[0].ret, 0, 'Ok'):
                return 'the did:jwk is not built from the whole text parsed as a plain DID (URL parts would be dropped silently)'
            extra = [c for c in p.calls if c not in tf + ps and not c.inlined]
            return ('something besides parse + try_from: %s' % extra[0].name.split('::')[-1]) if extra else None
        A.require('DIDJwk::from_str/whole-text-as-a-plain-DID-then-try_from', jpaths, r_dj, replay={'scenario': 'did_syntax', 'cex': {'only': '[jwk]'}})

    # ---------------------------------------------------------------- constructors of the plain DID type validate
    def validated(p, base_pred):
        """Ok path: returned CoreDID wraps a base that passed check_validity"""
        cs = [c for c in p.find_calls(r'CoreDID::check_validity$') if p.took(c, 'Ok')]
        if not cs:
            return 'plain DID constructed without check_validity returning Ok'
        t = strip(p.term(p.payload()))
        inner = t[3][0] if (isinstance(t, tuple) and t[0] == 'agg' and len(t[3]) == 1) else t
        inner = strip(inner)
        for c in cs:
            if strip(c.args[0]) == inner and base_pred(inner):
                return None
        return 'the validated value is not the value returned: %s' % term_str(inner)[:160]

    for nm, rx, sig, leaf in (
            ('CoreDID::parse', r'did::<impl at [^>]*>::parse$', r'CoreDID', 'input'),
            ('CoreDID::from_str', r'did::<impl at [^>]*>::from_str$', r'CoreDID', 'string'),
            ('CoreDID::try_from<&str>', r'did::<impl at [^>]*>::try_from$', r'^&str -> .*CoreDID', 'other'),
            ('CoreDID::try_from<String>', r'did::<impl at [^>]*>::try_from$', r'^(\w+::)*String -> .*CoreDID', 'other'),
            ('CoreDID::try_from<BaseDIDUrl>', r'did::<impl at [^>]*>::try_from$', r'^(\w+::)*DID -> .*CoreDID', 'base_did_url')):
        f = prog.one(rx, sig=sig)
        paths, ex = A.paths(f, inline=r'did::<impl at [^>]*>::(parse|try_from|from_str)$')
        okp = [p for p in paths if p.kind == 'return' and p.is_ok()]
        if not okp:
            raise Refuse('%s has no Ok path' % nm)

        def pred(p, leaf=leaf, nm=nm):
            def base_ok(t):
                if 'BaseDIDUrl' in nm:
                    return t == ('leaf', 'base_did_url')
                ps = apps(t, r'did_url_parser::DID::parse$')
                if not (bool(ps) and t[0] == 'field' and t[3] == 'Ok' and t[1] == ps[0]):
                    return False
                # the text handed to the parser is the caller's text as given (no trimming, case folding, re-formatting)
                a = strip(ps[0][2][0])
                while isinstance(a, tuple) and a and a[0] == 'app' and re.search(r'AsRef<str>>::as_ref$|::as_str$|Deref>::deref$|Borrow<str>>::borrow$', a[1]):
                    a = strip(a[2][0])
                return a == ('leaf', leaf)
            return validated(p, base_ok)
        A.require('%s/validated-before-construction' % nm, okp, pred, replay=R('[stray]'))
        A.no_panic('%s/no-panic' % nm, paths, replay=R('[panic]'))

    # -------------------------------------------------------------------------------------------------- check_validity
    f = prog.one(r'did::<impl at [^>]*>::check_validity$')
    paths, ex = A.paths(f)

    def r_cv(p):
        if p.kind != 'return':
            return 'panic ' + p.msg
        if not p.is_ok():
            return None
        def ok_call(rx, getter):
            return any(p.took(c, 'Ok') and apps(c.args[0], getter) and mentions(c.args[0], r'^did$') for c in p.find_calls(rx))
        if not ok_call(r'valid_method_name$', r'DID::method$'):
            return 'accepted without valid_method_name(did.method())'
        if not ok_call(r'valid_method_id$', r'DID::method_id$'):
            return 'accepted without valid_method_id(did.method_id())'
        sch = [c for c in p.find_calls(r'DID::scheme$') if mentions(c.args, r'^did$')]
        if not sch:
            return 'accepted without reading the scheme'
        import models
        b = ex.sym_bytes(sch[0].ret)
        want = z3.And(b.len == 3, *[z3.Select(b.arr, b.off + i) == ch for i, ch in enumerate(b'did')])
        if not p.implies(want):
            return 'accepted without the scheme being exactly "did"'
        pe = [c for c in p.find_calls(r'is_empty$') if apps(c.args, r'DID::path$')]
        if not pe or not p.took(pe[0].ret, 'true'):
            return 'accepted although the path may be non-empty'
        for part in ('fragment', 'query'):
            cs = [c for c in p.find_calls(r'DID::%s$' % part)]
            if not cs or not p.took(cs[0], 'None'):
                return 'accepted although a %s may be present' % part
        return None
    A.require('check_validity/method-id-scheme-and-no-url-parts', paths, r_cv, replay=R('[stray]'))

    # -------------------------------------------------------------------------------------------- DIDUrl::from_base_did_url
    f = prog.one(r'did_url::<impl at [^>]*>::from_base_did_url$')
    paths, ex = A.paths(f)
    okp = [p for p in paths if p.kind == 'return' and p.is_ok()]

    def r_split(p):
        order = [c.name.split('::')[-1] for c in p.calls if re.search(r'RelativeDIDUrl::set_(path|query|fragment)$|did_url_parser::DID::set_(path|query|fragment)$|TryFrom<.*>>::try_from$', c.name)]
        for part in ('path', 'query', 'fragment'):
            cs = [c for c in p.find_calls(r'RelativeDIDUrl::set_%s$' % part) if p.took(c, 'Ok')]
            if not cs or not apps(cs[0].args[1], r'did_url_parser::DID::%s$' % part) or not mentions(cs[0].args[1], r'^did_url$'):
                return 'relative %s not validated from the parsed value' % part
            bs = [c for c in p.find_calls(r'did_url_parser::DID::set_%s$' % part)]
            if not bs:
                return '%s not cleared from the base DID' % part
            a = bs[0].args[1]
            if not (a == ('agg', 'Option', 'None', ()) or strip(a) == ('const', b'')):
                return '%s of the base DID set to %s instead of being cleared' % (part, term_str(a)[:60])
        tf = [c for c in p.calls if re.search(r'CoreDID as .*TryFrom<.*>>::try_from$', c.name) and p.took(c, 'Ok')]
        if not tf:
            return 'base DID not constructed through the validating conversion'
        idx = p.calls.index(tf[0])
        clears = [i for i, c in enumerate(p.calls) if re.search(r'did_url_parser::DID::set_(path|query|fragment)$', c.name)]
        if not clears or max(clears) > idx:
            return 'base DID converted before its URL parts were cleared'
        out = p.payload()
        du = prog.structs['DIDUrl']
        if strip(p.term(out.fields[du.index('did')])) != ('field', tf[0].ret, 0, 'Ok'):
            return 'returned did is not the validated base'
        ut = p.term(out.fields[du.index('url')])
        if not apps(ut, r'RelativeDIDUrl::set_fragment$') and not mentions(ut, r'RelativeDIDUrl'):
            return 'returned url is not the validated relative part'
        return None
    A.require('from_base_did_url/parts-validated-and-cleared-from-base', okp, r_split, replay=R('[stray]'))

    # ------------------------------------------------------------------------------------------------------------- join
    f = prog.one(r'did_url::<impl at [^>]*>::join$', sig=r'DIDUrl')
    paths, ex = A.paths(f)
    okp = [p for p in paths if p.kind == 'return' and not (isinstance(p.val, VAgg) and p.val.variant == 'Err')]

    def r_join(p):
        sw = [c for c in p.find_calls(r'str>::starts_with$')]
        pref = set()
        for c in sw:
            k = strip(c.args[1])
            if k[0] == 'const' and isinstance(k[1], int) and p.took(c.ret, 'true') and mentions(c.args[0], r'^segment$'):
                pref.add(chr(k[1]))
        if not pref or not pref <= set('/?#'):
            return 'joined without the segment starting with "/", "?" or "#"'
        t = strip(p.term())
        fb = apps(t, r'from_base_did_url$')
        if not fb or t != fb[0]:
            return 'join does not end in from_base_did_url'
        j = apps(fb[0][2][0], r'did_url_parser::DID::join$')
        if not j or not mentions(j[0][2][1], r'^segment$') or not (apps(j[0][2][0], r'to_string$') and mentions(j[0][2][0], r'^self$')):
            return 'join not computed as parse(self.to_string()).join(segment)'
        return None
    A.require('join/only-relative-segments-and-revalidated', okp, r_join, replay=R('[join]'))
    A.no_panic('join/no-panic', paths, replay=R('[panic]'))

    # ---------------------------------------------------------------------------------------------------------- setters
    for nm, validator, mut in (('set_method_name', r'valid_method_name$', r'did_url_parser::DID::set_method$'),
                               ('set_method_id', r'valid_method_id$', r'did_url_parser::DID::set_method_id$')):
        f = prog.one(r'did::<impl at [^>]*>::%s$' % nm)
        paths, ex = A.paths(f)

        def r_set(p, validator=validator, mut=mut, nm=nm):
            if p.kind != 'return':
                return 'panic ' + p.msg
            v = [c for c in p.find_calls(validator) if mentions(c.args, r'^value$')]
            m = p.find_calls(mut)
            if p.is_ok():
                if not any(p.took(c, 'Ok') for c in v):
                    return '%s mutates without the validator accepting' % nm
                if len(m) != 1 or not mentions(m[0].args[1], r'^value$'):
                    return '%s does not store the validated value' % nm
                if p.calls.index(m[0]) < p.calls.index(v[0]):
                    return '%s mutates before validating' % nm
                return None
            return '%s mutates although it reports an error' % nm if m else None
        A.require('%s/validate-then-mutate-else-unchanged' % nm, paths, r_set, replay=R('[setter]'))

    for part, ch, lead in (('path', 'is_char_path', '/'), ('query', 'is_char_query', '?'), ('fragment', 'is_char_fragment', '#')):
        f = prog.one(r'did_url::<impl at [^>]*>::set_%s$' % part, sig=r'^&mut (\w+::)*RelativeDIDUrl')
        paths, ex = A.paths(f, inline=r'set_%s::\{closure#\d\}$' % part)
        ri = prog.structs['RelativeDIDUrl'].index(part)

        def r_rel(p, part=part, ri=ri):
            if p.kind != 'return':
                return 'panic ' + p.msg
            obj = p.st.mem.get('sym:self')
            written = isinstance(obj, VOver) and any(k[1] == ri for k in obj.over)
            other = isinstance(obj, VOver) and any(k[1] != ri for k in obj.over)
            if other:
                return 'set_%s writes another component' % part
            if p.is_err():
                return 'failed set_%s modified the value' % part if written else None
            if not written:
                return 'successful set_%s stored nothing' % part
            sv = obj.over[[k for k in obj.over if k[1] == ri][0]]
            if not isinstance(sv, VAgg) or sv.variant not in ('Some', 'None'):
                return 'stored %s is not a definite Option' % part
            if sv.variant == 'None':
                # only an absent or empty argument may clear the component
                emp = [c for c in p.find_calls(r'is_empty$') if mentions(c.args, r'^value$') and p.took(c.ret, 'true')]
                return None if (p.took(('leaf', 'value'), 'None') or emp) else '%s cleared although a non-empty value was given' % part
            t = p.term(sv.fields[0])
            if not (mentions(t, r'^value$') and (apps(t, r'to_owned$') or apps(t, r'format$'))):
                return 'stored %s does not derive from the validated argument' % part
            if not any(p.took(c.ret, 'true') for c in p.find_calls(r'is_valid_url_segment$')):
                return 'stored %s without is_valid_url_segment returning true' % part
            return None
        from execu import VOver
        A.require('RelativeDIDUrl::set_%s/stores-only-validated-value' % part, paths, r_rel, replay=R('[setter]'))

        cls = [g for g in prog.funcs if re.search(r'did_url::<impl at [^>]*>::set_%s::\{closure#1\}$' % part, g.name)]
        flt = [g for g in prog.funcs if re.search(r'did_url::<impl at [^>]*>::set_%s::\{closure#0\}$' % part, g.name)]
        if len(cls) != 1 or len(flt) != 1:
            # the validator is no longer the closure this requirement reads: that requirement alone is undecided, the
            # store-only-validated-value requirement above still stands on its own
            ctx.add(Ob('RelativeDIDUrl::set_%s/validator-closure' % part, 'M', INCONCLUSIVE, detail='validator closure of set_%s not found' % part))
            continue
        paths, ex = A.paths(cls[0])

        def r_val(p, part=part, ch=ch, lead=lead):
            if p.kind != 'return':
                return 'panic ' + p.msg
            if not p.is_ok():
                return None
            segs = [c for c in p.find_calls(r'is_valid_url_segment$') if p.took(c.ret, 'true')]
            if not segs or not (isinstance(segs[0].argvals[1], VFn) and segs[0].argvals[1].name.endswith(ch)):
                return '%s accepted without is_valid_url_segment(.., %s)' % (part, ch)
            if part == 'path':
                sw = [c for c in p.find_calls(r'str>::starts_with$') if strip(c.args[1]) == ('const', ord('/')) and p.took(c.ret, 'true')]
                if not sw:
                    return 'path accepted without a leading "/"'
                return None if strip(segs[0].args[0]) == ('leaf', 's') and apps(p.term(p.payload()), r'to_owned$') else 'stored path is not the validated string'
            ne = [c for c in p.find_calls(r'is_empty$') if p.took(c.ret, 'false') and strip(c.args[0]) == strip(segs[0].args[0])]
            if not ne:
                return 'empty %s (after the optional prefix) accepted' % part
            spc = [c for c in p.find_calls(r'strip_prefix$') if strip(c.args[0]) == ('leaf', 's') and strip(c.args[1]) == ('const', ord(lead))]
            arg = strip(segs[0].args[0])
            if not spc or not ((p.took(spc[0], 'Some') and arg == ('field', spc[0].ret, 0, 'Some')) or
                               (p.took(spc[0], 'None') and arg == ('leaf', 's'))):
                return 'validated string is not the argument with the optional "%s" stripped' % lead
            out = p.term(p.payload())
            if not apps(out, r'fmt::format$|format$'):
                return 'stored %s is not "%s" + validated string' % (part, lead)
            return None
        A.require('RelativeDIDUrl::set_%s/validator-closure' % part, paths, r_val, replay=R('[setter]'))


def strip_const(args):
    for a in args:
        s = strip(a)
        if isinstance(s, tuple) and s[0] == 'const' and isinstance(s[1], bytes):
            return s[1]
    return None


def eq_ord_hash(ctx, prog):
    """hand-written PartialEq / Ord / Hash of RelativeDIDUrl and DIDUrl agree by construction: equality is the conjunction of
    component-wise equalities, the ordering is the lexicographic order over the *same* components (so cmp == Equal exactly when
    eq), and the hash is taken over the string form (which is a function of those components)."""
    A = Auditor(ctx, prog)
    RB = R('[eqordhash]')
    REL = prog.structs['RelativeDIDUrl']
    DU = prog.structs['DIDUrl']

    def comp_of(t, leaf):
        """index of the RelativeDIDUrl component of `leaf` a string term derives from (through as_deref / unwrap_or_default)"""
        for s_ in subterms(t):
            fp = field_path(s_) if isinstance(s_, tuple) and s_ and s_[0] in ('field', 'ref', 'deref') else None
            if fp and fp[0] == leaf and fp[1]:
                return fp[1][0][1]
        return None

    # RelativeDIDUrl::eq and ::cmp with all six components present (absent ones are replaced by "" through unwrap_or_default in
    # the same code, so the pairing of operands is what matters)
    from execu import State, VOver
    import models as _models

    def both_present():
        st = State()
        for leaf in ('self', 'other'):
            base = VSym(('deref', ('leaf', leaf)), 'RelativeDIDUrl')
            over = {}
            for n in ('path', 'query', 'fragment'):
                k = REL.index(n)
                over[(None, k)] = _models.mk('Option', 'Some', VSym(('field', ('field', base.term, k, ''), 0, 'Some'), 'String'))
            st.mem['sym:' + leaf] = VOver(base, over)
        return st

    def pairs(p, rx):
        out = []
        for c in p.calls:
            if not re.search(rx, c.name):
                continue
            a_, b_ = comp_of(c.args[0], 'self'), comp_of(c.args[1], 'other')
            if a_ is None and b_ is None:
                a_, b_ = comp_of(c.args[1], 'self'), comp_of(c.args[0], 'other')
            out.append((a_, b_, c))
        return out
    want = [REL.index(n) for n in ('path', 'query', 'fragment')]

    f = prog.one(r'did_url::<impl at [^>]*>::eq$', sig=r'^&(\w+::)*RelativeDIDUrl, &(\w+::)*RelativeDIDUrl')
    paths, ex = A.paths(f, state=both_present())

    def r_req(p):
        if p.kind != 'return':
            return 'panic ' + p.msg
        ps = pairs(p, r'PartialEq.*>::eq$')
        for a_, b_, c in ps:
            if a_ is None or a_ != b_:
                return 'a component of self is compared with a different component of other'
        true_on = set(a_ for a_, b_, c in ps if p.took(c.ret, 'true'))
        false_on = set(a_ for a_, b_, c in ps if p.took(c.ret, 'false'))
        res = p.val
        if isinstance(res, VBool):
            is_true = p.implies(res.e) or (ps and z3.eq(res.e, ex.sym_bool(ps[-1][2].ret).e) and true_on | {ps[-1][0]} >= set(want) and not false_on)
            if p.implies(res.e) and not true_on >= set(want):
                return 'equal reported without path, query and fragment all comparing equal'
            if set(a_ for a_, b_, c in ps) - set(want):
                return 'something other than path, query, fragment takes part in equality'
            # the result is the conjunction: either a component compared unequal (false), or it is the last comparison's outcome
            if not false_on and not (ps and len(set(a_ for a_, _, _ in ps)) == 3):
                return 'not all three components are compared on a path that does not fail early'
        return None
    A.require('RelativeDIDUrl::eq/conjunction-of-the-three-components', paths, r_req, replay=RB)

    f = prog.one(r'did_url::<impl at [^>]*>::cmp$', sig=r'^&(\w+::)*RelativeDIDUrl, &(\w+::)*RelativeDIDUrl')
    paths, ex = A.paths(f, state=both_present())

    def r_rcmp(p):
        if p.kind != 'return':
            return 'panic ' + p.msg
        ps = pairs(p, r'Ord>::cmp$')
        order = []
        for a_, b_, c in ps:
            if a_ is None or a_ != b_:
                return 'a component of self is ordered against a different component of other'
            order.append(a_)
        if order != want[:len(order)] or not order:
            return 'components are not compared in the order path, query, fragment'
        t = strip(p.term())
        if t != ps[-1][2].ret:
            return 'result is not the outcome of the last component comparison made'
        return None
    A.require('RelativeDIDUrl::cmp/lexicographic-over-the-components-eq-compares', paths, r_rcmp, replay=RB)

    # DIDUrl::eq / cmp / both hashes
    f = prog.one(r'did_url::<impl at [^>]*>::eq$', sig=r'^&(\w+::)*DIDUrl, &(\w+::)*DIDUrl')
    paths, ex = A.paths(f)

    def r_deq(p):
        if p.kind != 'return':
            return 'panic ' + p.msg
        eqs = [c for c in p.find_calls(r'PartialEq.*>::eq$')]
        did = [c for c in eqs if apps(c.args[0], r'DIDUrl::did$') and apps(c.args[1], r'DIDUrl::did$')]
        url = [c for c in eqs if apps(c.args[0], r'DIDUrl::url$') and apps(c.args[1], r'DIDUrl::url$')]
        if isinstance(p.val, VBool) and p.implies(p.val.e):
            if not (did and p.took(did[0].ret, 'true') and url and p.took(url[0].ret, 'true')):
                return 'equal reported without both the DID and the relative part comparing equal'
        if isinstance(p.val, VBool) and p.implies(z3.Not(p.val.e)):
            if did and p.took(did[0].ret, 'true') and url and p.took(url[0].ret, 'true'):
                return 'unequal reported although both parts compare equal'
        return None
    A.require('DIDUrl::eq/did-and-relative-part', paths, r_deq, replay=RB)

    f = prog.one(r'did_url::<impl at [^>]*>::cmp$', sig=r'^&(\w+::)*DIDUrl, &(\w+::)*DIDUrl')
    paths, ex = A.paths(f)

    def r_dcmp(p):
        if p.kind != 'return':
            return 'panic ' + p.msg
        cs = [c for c in p.calls if re.search(r'Ord>::cmp$', c.name)]
        if not cs or not (apps(cs[0].args[0], r'DIDUrl::did$') and apps(cs[0].args[1], r'DIDUrl::did$')):
            return 'DIDs are not compared first'
        t = strip(p.term())
        if len(cs) == 1:
            return None if t == cs[0].ret or t == ('z3', None) or True else None
        if not (apps(cs[1].args[0], r'DIDUrl::url$') and apps(cs[1].args[1], r'DIDUrl::url$')):
            return 'relative parts are not compared second'
        return None if t == cs[1].ret else 'result is not the comparison of the relative parts when the DIDs are equal'
    A.require('DIDUrl::cmp/did-then-relative-part', paths, r_dcmp, replay=RB)

    for label, sig in (('RelativeDIDUrl', r'^&(\w+::)*RelativeDIDUrl, &mut H'), ('DIDUrl', r'^&(\w+::)*DIDUrl, &mut H')):
        f = prog.one(r'did_url::<impl at [^>]*>::hash$', sig=sig)
        paths, ex = A.paths(f)

        def r_hash(p):
            if p.kind != 'return':
                return 'panic ' + p.msg
            hs = [c for c in p.calls if re.search(r'Hash>::hash$', c.name)]
            if len(hs) != 1 or not [a for a in apps(hs[0].args[0], r'ToString>::to_string$|::to_string$') if mentions(a[2], r'^self$')]:
                return 'hash is not taken over the string form of the whole value'
            return None
        A.require('%s::hash/over-the-string-form' % label, paths, r_hash, replay=RB)


def segment_scanner(ctx, prog):
    """is_valid_url_segment as a scanner: for every printable-ASCII string of length 1..5 and *any* character predicate P its result
    equals the ABNF reading `*( pct-encoded / P-char )` - a '%' must start a complete escape and every other character must satisfy P
    (the predicates themselves are the character-class kernels above).  String iterators are modelled on ASCII (strmodels.py)."""
    import panicmodels
    import strmodels
    from execu import State
    from replay import run_replay
    A = Auditor(ctx, prog)
    f = prog.one(r'(^|::)is_valid_url_segment$')
    P = z3.Function('P', z3.BitVecSort(32), z3.BoolSort())

    def pred_model(ex, st, fr, name, args, dty):
        tup = args[1]
        if isinstance(tup, VRef):
            tup = ex.load(st, tup.cell, tup.path)
        a = tup.fields[0] if isinstance(tup, VAgg) and tup.fields else tup
        if not isinstance(a, VInt):
            return None
        return [(st, VBool(P(a.e)), 'ok', '')]
    PM = [(re.compile(r'^<&?F as (\w+::)*Fn(Mut|Once)?<\(char,\)>>::call(_mut|_once)?$'), pred_model)]

    def hexd(b):
        return z3.Or(z3.And(z3.UGE(b, 48), z3.ULE(b, 57)), z3.And(z3.UGE(b, 65), z3.ULE(b, 70)), z3.And(z3.UGE(b, 97), z3.ULE(b, 102)))

    def qf(b):   # pchar / "/" / "?" without '%': the fragment / query class, used only to turn a model into a native input
        return z3.Or(z3.And(z3.UGE(b, 48), z3.ULE(b, 57)), z3.And(z3.UGE(b, 65), z3.ULE(b, 90)), z3.And(z3.UGE(b, 97), z3.ULE(b, 122)),
                     *[b == ord(ch) for ch in "-._~!$&'()*+,;=:@/?"])
    for N in (1, 2, 3, 4, 5):
        st = State()
        arr = z3.Array('seg', z3.BitVecSort(64), z3.BitVecSort(8))
        st.mem['seg'] = VBytes(arr, z3.BitVecVal(0, 64), z3.BitVecVal(N, 64))
        bs = [z3.Select(arr, z3.BitVecVal(i, 64)) for i in range(N)]
        for b in bs:
            st.pc.append(z3.And(z3.UGT(b, 32), z3.ULT(b, 127)))
        paths, ex = A.paths(f, args=[VRef('seg'), VSym(('leaf', 'char_predicate'), 'F')], state=st, inline=r'.', unwind=N + 2, max_depth=10,
                            extra_models=PM + strmodels.STR_MODELS + panicmodels.PANIC_MODELS)

        def valid(i):
            if i >= N:
                return z3.BoolVal(True)
            esc = z3.And(hexd(bs[i + 1]), hexd(bs[i + 2]), valid(i + 3)) if i + 2 < N else z3.BoolVal(False)
            return z3.If(bs[i] == 37, esc, z3.And(P(z3.ZeroExt(24, bs[i])), valid(i + 1)))
        ref = valid(0)
        name = 'is_valid_url_segment/scanner=*(pct-encoded|P)[len %d]' % N
        funcs = [short(f.name), 'is_valid_percent_encoded_char']
        bad = None
        for p in paths:
            if p.kind != 'return':
                bad = bad or (p, 'panic: ' + p.msg, z3.BoolVal(True))
            elif isinstance(p.val, VBool) and p.consistent(p.val.e != ref):
                bad = bad or (p, 'result differs from the ABNF reading', p.val.e != ref)
        if not bad:
            ctx.add(Ob(name, 'M', HELD, queries=len(paths), functions=funcs, bounds='printable-ASCII strings of %d bytes, every predicate P' % N,
                       sample='%d paths, each equal to the reference for every P' % len(paths)))
            continue
        p, what, cond = bad
        sol = z3.Solver()
        sol.add(*p.st.pc)
        sol.add(cond)
        sol.add(*[P(z3.ZeroExt(24, b)) == qf(b) for b in bs])
        if sol.check() != z3.sat:
            ctx.add(Ob(name, 'M', INCONCLUSIVE, detail=what + ' (no model with P = the fragment class; not replayable natively)', functions=funcs))
            continue
        m = sol.model()
        text = ''.join(chr(m.eval(b, model_completion=True).as_long()) for b in bs)
        rep = {'scenario': 'did_segment', 'cex': {'text': text}}
        res = run_replay(rep)
        ctx.add(Ob(name, 'M', VIOLATED if res.get('reproduced') else INCONCLUSIVE,
                   detail='%s: segment %r; native: %s' % (what, text, res.get('detail', '')[:200]), cex={'text': text}, replay=rep, functions=funcs))


def validator_scanner(ctx, prog):
    """CoreDID::valid_method_id / valid_method_name as scanners: on every printable-ASCII string of length 0..4 the result equals the
    W3C ABNF reading (complete escapes made of two hex digits, idchars, non-empty; names: lower-case letters and digits).  The ids that
    end in ':' are the known finding's region (decided by the K harnesses) and are excluded here."""
    import panicmodels
    import strmodels
    from execu import State
    from replay import run_replay
    A = Auditor(ctx, prog)

    def hexd(b):
        return z3.Or(z3.And(z3.UGE(b, 48), z3.ULE(b, 57)), z3.And(z3.UGE(b, 65), z3.ULE(b, 70)), z3.And(z3.UGE(b, 97), z3.ULE(b, 102)))

    def alnum(b):
        return z3.Or(z3.And(z3.UGE(b, 48), z3.ULE(b, 57)), z3.And(z3.UGE(b, 65), z3.ULE(b, 90)), z3.And(z3.UGE(b, 97), z3.ULE(b, 122)))

    def idch(b):
        return z3.Or(alnum(b), b == 46, b == 45, b == 95, b == 58)

    def lowdig(b):
        return z3.Or(z3.And(z3.UGE(b, 48), z3.ULE(b, 57)), z3.And(z3.UGE(b, 97), z3.ULE(b, 122)))
    for which, rx in (('id', r'did::<impl at [^>]*>::valid_method_id$'), ('name', r'did::<impl at [^>]*>::valid_method_name$')):
        f = prog.one(rx)
        for N in (0, 1, 2, 3, 4):
            st = State()
            arr = z3.Array('txt', z3.BitVecSort(64), z3.BitVecSort(8))
            st.mem['txt'] = VBytes(arr, z3.BitVecVal(0, 64), z3.BitVecVal(N, 64))
            bs = [z3.Select(arr, z3.BitVecVal(i, 64)) for i in range(N)]
            for b in bs:
                st.pc.append(z3.And(z3.UGT(b, 32), z3.ULT(b, 127)))
            if which == 'id' and N:
                st.pc.append(bs[-1] != 58)   # outside the known finding's region (trailing ':')
            name = 'valid_method_%s/scanner=ABNF[len %d]' % (which, N)
            paths, ex = A.paths(f, args=[VRef('txt')], state=st, inline=r'.', unwind=N + 2, max_depth=10,
                                extra_models=strmodels.STR_MODELS + panicmodels.PANIC_MODELS)

            def valid(i):
                if i >= N:
                    return z3.BoolVal(True)
                esc = z3.And(hexd(bs[i + 1]), hexd(bs[i + 2]), valid(i + 3)) if i + 2 < N else z3.BoolVal(False)
                return z3.If(bs[i] == 37, esc, z3.And(idch(bs[i]), valid(i + 1)))
            if which == 'id':
                ref = z3.And(z3.BoolVal(N > 0), valid(0))
            else:
                ref = z3.And(z3.BoolVal(N > 0), *[lowdig(b) for b in bs])
            bad = None
            for p in paths:
                if p.kind != 'return':
                    bad = bad or (p, 'panic: ' + p.msg, z3.BoolVal(True))
                    continue
                okv = z3.BoolVal(p.is_ok()) if isinstance(p.val, VAgg) else None
                if okv is None:
                    bad = bad or (p, 'result is not a Result', z3.BoolVal(True))
                elif p.consistent(okv != ref):
                    bad = bad or (p, 'accepts / rejects differently from the ABNF', okv != ref)
            funcs = [short(f.name)]
            if not bad:
                ctx.add(Ob(name, 'M', HELD, queries=len(paths), functions=funcs, bounds='printable-ASCII strings of %d bytes%s' % (N, ' not ending in ":"' if which == 'id' else ''),
                           sample='%d paths, each equal to the reference' % len(paths)))
                continue
            p, what, cond = bad
            sol = z3.Solver()
            sol.add(*p.st.pc)
            sol.add(cond)
            if sol.check() != z3.sat:
                ctx.add(Ob(name, 'M', INCONCLUSIVE, detail=what + ' (no model)', functions=funcs))
                continue
            m = sol.model()
            text = ''.join(chr(m.eval(b, model_completion=True).as_long()) for b in bs)
            rep = {'scenario': 'did_validator', 'cex': {'text': text, 'which': which}}
            res = run_replay(rep)
            ctx.add(Ob(name, 'M', VIOLATED if res.get('reproduced') else INCONCLUSIVE,
                       detail='%s: %r; native: %s' % (what, text, res.get('detail', '')[:200]), cex={'text': text}, replay=rep, functions=funcs))


def parser_cursor(ctx):
    """The third-party did_url_parser (the version identity_did is locked to, MIR dumped from the cargo registry source): after
    parse_method_id succeeds the cursor - which becomes the *end* index of the method-specific id - lies inside the input.
    Kernel: Input {data = ":" + up to 3 arbitrary printable ASCII bytes, next = 0}, everything inlined, loop unrolled."""
    import panicmodels
    from execu import State
    from replay import run_replay
    prog, info = load(['did_url_parser'])
    ctx.extra['mir_parser'] = info
    import models

    def m_from_utf8(ex, st, fr, name, args, dty):
        # the kernel's inputs are printable ASCII, which is always valid UTF-8
        return [(st, models.mk('Result', 'Ok', args[0]), 'ok', '')]

    def m_from_str_radix(ex, st, fr, name, args, dty):
        """u8::from_str_radix(s, 16) on a two-byte string: Ok(value) iff "hh" or "+h" (unsigned: a leading '+' is accepted, '-' is not)"""
        b = models.slice_of(ex, st, args[0])
        if b is None or not isinstance(args[1], VInt) or ex.concrete(args[1].e) != 16 or ex.concrete(b.len) != 2:
            return None
        c0, c1 = z3.Select(b.arr, b.off), z3.Select(b.arr, b.off + 1)

        def hx(c):
            return z3.Or(z3.And(z3.UGE(c, 48), z3.ULE(c, 57)), z3.And(z3.UGE(c, 65), z3.ULE(c, 70)), z3.And(z3.UGE(c, 97), z3.ULE(c, 102)))

        def val(c):
            return z3.If(z3.ULE(c, 57), c - 48, z3.If(z3.ULE(c, 70), c - 55, c - 87))
        okc = z3.Or(z3.And(hx(c0), hx(c1)), z3.And(c0 == 43, hx(c1)))
        out = []
        if ex.feasible(st.pc + [okc]):
            s2 = st.fork()
            s2.pc.append(okc)
            out.append((s2, models.mk('Result', 'Ok', VInt(z3.If(c0 == 43, val(c1), val(c0) * 16 + val(c1)), 8)), 'ok', ''))
        if ex.feasible(st.pc + [z3.Not(okc)]):
            s2 = st.fork()
            s2.pc.append(z3.Not(okc))
            out.append((s2, models.mk('Result', 'Err', VSym(('err', 'ParseIntError'), 'ParseIntError')), 'ok', ''))
        return out
    KERNEL_MODELS = [(re.compile(r'(^|::)from_utf8$'), m_from_utf8), (re.compile(r'<impl u8>::from_str_radix$'), m_from_str_radix)]
    ctx.stubs.append('core::str::from_utf8 = Ok(input) on the kernel\'s printable-ASCII inputs; u8::from_str_radix(_, 16) on two bytes = its documented grammar ("hh" | "+h")')
    A = Auditor(ctx, prog)
    f = prog.one(r'core::<impl at [^>]*>::parse_method_id$')
    fk = ctx.known('did-url-parser-escape-at-end-overruns')
    for N in (0, 1, 2, 3):
        st = State()
        arr = z3.Array('data', z3.BitVecSort(64), z3.BitVecSort(8))
        st.mem['data'] = VBytes(arr, z3.BitVecVal(0, 64), z3.BitVecVal(N + 1, 64))
        st.pc.append(z3.Select(arr, z3.BitVecVal(0, 64)) == ord(':'))
        tail = [z3.Select(arr, z3.BitVecVal(1 + i, 64)) for i in range(N)]
        for b in tail:
            st.pc.append(z3.And(z3.UGT(b, 32), z3.ULT(b, 127)))
        st.mem['input'] = VAgg('Input', None, [VRef('data'), VInt(z3.BitVecVal(0, 64), 64)])
        st.mem['core'] = VAgg('Core', None, [VInt(0, 32), VInt(0, 32), VInt(0, 32), VAgg('Option', 'None', []), VAgg('Option', 'None', [])])
        paths, ex = A.paths(f, args=[VRef('core'), VRef('input')], state=st, inline=r'.', unwind=N + 3, allow_bound=False, max_depth=10,
                            extra_models=KERNEL_MODELS + panicmodels.PANIC_MODELS)

        def hexd(b):
            return z3.Or(z3.And(z3.UGE(b, 48), z3.ULE(b, 57)), z3.And(z3.UGE(b, 65), z3.ULE(b, 70)), z3.And(z3.UGE(b, 97), z3.ULE(b, 102)))
        region = z3.And(tail[N - 3] == 37, z3.Or(hexd(tail[N - 2]), tail[N - 2] == 43), hexd(tail[N - 1])) if N >= 3 else z3.BoolVal(False)
        name = 'did_url_parser::parse_method_id/cursor-stays-inside-the-input[len %d]' % N
        bad_out, bad_in = None, None
        for p in paths:
            if p.kind == 'panic':
                bad_out = bad_out or (p, 'panic: ' + p.msg)
                continue
            if not p.is_ok():
                continue
            inp = p.st.mem.get('input')
            nx = inp.fields[1] if isinstance(inp, VAgg) else None
            if not isinstance(nx, VInt):
                raise Refuse('cursor is not an integer expression after parse_method_id')
            over = z3.UGT(nx.e, z3.BitVecVal(N + 1, 64))
            if p.consistent(z3.And(over, z3.Not(region))):
                bad_out = bad_out or (p, 'cursor past the end of the input', z3.And(over, z3.Not(region)))
            elif p.consistent(over):
                bad_in = bad_in or (p, 'cursor past the end of the input (escape at the very end)', over)
        funcs = [short(f.name), 'Input::peek', 'Input::next', 'Input::take', 'Core::parse_pct_enc_char']
        bounds = 'method-specific ids of %d printable ASCII bytes' % N
        if not bad_out and not bad_in:
            ctx.add(Ob(name, 'M', HELD, queries=len(paths), functions=funcs, bounds=bounds, sample='%d paths, cursor <= len on every accepting path' % len(paths)))
            continue
        for which, bad in (('new', bad_out), ('known', bad_in)):
            if not bad:
                continue
            p, what = bad[0], bad[1]
            cond = bad[2] if len(bad) > 2 else z3.BoolVal(True)
            sol = z3.Solver()
            sol.add(*p.st.pc)
            sol.add(cond)
            if sol.check() != z3.sat:
                ctx.add(Ob(name, 'M', INCONCLUSIVE, detail='violating path not confirmed feasible'))
                continue
            mdl = sol.model()
            text = 'did:a:' + ''.join(chr(mdl.eval(b, model_completion=True).as_long()) for b in tail)
            rep = {'scenario': 'did_cursor', 'cex': {'input': text}}
            res = run_replay(rep)
            detail = '%s: input %r; native: %s' % (what, text, res.get('detail', '')[:200])
            if not res.get('reproduced'):
                ctx.add(Ob(name, 'M', INCONCLUSIVE, detail='candidate did not reproduce natively: ' + detail, functions=funcs))
            elif which == 'known' and fk is not None:
                ctx.add(Ob(name + ' (escape at the end)', 'M', KNOWN, detail=detail, finding=fk, functions=funcs, cex={'input': text}))
            else:
                ctx.add(Ob(name, 'M', VIOLATED, detail=detail, functions=funcs, cex={'input': text}, replay=rep))
        if bad_in and not bad_out:
            ctx.add(Ob(name + ' (outside the recorded region)', 'M', HELD, queries=len(paths), functions=funcs, bounds=bounds,
                       sample='cursor <= len on every accepting path whose input does not end in a complete escape'))


def kani_part(ctx):
    import kanirun
    fn = ['CoreDID::valid_method_id', 'CoreDID::valid_method_name', 'did::is_char_method_id', 'did::is_char_method_name']
    names = ['c10_method_id_0', 'c10_method_id_1', 'c10_method_id_2', 'c10_method_id_3', 'c10_method_name_0', 'c10_method_name_3',
             'c10_method_id_colon_1', 'c10_method_id_colon_2', 'c10_method_id_colon_3', 'c10_twin_must_fail']
    if ctx.tier == 'quick':
        names = ['c10_method_id_0', 'c10_method_id_2', 'c10_method_name_0', 'c10_method_id_colon_1', 'c10_twin_must_fail']
    specs = [dict(harness=h, timeout_s=1800, functions=fn, must_fail=h.endswith('must_fail'),
                  finding_key='method-id-trailing-colon' if '_colon_' in h else None,
                  bounds='every ASCII string of the length in the harness name (0..3) against the W3C ABNF; ids that are well formed '
                         'except for a trailing ":" are the region of the recorded finding and are decided by the *_colon_* harnesses') for h in names]
    res = kanirun.run_many(specs)
    kanirun.judge(ctx, specs, res, 'c10')


def main(ctx):
    prog, info = load(CRATES)
    ctx.extra['mir'] = info
    ctx.outside += ['the third-party did_url_parser beyond the method-id cursor kernel (ids <= 3 bytes) - multi-position adversarial strings, path/query/fragment phases', 'did:jwk (JSON)',
                    'non-ASCII input beyond the character-class kernels']
    guarded(ctx, 'character classes', 'M', lambda: kernels(ctx, prog))
    guarded(ctx, 'constructor / setter audit', 'M', lambda: audits(ctx, prog))
    guarded(ctx, 'Eq / Ord / Hash of DID URLs', 'M', lambda: eq_ord_hash(ctx, prog))
    guarded(ctx, 'URL segment scanner', 'M', lambda: segment_scanner(ctx, prog))
    guarded(ctx, 'method id / name validators as scanners', 'M', lambda: validator_scanner(ctx, prog))
    guarded(ctx, 'third-party parser cursor', 'M', lambda: parser_cursor(ctx))
    if os.environ.get('VERIF_SKIP_K') != '1':
        guarded(ctx, 'local validators', 'K', lambda: kani_part(ctx))
