"""C17 - IOTA DIDs are normalised, decomposable, equal iff network and tag agree (engine M)."""
import re
import z3
from core import *
from execu import Exec, State, Refuse
from values import *
from audit import *
from loader import load
import models
import vc

CRATES = ['identity_iota_core']
SRC = ['identity_did']


def R(tag):
    return {'scenario': 'iota_did', 'cex': {'only': tag}}


def is_sub(t, want):
    return any(s == want for s in subterms(t))


def network_name_m(ctx, prog):
    """M view of the network-name validator (shape-dependent: an `all` over chars with one closure); the K harnesses decide the
    function as a whole on every ASCII string of length 0, 1, 3, 6 and 7"""
    A = Auditor(ctx, prog)
    # network-name character predicate for every char
    cl = [g for g in prog.funcs if re.search(r'validate_network_name::\{closure#0\}::\{closure#0\}$', g.name)]
    if len(cl) != 1:
        ctx.outside.append('network-name M kernel over every Unicode scalar value (closure shape not found; K harnesses decide the validator)')
        return
    ex = Exec(prog, models=models.MODELLED)
    c = z3.BitVec('ch', 32)
    st = State()
    st.pc.append(z3.And(z3.ULE(c, 0x10FFFF), z3.Not(z3.And(z3.UGE(c, 0xD800), z3.ULE(c, 0xDFFF)))))
    outs = ex.run(cl[0], [VAgg('closure', None, []), VInt(c, 32)], st)
    want = z3.Or(z3.And(z3.UGE(c, ord('a')), z3.ULE(c, ord('z'))), z3.And(z3.UGE(c, ord('0')), z3.ULE(c, ord('9'))))
    goals = [('network char predicate differs from [a-z0-9]', o.st.pc + [o.val.e != want]) for o in outs if o.kind == 'return']
    if len(goals) != len(outs) or not goals:
        raise Refuse('network char closure outcomes')
    v = vc.check_formulas(goals)
    ctx.add(Ob('network-name/char-class=[a-z0-9]', 'M', HELD if v.status == 'unsat' else INCONCLUSIVE,
               detail='' if v.status == 'unsat' else str(v.note or v.model), solver_s=v.secs, queries=v.queries,
               functions=sorted(ex.encoded), bounds='every Unicode scalar value'))

    f = prog.one(r'network_name::<impl at [^>]*>::validate_network_name$')
    paths, ex = A.paths(f, inline=r'validate_network_name::\{closure#0\}$')

    def r_net(p):
        if p.kind != 'return':
            return 'panic ' + p.msg
        if not p.is_ok():
            return None
        ne = [c_ for c_ in p.find_calls(r'str>::is_empty$') if mentions(c_.args, r'^name$') and p.took(c_.ret, 'false')]
        nb = ex.sym_bytes(('leaf', 'name'))
        al = [c_ for c_ in p.calls if re.search(r'Iterator>::all$', c_.name) and mentions(c_.args, r'^name$') and p.took(c_.ret, 'true')]
        if not ne:
            return 'empty network name accepted'
        if not p.implies(z3.ULE(nb.len, 6)):
            return 'network name longer than 6 accepted'
        if not al:
            return 'network name accepted without all chars being lower-case alphanumerics'
        return None
    A.require('network-name/1..6-lowercase-alphanumerics', paths, r_net, replay=R('[network]'))



def run(ctx, prog):
    A = Auditor(ctx, prog)
    IMPL = r'iota_did::<impl at [^>]*>::'
    CL = IMPL + r'\w+::\{closure'

    # parse = lowercase -> generic parse -> try_from_core
    f = prog.one(IMPL + r'parse$')
    paths, ex = A.paths(f)

    def r_parse(p):
        if p.kind != 'return':
            return 'panic ' + p.msg
        t = strip(p.term())
        if isinstance(p.val, VAgg) and p.val.variant == 'Err':
            return None
        tc = apps(t, r'IotaDID::try_from_core$')
        if not tc or t != tc[0]:
            return 'parse does not end in try_from_core'
        cp = apps(tc[0][2][0], r'CoreDID::parse$')
        if not cp or not apps(cp[0][2][0], r'to_lowercase$') or not mentions(cp[0][2][0], r'^input$'):
            return 'input not lower-cased before the generic DID parse'
        return None
    A.require('parse/lowercase-then-generic-parse-then-iota-checks', paths, r_parse, replay=R('[normal]'))

    # every other constructor reaches try_from_core
    for nm, rx, sig in (('FromStr', IMPL + r'from_str$', None), ('TryFrom<&str>', IMPL + r'try_from$', r'^&str'),
                        ('TryFrom<String>', IMPL + r'try_from$', r'^(\w+::)*String'),
                        ('TryFrom<CoreDID>', IMPL + r'try_from$', r'^(\w+::)*CoreDID ->'),
                        ('TryFrom<BaseDIDUrl>', IMPL + r'try_from$', r'^(\w+::)*(DID|BaseDIDUrl) ->')):
        f = prog.one(rx, sig=sig)
        paths, ex = A.paths(f, inline=IMPL + r'try_from$')

        def r_ctor(p, nm=nm):
            if p.kind != 'return':
                return 'panic ' + p.msg
            if isinstance(p.val, VAgg) and p.val.variant == 'Err':
                return None
            t = strip(p.term())
            if apps(t, r'IotaDID::parse$') and t[0] == 'app':
                return None
            tc = apps(t, r'IotaDID::try_from_core$')
            if tc and t == tc[0]:
                if 'BaseDIDUrl' in nm and not apps(tc[0][2][0], r'CoreDID as .*TryFrom.*try_from$|CoreDID::try_from$'):
                    return 'base DID URL not converted through the validating CoreDID conversion'
                return None
            return '%s bypasses parse / try_from_core' % nm
        A.require('%s/reaches-the-iota-checks' % nm, paths, r_ctor, replay=R('[normal]'))

    # the infallible constructors (from tag bytes / alias id / placeholder) go through the same gate: the value they
    # return is what parse accepted (so an unvalidated network name cannot slip into a DID)
    for nm in ('new', 'from_alias_id', 'placeholder'):
        f = prog.one(IMPL + nm + '$')
        paths, ex = A.paths(f, inline=IMPL + r'(new|from_alias_id)$')

        def r_new(p, nm=nm):
            if p.kind != 'return':
                return None   # the expect on parse's result is the documented panic of these constructors
            t = strip(p.term())
            ok = isinstance(t, tuple) and t and t[0] == 'field' and t[3] == 'Ok' and isinstance(t[1], tuple) and t[1][0] == 'app' \
                and re.search(r'IotaDID::parse$|IotaDID::try_from_core$', t[1][1])
            return None if ok else 'IotaDID::%s returns a value that did not pass parse / try_from_core: %s' % (nm, term_str(t)[:120])
        A.require('IotaDID::%s/value-is-what-parse-accepted' % nm, paths, r_new, replay=R('[ctor]'))

    # try_from_core: validity, lower-case normal form, normalisation
    f = prog.one(IMPL + r'try_from_core$')
    paths, ex = A.paths(f)

    def r_tfc(p):
        if p.kind != 'return':
            return 'panic ' + p.msg
        if not p.is_ok():
            return None
        cv = [c_ for c_ in p.find_calls(r'IotaDID::check_validity$') if p.took(c_, 'Ok') and mentions(c_.args, r'^did$')]
        if not cv:
            return 'accepted without check_validity'
        t = p.term(p.payload())
        nz = apps(t, r'IotaDID::normalize$')
        if not nz:
            return 'accepted value not normalised (default network must be omitted)'
        # lower-case normal form: the value must have been lower-cased or checked to be lower-case on this path
        CASE = r'to_lowercase$|to_ascii_lowercase$|make_ascii_lowercase$|is_ascii_uppercase$|is_uppercase$|is_lowercase$|is_ascii_lowercase$'
        lc = [c_ for c_ in p.calls if re.search(CASE, c_.name)]
        # or a scan (any/all/find/position) whose predicate closure tests the case of the characters
        for c_ in p.calls:
            for a in (c_.argvals or []):
                if isinstance(a, VFn):
                    for g in prog.closures.get(a.name, []):
                        txt = ' '.join(str(b.term) for b in g.blocks.values() if b.term)
                        if re.search(r'is_ascii_uppercase|is_uppercase|is_lowercase|is_ascii_lowercase', txt):
                            lc.append(c_)
        if not lc:
            return 'a CoreDID with upper-case hex digits in the tag is accepted as is: not in lower-case normal form'
        return None
    A.require('try_from_core/valid-lowercase-normalised', paths, r_tfc, replay=R('[case]'), finding_key='try_from_core-keeps-uppercase-tag')

    # check_validity = method && tag && network
    f = prog.one(IMPL + r'check_validity$')
    paths, ex = A.paths(f, inline=IMPL + r'check_validity::\{closure')

    def r_cv(p):
        if p.kind != 'return':
            return 'panic ' + p.msg
        got = {}
        for nm in ('check_method', 'check_tag', 'check_network'):
            cs = [c_ for c_ in p.find_calls(r'IotaDID::%s$' % nm) if mentions(c_.args, r'^did$')]
            got[nm] = cs
        if p.is_ok():
            for nm, cs in got.items():
                if not any(p.took(c_, 'Ok') for c_ in cs):
                    return 'IOTA DID accepted without %s' % nm
            return None
        if any(p.took(c_, 'Err') for cs in got.values() for c_ in cs):
            return None
        # the last check's result may be returned as is
        t = strip(p.term())
        last = got['check_network']
        if last and t == last[0].ret and all(any(p.took(c_, 'Ok') for c_ in got[nm]) for nm in ('check_method', 'check_tag')):
            return None
        return 'rejected although method, tag and network checks passed'
    A.require('check_validity/method-and-tag-and-network', paths, r_cv, replay=R('[valid]'))

    f = prog.one(IMPL + r'check_method$')
    paths, ex = A.paths(f)

    def r_cm(p):
        if p.kind != 'return':
            return 'panic ' + p.msg
        m = [c_ for c_ in p.find_calls(r'DID>::method$|::method$') if mentions(c_.args, r'^did$')]
        if not m:
            return 'method not read'
        b = ex.sym_bytes(m[0].ret)
        want = z3.And(b.len == 4, *[z3.Select(b.arr, b.off + i) == ch for i, ch in enumerate(b'iota')])
        if p.is_ok():
            return None if p.implies(want) else 'method other than "iota" accepted'
        return None if p.implies(z3.Not(want)) else 'method "iota" rejected'
    A.require('check_method/exactly-iota', paths, r_cm, replay=R('[valid]'))

    f = prog.one(IMPL + r'check_tag$')
    paths, ex = A.paths(f, inline=IMPL + r'check_tag::\{closure')

    def r_ct(p):
        if p.kind != 'return':
            return 'panic ' + p.msg
        if not p.is_ok():
            return None
        dc = [c_ for c_ in p.find_calls(r'prefix_hex::decode$') if p.took(c_, 'Ok')]
        if not dc or '[u8; 32]' not in str([c_.name for c_ in p.calls if 'prefix_hex' in c_.name] + [f.name]) and False:
            return 'tag not decoded'
        if not dc:
            return 'tag accepted without decoding as prefixed hex'
        dn = apps(dc[0].args[0], r'denormalized_components$')
        if not dn or not apps(dn[0][2][0], r'method_id$') or not mentions(dn[0][2][0], r'^did$'):
            return 'decoded string is not the tag component of the method id'
        fp = strip(dc[0].args[0])
        if not (fp[0] == 'field' and fp[2] == 1):
            return 'decoded component is not the tag (second component)'
        return None
    A.require('check_tag/tag-component-decodes-as-32-byte-prefixed-hex', paths, r_ct, replay=R('[valid]'))
    # the decode target type [u8; 32] is part of the callee's generic arguments: read it from the MIR call text
    blk_txt = ' '.join(str(b.term) for b in f.blocks.values() if b.term)
    m = re.search(r'prefix_hex::decode::<\[u8; (\d+)\]', blk_txt)
    ctx.add(Ob('check_tag/decodes-into-exactly-32-bytes', 'M', HELD if (m and m.group(1) == '32') else INCONCLUSIVE,
               detail='' if m else 'decode target type not found in MIR', sample='prefix_hex::decode::<[u8; %s]>' % (m.group(1) if m else '?')))
    if m and m.group(1) != '32':
        ctx.obs[-1].status = INCONCLUSIVE
        ctx.obs[-1].detail = 'tag decoded into %s bytes' % m.group(1)

    f = prog.one(IMPL + r'check_network$')
    paths, ex = A.paths(f, inline=IMPL + r'check_network::\{closure')

    def r_cn(p):
        if p.kind != 'return':
            return 'panic ' + p.msg
        vn = [c_ for c_ in p.find_calls(r'validate_network_name$')]
        if not vn:
            return 'network name not validated'
        a = strip(vn[0].args[0])
        dn = apps(a, r'denormalized_components$')
        if not (a[0] == 'field' and a[2] == 0 and dn and apps(dn[0][2][0], r'method_id$')):
            return 'validated string is not the network component of the method id'
        if p.is_ok():
            return None if p.took(vn[0], 'Ok') else 'invalid network accepted'
        return None if p.took(vn[0], 'Err') else 'valid network rejected'
    A.require('check_network/network-component-validated', paths, r_cn, replay=R('[network]'))

    # normalize: default network removed, otherwise unchanged
    f = prog.one(IMPL + r'normalize$')
    paths, ex = A.paths(f)

    def r_nz(p):
        if p.kind == 'panic':
            return None   # expect() on a validated DID; reachability of this panic needs set_method_id's contract (C10)
        dn = [c_ for c_ in p.find_calls(r'denormalized_components$')]
        if not dn or not apps(dn[0].args[0], r'method_id$'):
            return 'components not taken from the method id'
        net = ex.sym_bytes(('field', dn[0].ret, 0, ''))
        is_default = z3.And(net.len == 4, *[z3.Select(net.arr, net.off + i) == ch for i, ch in enumerate(b'iota')])
        sm = [c_ for c_ in p.find_calls(r'CoreDID::set_method_id$')]
        if sm:
            if not p.implies(is_default):
                return 'network removed although it is not the default network'
            if not is_sub(sm[0].args[1], ('field', dn[0].ret, 1, '')):
                return 'method id not replaced by the bare tag'
            return None
        if strip(p.term()) != ('leaf', 'did'):
            return 'non-default DID altered'
        # unchanged only if there is no network segment or it is not the default one
        tagb = ex.sym_bytes(('field', dn[0].ret, 1, ''))
        midb = ex.sym_bytes(strip(dn[0].args[0]))
        no_net = p.implies(tagb.len == midb.len)
        if no_net or p.implies(z3.Not(is_default)):
            return None
        return 'explicit default network kept'
    A.require('normalize/default-network-omitted-only', paths, r_nz, replay=R('[normal]'))

    # the two accessors are the two halves of denormalized_components(method id) - on every path, through nothing else (no shortcut
    # that guesses the shape of the method id: a network name may itself look like the start of a tag)
    for acc, idx_ in (('network_str', 0), ('tag_str', 1)):
        fa = prog.one(IMPL + acc + r'$')
        apaths, aex = A.paths(fa, inline=IMPL + r'(?!denormalized_components$|method_id$|network_str$|tag_str$)\w+$')

        def r_acc(p, acc=acc, idx_=idx_):
            if p.kind != 'return':
                return 'panic ' + p.msg
            dc = p.find_calls(r'denormalized_components$')
            if len(dc) != 1:
                return '%s is not one call of denormalized_components on every path' % acc
            a = dc[0].args[0]
            if not (apps(a, r'method_id$') and mentions(a, r'^self$')):
                return 'components are not taken from the whole method id'
            t = strip(p.term())
            if t != ('field', dc[0].ret, idx_, ''):
                return '%s is not component %d of denormalized_components(method id)' % (acc, idx_)
            other = [c_ for c_ in p.calls if re.search(r'starts_with|strip_prefix|str>::find$|split|contains', c_.name)]
            if other:
                return '%s examines the method id itself' % acc
            return None
        A.require('%s/is-its-half-of-denormalized_components-on-every-path' % acc, apaths, r_acc, replay=R('[normal]'))

    # accessors recompose
    f = prog.one(IMPL + r'denormalized_components$')
    paths, ex = A.paths(f, inline=IMPL + r'denormalized_components::\{closure')

    def r_dc(p):
        if p.kind != 'return':
            return 'panic ' + p.msg
        fd = [c_ for c_ in p.find_calls(r'str>::find$') if strip(c_.args[0]) == ('leaf', 'input') and strip(c_.args[1]) == ('const', ord(':'))]
        if not fd:
            return 'first ":" not searched'
        v = p.val
        if p.took(fd[0], 'None'):
            ok_ = strip(p.term(v.fields[0])) == ('const', b'iota') and strip(p.term(v.fields[1])) == ('leaf', 'input')
            return None if ok_ else 'without ":" the components are not (default network, input)'
        sa = [c_ for c_ in p.find_calls(r'str>::split_at$')]
        ix = [c_ for c_ in p.calls if re.search(r'Index<.*RangeFrom.*>>::index$', c_.name)]
        if not sa or not ix:
            return 'components not split at the first ":"'
        idx = ex.sym_int(('field', fd[0].ret, 0, 'Some'), 64).e
        if not (isinstance(sa[0].argvals[1], VInt) and z3.eq(z3.simplify(sa[0].argvals[1].e), z3.simplify(idx))):
            return 'split position is not the position of the first ":"'
        rng_ = ix[0].argvals[1]
        if not (isinstance(rng_, VAgg) and isinstance(rng_.fields[0], VInt) and ex.concrete(rng_.fields[0].e) == 1):
            return 'tag is not the tail without its leading ":"'
        ok_ = strip(p.term(v.fields[0])) == ('field', sa[0].ret, 0, '') and strip(p.term(v.fields[1])) == ix[0].ret and \
            strip(ix[0].args[0]) == ('field', sa[0].ret, 1, '')
        return None if ok_ else 'components are not (head, tail[1..])'
    A.require('denormalized_components/network-and-tag-recompose-the-method-id', paths, r_dc, replay=R('[normal]'))


def kani_part(ctx):
    import kanirun
    fn = ['NetworkName::validate_network_name']
    names = ['c17_network_name_0', 'c17_network_name_6', 'c17_network_name_7', 'c17_twin_must_fail']
    if ctx.tier == 'thorough':
        names += ['c17_network_name_1', 'c17_network_name_3']
    specs = [dict(harness=h, timeout_s=1200, functions=fn, must_fail=h.endswith('must_fail'),
                  bounds='every ASCII string of the length in the harness name') for h in names]
    res = kanirun.run_many(specs)
    kanirun.judge(ctx, specs, res, 'c17')


def ctor_and_serde(ctx, prog):
    A = Auditor(ctx, prog)
    # NetworkName::try_from: the text that is validated is the text that is stored (not a normalised copy of it)
    f = prog.one(r'network_name::<impl at [^>]*>::try_from$', sig=r'^T ->')
    paths, ex = A.paths(f)

    def r_nn(p):
        if p.kind != 'return':
            return 'panic ' + p.msg
        if not p.is_ok():
            return None
        v = [c for c in p.calls if re.search(r'NetworkName::validate_network_name$', c.name) and p.took(c, 'Ok')]
        if len(v) != 1:
            return 'name stored without the validator accepting it'
        stored = p.payload()
        st = strip(p.term(stored.fields[0])) if isinstance(stored, VAgg) and stored.fields else None
        val = v[0].args[0]
        while isinstance(val, tuple) and val and (val[0] in ('ref', 'deref') or (val[0] == 'app' and re.search(r'Deref>::deref$|AsRef<.*>>::as_ref$|::as_str$|::borrow$', val[1]))):
            val = val[1] if val[0] in ('ref', 'deref') else val[2][0]
        if st is None or strip(val) != st:
            return 'the validated text (%s) is not the stored one (%s): a name the validator never saw is kept' % (term_str(v[0].args[0])[:80], term_str(st)[:60])
        return None
    A.require('NetworkName::try_from/the-validated-text-is-the-stored-text', paths, r_nn, replay=R('[network]'))

    # derived Deserialize of IotaDID: only through TryFrom<CoreDID> (method / tag / network checks and normalisation)
    fs = prog.find(r'^did::iota_did::_::<impl at [^>]*>::deserialize$|^iota_did::_::<impl at [^>]*>::deserialize$')
    nm = 'IotaDID::deserialize/only-through-the-validating-conversion'
    if len(fs) != 1:
        ctx.add(Ob(nm, 'M', INCONCLUSIVE, detail='derived Deserialize of IotaDID: %d candidates' % len(fs)))
        return
    dpaths, dex = A.paths(fs[0], inline=r'deserialize::\{closure')

    def r_de(p):
        if p.kind != 'return':
            return 'panic ' + p.msg
        if not p.is_ok():
            return None
        cv = [c for c in p.calls if re.search(r'<(\w+::)*IotaDID as (\w+::)*TryFrom<(\w+::)*CoreDID>>::try_from$', c.name) and p.took(c, 'Ok')]
        if len(cv) != 1:
            return 'an IotaDID is produced without TryFrom<CoreDID> succeeding (e.g. a transparent derive)'
        return None if strip(p.term(p.payload())) == ('field', cv[0].ret, 0, 'Ok') else 'the value handed back is not what the conversion produced'
    A.require(nm, dpaths, r_de, replay=[R('[valid]'), R('[case]')])


def main(ctx):
    prog, info = load(CRATES, src_only=SRC)
    ctx.extra['mir'] = info
    ctx.outside += ['to_lowercase Unicode behaviour', 'prefix_hex internals', 'the generic DID parser itself (third-party; C10)',
                    'equality <=> (network, tag bytes) follows from lower-case normal form + default network omitted + derived comparison (the three are decided; the implication is argued)',
                    'one-position 75-byte strings under Kani (11 GB after 13 min in the design probe)']
    guarded(ctx, 'network name (M view)', 'M', lambda: network_name_m(ctx, prog))
    guarded(ctx, 'iota did audit', 'M', lambda: run(ctx, prog))
    guarded(ctx, 'network name constructor and serde route', 'M', lambda: ctor_and_serde(ctx, prog))
    # "equal exactly when networks and tag bytes are equal" = derived (structural) comparison of the normal form: IotaDID and the
    # CoreDID inside it compare / order / hash by the compiler-derived impls, not by a hand-written reading of their parts
    import derives
    guarded(ctx, 'structural comparison of IotaDID', 'M', lambda: derives.derived_impls(
        ctx, prog, 'IotaDID/eq-ord-hash-are-the-derived-ones', r'identity_iota_core/src/did/iota_did\.rs', ['iota_did.rs'],
        [{'scenario': 'iota_did', 'cex': {'only': '[case]'}}, {'scenario': 'iota_did', 'cex': {'only': '[cmp]'}}], methods=('eq', 'ne', 'partial_cmp', 'cmp', 'hash')))

    def core_cmp():
        prog3, info3 = load(['identity_did'])
        derives.derived_impls(ctx, prog3, 'CoreDID/eq-ord-hash-are-the-derived-ones', r'identity_did/src/did\.rs', ['did.rs'],
                              {'scenario': 'iota_did', 'cex': {'only': '[case]'}}, methods=('eq', 'ne', 'partial_cmp', 'cmp', 'hash'))
    guarded(ctx, 'structural comparison of CoreDID', 'M', core_cmp)
    if os.environ.get('VERIF_SKIP_K') != '1':
        guarded(ctx, 'network name on short strings', 'K', lambda: kani_part(ctx))
    # "without path, query or fragment" is decided on the generic DID gate that IotaDID::parse / try_from_core delegate to (C10's
    # obligations on CoreDID, re-used)
    import c10

    def generic_gate():
        prog2, info2 = load(c10.CRATES)
        c10.audits(ctx, prog2, only=r'^check_validity/|^CoreDID::.*validated-before-construction')
    guarded(ctx, 'generic DID gate (CoreDID)', 'M', generic_gate)
