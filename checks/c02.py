"""C02 - JWT credential validation accepts only when every checked condition holds (engine M binding audit +
semantic evaluation of the validation-unit iterator chain)."""
import re
import z3
from core import *
from execu import Exec, State, Refuse
from values import *
from audit import *
from loader import load
import itermodels

CRATES = ['identity_credential']
SRC = ['identity_document', 'identity_jose', 'identity_core', 'identity_did', 'identity_verification']
REPLAY = {'scenario': 'credential_validation'}


def fld(t, *idx):
    for i in idx:
        t = ('field', t, i, '')
    return t


def is_proj_of(t, leaf, idxs):
    """strip(t) is a projection path of `leaf` starting with field indexes idxs"""
    fp = field_path(strip(t))
    return bool(fp) and fp[0] == leaf and [i for _, i in fp[1]][:len(idxs)] == list(idxs)


def run(ctx, prog, only=None):
    A = Auditor(ctx, prog, only=only)
    S = prog.structs
    JVO = S['JwsVerificationOptions']
    CVO = S['JwtCredentialValidationOptions']
    DJC = S['DecodedJwtCredential']

    # ---------------------------------------------------------------------------------------------------------- validate
    f = prog.one(r'jwt_credential_validator::<impl at [^>]*>::validate$')
    paths, ex = A.paths(f)
    vi = CVO.index('verification_options')

    def r_validate(p):
        if p.kind != 'return':
            return 'panic ' + p.msg
        vs = p.find_calls(r'JwtCredentialValidator.*::verify_signature$')
        if len(vs) != 1:
            return 'signature verification not performed exactly once'
        a = vs[0].args
        if strip(a[1]) != ('leaf', 'credential_jwt') or not mentions(a[2], r'^issuer$') or not is_proj_of(a[3], 'options', [vi]):
            return 'verify_signature not called with (jwt, [issuer], options.verification_options)'
        if p.took(vs[0], 'Err'):
            return None if p.is_err() else 'signature failure not reported'
        vd = p.find_calls(r'validate_decoded_credential$')
        if len(vd) != 1 or strip(p.term()) != vd[0].ret:
            return 'result is not validate_decoded_credential(..)'
        b = vd[0].args
        if strip(b[0]) != ('field', vs[0].ret, 0, 'Ok') or not mentions(b[1], r'^issuer$') or strip(b[2]) != ('leaf', 'options') \
                or strip(b[3]) != ('leaf', 'fail_fast'):
            return 'validate_decoded_credential not called with (verified token, [issuer], options, fail_fast)'
        return None
    A.require('validate/signature-then-all-units-on-the-verified-token', paths, r_validate, replay=REPLAY)

    # ------------------------------------------------------------------------------------ verify_signature_with_verifier
    f = prog.one(r'::verify_signature_with_verifier$')
    paths, ex = A.paths(f)
    okp = [p for p in paths if p.kind == 'return' and p.is_ok()]

    def r_vsv(p):
        dec = [c for c in p.find_calls(r'JwtCredentialValidator.*::decode$') if p.took(c, 'Ok')]
        if not dec or not (apps(dec[0].args[0], r'Jwt::as_str$') and mentions(dec[0].args[0], r'^credential$')):
            return 'token not decoded from the credential string'
        item = ('field', dec[0].ret, 0, 'Ok')
        pj = [c for c in p.find_calls(r'::parse_jwk$') if p.took(c, 'Ok')]
        if not pj or strip(pj[0].args[0]) != item or strip(pj[0].args[1]) != ('leaf', 'trusted_issuers') or strip(pj[0].args[2]) != ('leaf', 'options'):
            return 'key not selected by parse_jwk(decoded, trusted_issuers, options)'
        key = ('field', ('field', pj[0].ret, 0, 'Ok'), 0, '')
        mid = ('field', ('field', pj[0].ret, 0, 'Ok'), 1, '')
        vd = [c for c in p.find_calls(r'::verify_decoded_signature$') if p.took(c, 'Ok')]
        if not vd or strip(vd[0].args[0]) != item or strip(vd[0].args[1]) != key or strip(vd[0].args[2]) != ('leaf', 'signature_verifier'):
            return 'signature not verified over the decoded token with the selected key and the caller\'s verifier'
        tok = ('field', vd[0].ret, 0, 'Ok')
        if strip(p.term(p.payload())) != tok:
            return 'returned token is not the verified one'
        ei = [c for c in p.find_calls(r'::extract_issuer$') if p.took(c, 'Ok')]
        if not ei or strip(ei[0].args[0]) != fld(tok, DJC.index('credential')):
            return 'issuer not extracted from the verified credential'
        eqs = [c for c in p.find_calls(r'PartialEq.*>::(eq|ne)$')]
        for c in eqs:
            l, r = strip(c.args[0]), strip(c.args[1])
            did_of_mid = [x for x in (l, r) if x[0] == 'app' and re.search(r'DIDUrl::did$', x[1]) and strip(x[2][0]) == mid]
            iss = [x for x in (l, r) if x == ('field', ei[0].ret, 0, 'Ok')]
            if did_of_mid and iss and p.took(c.ret, 'true' if c.name.endswith('::eq') else 'false'):
                return None
        return 'credential issuer not compared equal with the DID of the verifying method'
    A.require('verify_signature/decode-select-verify-issuer-equals-method-did', okp, r_vsv, replay=REPLAY)
    A.no_panic('verify_signature/no-panic', paths, replay=REPLAY)

    # --------------------------------------------------------------------------------------------------------- parse_jwk
    f = prog.one(r'jwt_credential_validator::<impl at [^>]*>::parse_jwk$')
    paths, ex = A.paths(f)
    okp = [p for p in paths if p.kind == 'return' and p.is_ok()]
    ni, mi, si = JVO.index('nonce'), JVO.index('method_id'), JVO.index('method_scope')

    def r_pj(p):
        nc = [c for c in p.find_calls(r'Option<&str> as PartialEq>::(eq|ne)$')]
        okn = False
        for c in nc:
            a, b = c.args
            sides = [a, b]
            has_hdr = any(apps(x, r'JwsValidationItem::nonce$') and mentions(x, r'^jws$') for x in sides)
            opt_nonce = ('field', ('deref', ('leaf', 'options')), ni, '')
            has_opt = any(is_opt_field(x, 'options', ni) for x in sides) or \
                (p.took(opt_nonce, 'None') and any(strip(x) == ('agg', 'Option', 'None', ()) for x in sides))
            if has_hdr and has_opt and p.took(c.ret, 'true' if c.name.endswith('::eq') else 'false'):
                okn = True
        if not okn:
            return 'accepted without the header nonce comparing equal to options.nonce'
        out = p.payload()
        if not (isinstance(out, VAgg) and len(out.fields) == 2):
            return 'result is not (key, method id)'
        mid = strip(p.term(out.fields[1]))
        opt_mid = ('field', ('deref', ('leaf', 'options')), mi, '')
        if p.took(opt_mid, 'Some'):
            if not (mid[0] == 'app' and re.search(r'Clone>::clone$', mid[1]) and is_proj_of(mid[2][0], 'options', [mi])) and not is_proj_of(mid, 'options', [mi]):
                return 'configured method id not used'
        elif p.took(opt_mid, 'None'):
            ok_ = (mid[0] == 'field' and mid[3] == 'Ok' and mid[1][0] == 'app' and re.search(r'DIDUrl::parse$', mid[1][1]))
            if not ok_:
                return 'method id is not DIDUrl::parse(kid)'
            kid = mid[1][2][0]
            if not (apps(kid, r'::kid$') and apps(kid, r'JwsValidationItem::protected_header$') and mentions(kid, r'^jws$')):
                return 'kid not taken from the protected header'
        else:
            return 'options.method_id not examined'
        fd = [c for c in p.calls if re.search(r'Iterator>::find$', c.name) and p.took(c, 'Some')]
        if not fd or not mentions(fd[0].args[0], r'^trusted_issuers$'):
            return 'issuer document not looked up among the trusted issuers'
        clo = fd[0].argvals[1]
        if not isinstance(clo, VFn) or clo.caps is None or not any(strip(p.term(x)) == mid or strip(strip(p.term(x))) == mid for x in clo.caps.fields):
            return 'issuer lookup predicate does not capture the method id'
        rm = [c for c in p.find_calls(r'CoreDocument::resolve_method$') if p.took(c, 'Some')]
        if not rm:
            return 'method not resolved in the issuer document'
        a = rm[0].args
        if strip(a[0]) != ('field', fd[0].ret, 0, 'Some') or strip(a[1]) != mid or not is_proj_of(a[2], 'options', [si]):
            return 'resolve_method not called as (selected issuer, method id, options.method_scope)'
        key = p.term(out.fields[0])
        if not (apps(key, r'public_key_jwk$') and is_sub(key, rm[0].ret)):
            return 'returned key is not the JWK of the resolved method'
        return None
    A.require('parse_jwk/nonce-kid-issuer-scope', okp, r_pj, replay=REPLAY)
    A.no_panic('parse_jwk/no-panic', paths, replay=REPLAY)
    # the credential handed back is rebuilt from the claims only after every member repeated inside vc agreed with them
    import c07
    c07.credential_consistency(A, prog, REPLAY)

    cl = [g for g in prog.funcs if re.search(r'jwt_credential_validator::<impl at [^>]*>::parse_jwk::\{closure#\d+\}$', g.name)
          and g.ret_ty == 'bool']
    if len(cl) != 1:
        raise Refuse('issuer lookup closure: %d candidates' % len(cl))
    paths, ex = A.paths(cl[0])

    def r_find(p):
        if p.kind != 'return' or not isinstance(p.val, VBool):
            return 'not boolean'
        eqs = [c for c in p.find_calls(r'PartialEq.*>::(eq|ne)$')]
        for c in eqs:
            xs = [strip(x) for x in c.args]
            a = [x for x in xs if x[0] == 'app' and re.search(r'CoreDocument::id$', x[1])]
            b = [x for x in xs if x[0] == 'app' and re.search(r'DIDUrl::did$', x[1])]
            if a and b:
                e = ex.sym_bool(c.ret).e
                want = e if c.name.endswith('::eq') else z3.Not(e)
                return None if p.implies(p.val.e == want) else 'predicate is not the equality'
        return 'issuer lookup does not compare document id with the method DID'
    A.require('parse_jwk/issuer-chosen-by-did-equality', paths, r_find, replay=REPLAY)

    # ----------------------------------------------------------------------------------------- verify_decoded_signature
    f = prog.one(r'::verify_decoded_signature$')
    paths, ex = A.paths(f, inline=r'::verify_signature_raw$')
    okp = [p for p in paths if p.kind == 'return' and p.is_ok()]
    DJ = S['DecodedJws']

    def r_vds(p):
        vs = [c for c in p.find_calls(r'JwsValidationItem::verify$') if p.took(c, 'Ok')]
        if not vs or [strip(a) for a in vs[0].args] != [('leaf', 'decoded'), ('leaf', 'signature_verifier'), ('leaf', 'public_key')]:
            return 'JwsValidationItem::verify(decoded, verifier, key) did not succeed'
        dj = ('field', vs[0].ret, 0, 'Ok')
        fj = [c for c in p.find_calls(r'from_json_slice$') if p.took(c, 'Ok')]
        if not fj or not is_sub(fj[0].args[0], fld(dj, DJ.index('claims'))):
            return 'claims not parsed from the verified payload'
        tc = [c for c in p.find_calls(r'::try_into_credential$') if p.took(c, 'Ok')]
        if not tc or strip(tc[0].args[0]) != ('field', fj[0].ret, 0, 'Ok'):
            return 'credential not reconstructed (with consistency check) from the parsed claims'
        out = p.payload()
        if strip(p.term(out.fields[DJC.index('credential')])) != ('field', tc[0].ret, 0, 'Ok'):
            return 'returned credential is not the reconstructed one'
        if not is_sub(p.term(out.fields[DJC.index('header')]), fld(dj, DJ.index('protected'))):
            return 'returned header is not the verified protected header'
        return None
    A.require('verify_decoded_signature/claims-from-verified-bytes', okp, r_vds, replay=REPLAY)

    f = prog.one(r'jwt_credential_validator::<impl at [^>]*>::decode$')
    paths, ex = A.paths(f)

    def r_dec(p):
        c = p.find_calls(r'decode_compact_serialization$')
        if p.kind == 'return' and len(c) == 1 and mentions(c[0].args[1], r'^credential_jws$') and c[0].args[2] == ('agg', 'Option', 'None', ()):
            if p.is_ok():
                return None if p.took(c[0], 'Ok') else 'decode success invented'
            return None
        return 'not decode_compact_serialization(jws bytes, no detached payload)'
    A.require('decode/compact-no-detached-payload', paths, r_dec, replay=REPLAY)

    # ---------------------------------------------------------------- validate_decoded_credential (semantic evaluation)
    f = prog.one(r'::validate_decoded_credential$')
    paths, ex = A.paths(f, inline=r'validate_decoded_credential::\{closure', extra_models=itermodels.ITER)
    ci = DJC.index('credential')
    ff = prog.enums['FailFast']
    units = [('issuance', r'check_issued_on_or_before$', CVO.index('latest_issuance_date')),
             ('expiry', r'check_expires_on_or_after$', CVO.index('earliest_expiry_date')),
             ('structure', r'check_structure$', None),
             ('subject-holder', r'check_subject_holder_relationship$', CVO.index('subject_holder_relationship')),
             ('status', r'check_status$', CVO.index('status'))]
    ctx.samples.append('validation units in order: %s' % [u[0] for u in units])

    def r_units(p):
        if p.kind != 'return':
            return 'panic ' + p.msg
        first = p.took(('leaf', 'fail_fast'), 'Continue') if False else p.implies(ex.discr_var(('leaf', 'fail_fast')) == ff['FirstError'])
        allm = p.implies(ex.discr_var(('leaf', 'fail_fast')) == ff['AllErrors'])
        failed, seen = [], []
        for nm, rx, oi in units:
            cs = p.find_calls(rx)
            if len(cs) > 1:
                return '%s evaluated twice' % nm
            if not cs:
                seen.append((nm, None))
                continue
            c = cs[0]
            if not is_proj_of(c.args[0], 'credential_token', [ci]):
                return '%s not evaluated on the token\'s credential' % nm
            if nm in ('issuance', 'expiry'):
                b = strip(c.args[1])
                opt = ('field', ('deref', ('leaf', 'options')), oi, '')
                if p.took(opt, 'Some'):
                    if not is_proj_of(b, 'options', [oi]):
                        return '%s compared with the wrong bound: %s' % (nm, term_str(b)[:80])
                elif not (p.took(opt, 'None') and b[0] == 'const'):
                    return '%s bound is neither the configured one nor the default' % nm
            if nm == 'subject-holder':
                if not (is_proj_of(c.args[1], 'options', [oi]) and is_proj_of(c.args[2], 'options', [oi])):
                    return 'subject-holder relationship not taken from the options'
            if nm == 'status':
                if strip(c.args[1]) != ('leaf', 'issuers') or not is_proj_of(c.args[2], 'options', [oi]):
                    return 'status not checked against (issuers, options.status)'
            okk, err = p.took(c, 'Ok'), p.took(c, 'Err')
            if not (okk or err):
                return '%s outcome not examined' % nm
            seen.append((nm, okk))
            if err:
                failed.append(('field', c.ret, 0, 'Err'))
        skipped = [nm for nm, o in seen if o is None]
        if p.is_ok():
            if failed:
                return 'accepted although a unit failed'
            for nm in skipped:
                if nm == 'subject-holder' and p.took(('field', ('deref', ('leaf', 'options')), units[3][2], ''), 'None'):
                    continue
                return 'accepted without evaluating %s' % nm
            return None if strip(p.term(p.payload())) == ('leaf', 'credential_token') else 'returned token is not the validated one'
        if not failed:
            return 'rejected although every evaluated unit passed'
        errs = p.payload()
        lst = errs.fields[0] if isinstance(errs, VAgg) and errs.fields else None
        if not (isinstance(lst, VAgg) and lst.ty == 'Vec'):
            return 'error list not built from the unit results'
        got = [strip(p.term(x)) for x in lst.fields]
        if first:
            return None if got == failed[:1] else 'first-error mode does not report exactly the first failing unit'
        if allm:
            # in all-errors mode nothing may be skipped
            for nm in skipped:
                if nm == 'subject-holder' and p.took(('field', ('deref', ('leaf', 'options')), units[3][2], ''), 'None'):
                    continue
                return 'all-errors mode skipped %s' % nm
            return None if got == failed else 'all-errors mode does not report every failing unit in order'
        return 'fail-fast mode undetermined'
    A.require('validate_decoded_credential/ok-iff-all-five-units-pass;errors-identify-failures', paths, r_units, replay=REPLAY)
    ctx.extra['unit_paths'] = len(paths)

    # ------------------------------------------------------------------------------------------ unit predicates (kernels)
    for nm, rx, op, leaf in (('check_expires_on_or_after', r'::check_expires_on_or_after$', 'ge', 'timestamp'),
                             ('check_issued_on_or_before', r'::check_issued_on_or_before$', 'le', 'timestamp')):
        f = prog.one(rx)
        paths, ex = A.paths(f)

        def r_cmp(p, nm=nm, op=op):
            if p.kind != 'return':
                return 'panic ' + p.msg
            cmps = [c for c in p.find_calls(r'PartialOrd.*>::(ge|le|gt|lt)$')]
            cred_side = 'expiration_date' if 'expires' in nm else 'issuance_date'
            ci_ = S['Credential'].index(cred_side)
            if not p.is_ok():
                return None
            if 'expires' in nm:
                none = p.find_calls(r'Option.*::is_none$')
                if p.took(fld(('deref', ('leaf', 'credential')), ci_), 'None'):
                    return None
            for c in cmps:
                m = re.search(r'::(ge|le|gt|lt)$', c.name).group(1)
                a, b = c.args
                a_cred, b_ts = is_proj_of(a, 'credential', [ci_]), mentions(b, r'^timestamp$')
                a_ts, b_cred = mentions(a, r'^timestamp$'), is_proj_of(b, 'credential', [ci_])
                flip = {'ge': 'le', 'le': 'ge', 'gt': 'lt', 'lt': 'gt'}
                eff = m if (a_cred and b_ts) else (flip[m] if (a_ts and b_cred) else None)
                if eff == op and p.took(c.ret, 'true'):
                    return None
            return '%s accepts without credential date %s bound (inclusive)' % (nm, '>=' if op == 'ge' else '<=')
        A.require('%s/inclusive-comparison-in-the-right-direction' % nm, paths, r_cmp, replay=REPLAY)


def is_opt_field(t, leaf, idx):
    for s in subterms(t):
        fp = field_path(s) if isinstance(s, tuple) and s and s[0] in ('field', 'ref', 'deref') else None
        if fp and fp[0] == leaf and fp[1] and fp[1][0][1] == idx:
            return True
    return False


def is_sub(t, want):
    return any(s == want for s in subterms(t))


def units(ctx, prog, only=None):
    """bodies of the validation units: structure, status (RevocationBitmap2022 path), subject-holder relationship"""
    A = Auditor(ctx, prog, only=only)
    S = prog.structs
    CR = S['Credential']
    RU = {'scenario': 'credential_validation', 'cex': {'only': '[unit]'}}

    # ---- extract_issuer / extract_issuer_from_jwt: the issuer DID is the *whole* issuer URL read as a DID (a DID URL built on a DID - with
    # a fragment, query or path - is not a DID, and must not be reduced to one: "the method's DID equals ... the credential's issuer")
    for nm in ('extract_issuer', 'extract_issuer_from_jwt'):
        fx = prog.one(r'jwt_credential_validator_utils::<impl at [^>]*>::%s$' % nm)
        xpaths, xex = A.paths(fx, same_file=True)

        def r_iss(p, nm=nm):
            if p.kind != 'return':
                return 'panic ' + p.msg
            if not p.is_ok():
                return None
            fs = [c_ for c_ in p.find_calls(r'FromStr>::from_str$') if p.took(c_, 'Ok')]
            if len(fs) != 1 or strip(p.term(p.payload())) != ('field', fs[0].ret, 0, 'Ok'):
                return 'the DID returned is not what D::from_str accepted'
            a = fs[0].args[0]
            # from the top of the argument down to the issuer's url(): value-preserving views only (as_str / deref)
            while isinstance(a, tuple):
                if a[0] in ('ref', 'deref'):
                    a = a[1]
                elif a[0] == 'app' and len(a[2]) == 1 and re.search(r'::as_str$|Deref|as_ref$', a[1]):
                    a = a[2][0]
                else:
                    break
            if not (isinstance(a, tuple) and a[0] == 'app' and re.search(r'Issuer::url$|::url$', a[1])):
                return 'the issuer DID is not parsed from the whole issuer URL text (%s)' % term_str(a)[:60]
            if p.find_calls(r'DIDUrl::parse$|DIDUrl::did$'):
                return 'the issuer DID is obtained by reducing a DID URL'
            return None
        A.require('%s/the-whole-issuer-url-read-as-a-did' % nm, xpaths, r_iss, replay={'scenario': 'credential_validation', 'cex': {'only': '[issuer-url]'}})

    # ---- Credential::check_structure: base context *first*, base type present, at least one subject, no empty subject
    f = prog.one(r'credential::credential::<impl at [^>]*>::check_structure$')
    paths, ex = A.paths(f, unwind=2, allow_bound=True)
    ctx.bounds.append('check_structure: subject loop unrolled twice')

    def selff(name):
        return ('field', ('deref', ('leaf', 'self')), CR.index(name), '')

    def is_self_field(t, name):
        fp = field_path(strip(t))
        return bool(fp) and fp[0] == 'self' and [i for _, i in fp[1]][:1] == [CR.index(name)]

    def r_struct(p):
        if p.kind != 'return':
            return 'panic ' + p.msg
        if not p.is_ok():
            return None
        g = [c for c in p.find_calls(r'OneOrMany.*::get$') if is_self_field(c.args[0], 'context') and strip(c.args[1]) == ('const', 0) and p.took(c, 'Some')]
        if not g:
            return 'accepted without reading the context at position 0'
        first = ('field', g[0].ret, 0, 'Some')
        eqs = [c for c in p.find_calls(r'PartialEq.*>::eq$') if is_sub(c.args[0], first) and apps(c.args[1], r'base_context$') and p.took(c.ret, 'true')]
        if not eqs:
            return 'accepted without the first context comparing equal to the base context'
        anyc = [c for c in p.calls if re.search(r'Iterator>::any$', c.name) and mentions(c.args, r'^self$') and p.took(c.ret, 'true')]
        if not any(apps(c.args[0], r'OneOrMany::iter$') and is_self_field(apps(c.args[0], r'OneOrMany::iter$')[0][2][0], 'types') for c in anyc):
            return 'accepted without the base type being found among the types'
        ie = [c for c in p.find_calls(r'OneOrMany.*::is_empty$') if is_self_field(c.args[0], 'credential_subject') and p.took(c.ret, 'false')]
        if not ie:
            return 'accepted without at least one subject'
        return None
    A.require('check_structure/base-context-first-base-type-some-subject', paths, r_struct, replay=RU)

    # ---- check_status (RevocationBitmap2022): a status is skipped only by SkipAll, or by SkipUnsupported for *another type*;
    #      a status of the supported type that does not convert, or whose issuer / service / index lookup fails, is an error
    f = prog.one(r'jwt_credential_validator_utils::<impl at [^>]*>::check_status$')
    paths, ex = A.paths(f, inline=r'check_status::\{closure')
    SC = prog.enums['StatusCheck']

    def r_status(p):
        if p.kind != 'return':
            return 'panic ' + p.msg
        if not p.is_ok():
            return None
        def mode_is(name):
            return any(p.took(c.ret, 'true') for c in p.find_calls(r'StatusCheck as PartialEq>::eq$') if name in term_str(c.args[1]) and mentions(c.args[0], r'^status_check$')) or \
                p.implies(ex.discr_var(('leaf', 'status_check')) == z3.BitVecVal(SC[name], 64))
        if mode_is('SkipAll'):
            return None
        cs = ('field', ('deref', ('leaf', 'credential')), CR.index('credential_status'), '')
        if p.took(cs, 'None'):
            return None
        conv = [c for c in p.calls if re.search(r'RevocationBitmapStatus as .*TryFrom<.*Status>>::try_from$|RevocationBitmapStatus::try_from$', c.name)]
        if any(p.took(c, 'Err') for c in conv):
            return 'a RevocationBitmap2022 status that does not convert is accepted'
        chk = [c for c in p.find_calls(r'check_revocation_bitmap_status$') if p.took(c, 'Ok')]
        if chk:
            if not conv or not is_sub(chk[0].args[1], ('field', conv[0].ret, 0, 'Ok')):
                return 'bitmap checked for something that is not the converted status'
            return None
        # accepted without the bitmap check: only an unsupported *type* under SkipUnsupported
        tyne = [c for c in p.find_calls(r'PartialEq.*>::(ne|eq)$') if mentions(c.args, r'^credential$') and
                p.took(c.ret, 'true' if c.name.endswith('::ne') else 'false')]
        if tyne and mode_is('SkipUnsupported') and not conv:
            return None
        return 'status accepted without the bitmap check, SkipAll, or an unsupported type under SkipUnsupported'
    A.require('check_status/skipped-only-as-configured-else-bitmap-checked', paths, r_status, replay=RU)

    # ---- check_revocation_bitmap_status: Ok iff the resolved bitmap does not contain the status index
    f = prog.one(r'jwt_credential_validator_utils::<impl at [^>]*>::check_revocation_bitmap_status$')
    paths, ex = A.paths(f, inline=r'check_revocation_bitmap_status::\{closure')

    def r_rbs(p):
        if p.kind != 'return':
            return 'panic ' + p.msg
        if not p.is_ok():
            return None
        rb = [c for c in p.find_calls(r'resolve_revocation_bitmap$') if p.took(c, 'Ok')]
        ix = [c for c in p.find_calls(r'RevocationBitmapStatus::index$') if p.took(c, 'Ok') and mentions(c.args, r'^status$')]
        ir = [c for c in p.find_calls(r'is_revoked$') if p.took(c.ret, 'false')]
        if not rb or not ix or not ir:
            return 'accepted without resolve_revocation_bitmap / index / is_revoked == false'
        idx = ir[0].argvals[1] if len(ir[0].argvals) > 1 else None
        same_idx = isinstance(idx, VInt) and p.implies(idx.e == ex.sym_int(('field', ix[0].ret, 0, 'Ok'), 32).e)
        if not is_sub(ir[0].args[0], ('field', rb[0].ret, 0, 'Ok')) or not same_idx:
            return 'membership tested on another bitmap or index'
        return None
    A.require('check_revocation_bitmap_status/accepted-only-if-index-not-in-the-issuers-bitmap', paths, r_rbs, replay=RU)

    # ---- subject-holder relationship: "the holder is the subject" means the one subject's id *is present and equal* to the holder
    f = prog.one(r'jwt_credential_validator_utils::<impl at [^>]*>::check_subject_holder_relationship$')
    paths, ex = A.paths(f, inline=r'check_subject_holder_relationship::\{closure')
    REL = prog.enums['SubjectHolderRelationship']
    nt = CR.index('non_transferable')

    def r_shr(p):
        if p.kind != 'return':
            return 'panic ' + p.msg
        d = ex.discr_var(('leaf', 'relationship'))
        rel = [k for k, v in REL.items() if p.implies(d == z3.BitVecVal(v, 64))]
        if len(rel) != 1:
            return None    # relation not fixed on this path (decided before the relation is looked at)
        rel = rel[0]
        eqs = [c for c in p.calls if re.search(r'PartialEq.*>::eq$', c.name) and mentions(c.args, r'^credential$') and mentions(c.args, r'^holder$')]
        matched = any(p.took(c.ret, 'true') for c in eqs)
        opaque = [c for c in p.calls if re.search(r'Iterator>::(all|any|fold|find)$|Option<.*>::(is_none_or|map_or|is_some_and)$', c.name)]
        if opaque:
            return 'the subject-id / holder comparison goes through %s: an absent id may count as a match' % opaque[0].name.split('::')[-1]
        ntv = ('field', ('deref', ('leaf', 'credential')), nt, '')
        non_transferable = p.took(ntv, 'Some') and p.took(('field', ntv, 0, 'Some'), 'true')
        if p.is_ok():
            if rel == 'AlwaysSubject' and not matched:
                return 'AlwaysSubject satisfied without the subject id being present and equal to the holder'
            if rel == 'SubjectOnNonTransferable' and non_transferable and not matched:
                return 'non-transferable credential accepted for a holder that is not its subject'
            return None
        if rel == 'Any':
            return 'relationship Any refused'
        if matched:
            return 'refused although the subject is the holder'
        if rel == 'SubjectOnNonTransferable' and not non_transferable:
            return 'transferable credential refused under SubjectOnNonTransferable'
        return None
    A.require('check_subject_holder_relationship/subject-id-present-and-equal', paths, r_shr, replay=RU)


def main(ctx):
    prog, info = load(CRATES, src_only=SRC)
    ctx.extra['mir'] = info
    ctx.bounds.append('all paths of validate / verify_signature_with_verifier / parse_jwk / verify_decoded_signature; '
                      'validate_decoded_credential evaluated over all 2^5 unit outcomes x fail-fast mode x option presence')
    ctx.outside += ['JSON parsing of claims/headers', 'cryptographic verification', ]
    guarded(ctx, 'credential validation audit', 'M', lambda: run(ctx, prog))
    guarded(ctx, 'validation unit bodies', 'M', lambda: units(ctx, prog))
    # the kid (a typed DIDUrl) is resolved inside the issuer document within the configured scope: C04's obligations on the query
    # conversion and on scoped resolution, re-used
    import c04

    def method_lookup():
        prog2, info2 = load(c04.CRATES, src_only=c04.SRC)
        c04.run(ctx, prog2, only=r'^DIDUrlQuery::|^resolve_method/|^resolve_method_inner/|^resolve_method_ref/')
    guarded(ctx, 'method lookup in the issuer document', 'M', method_lookup)
    # "the credential returned is the one that was signed" and the issuance bound both read the issuance date: nbf, else iat (C07's
    # numeric-date obligation, re-used)
    import c07
    guarded(ctx, 'issuance date of the claims (shared with C07)', 'M', lambda: c07.run(ctx, load(c07.CRATES, src_only=c07.SRC)[0], only=r'^numeric-dates/'))
