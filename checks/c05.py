"""C05 - no parser, decoder or validator panics on externally supplied data (engine M panic-reachability sweep).

Every listed entry point is executed symbolically from its MIR with callee results unconstrained; each MIR `assert`
terminator (overflow, index, slice) and each unwrap/expect on a callee outcome is a panic outcome.  A reachable panic
outcome is a candidate unless the site is on the contract list below (an `expect` whose callee cannot fail because of
a guard established elsewhere - each with the obligation that establishes it).  Candidates are replayed with the
panic-only view of every native battery.
"""
import re
import z3
from core import *
import execu
from execu import Exec, State, Refuse
from values import *
from audit import *
from loader import load
import models
import panicmodels

CRATES = ['identity_core', 'identity_did', 'identity_jose', 'identity_verification', 'identity_document', 'identity_credential',
          'identity_iota_core', 'identity_storage']
execu.BUILTIN_VARIANTS['Poll'] = {'Ready': 0, 'Pending': 1}

# (name, function regex, signature regex, inline regex, unwind)
ENTRY = [
    ('Timestamp::parse', r'timestamp::<impl at [^>]*>::parse$', None, None, 1),
    ('Timestamp::from_unix', r'timestamp::<impl at [^>]*>::from_unix$', None, None, 1),
    ('Timestamp::checked_add', r'timestamp::<impl at [^>]*>::checked_add$', None, r'checked_add::\{closure', 1),
    ('Timestamp::checked_sub', r'timestamp::<impl at [^>]*>::checked_sub$', None, r'checked_sub::\{closure', 1),
    ('Timestamp::to_rfc3339', r'timestamp::<impl at [^>]*>::to_rfc3339$', None, None, 1),
    ('CoreDID::parse', r'did::<impl at [^>]*>::parse$', r'CoreDID', r'did::<impl at [^>]*>::(try_from|check_validity)$', 1),
    ('CoreDID::set_method_id', r'did::<impl at [^>]*>::set_method_id$', None, None, 1),
    ('CoreDID::set_method_name', r'did::<impl at [^>]*>::set_method_name$', None, None, 1),
    ('DIDUrl::parse', r'did_url::<impl at [^>]*>::parse$', r'DIDUrl', r'from_base_did_url$', 1),
    ('DIDUrl::join', r'did_url::<impl at [^>]*>::join$', r'DIDUrl', r'from_base_did_url$', 1),
    ('RelativeDIDUrl::set_path', r'did_url::<impl at [^>]*>::set_path$', r'^&mut (\w+::)*RelativeDIDUrl', r'set_path::\{closure', 1),
    ('RelativeDIDUrl::set_query', r'did_url::<impl at [^>]*>::set_query$', r'^&mut (\w+::)*RelativeDIDUrl', r'set_query::\{closure', 1),
    ('RelativeDIDUrl::set_fragment', r'did_url::<impl at [^>]*>::set_fragment$', r'^&mut (\w+::)*RelativeDIDUrl', r'set_fragment::\{closure', 1),
    ('DIDJwk::try_from<CoreDID>', r'did_jwk::<impl at [^>]*>::try_from$', r'CoreDID ->', r'did_jwk::<impl at [^>]*>::try_from::\{closure', 1),
    ('DIDJwk::jwk', r'did_jwk::<impl at [^>]*>::jwk$', None, None, 1),
    ('Decoder::decode_compact_serialization', r'decoder::<impl at [^>]*>::decode_compact_serialization$', None, r'expand_payload$|decode_signature$|DecodedHeaders::new$|decoder::<impl at [^>]*>::new$', 1),
    ('Decoder::decode_flattened_serialization', r'decoder::<impl at [^>]*>::decode_flattened_serialization$', None, r'expand_payload$|decode_signature$|decoder::<impl at [^>]*>::new$', 1),
    ('Decoder::decode_general_serialization', r'decoder::<impl at [^>]*>::decode_general_serialization$', None, r'expand_payload$', 1),
    ('JwsValidationItem::verify', r'decoder::<impl at [^>]*>::verify$', None, r'check_alg$', 1),
    ('validate_jws_headers', r'(^|::)validate_jws_headers$', None, r'validate_(b64|disjoint)$|validate_b64::\{closure', 1),
    ('validate_crit', r'(^|::)validate_crit$', None, r'validate_crit::\{closure', 2),
    ('CoreDocument::verify_jws', r'core_document::<impl at [^>]*>::verify_jws$', None, None, 1),
    ('CoreDocument::resolve_method', r'core_document::<impl at [^>]*>::resolve_method$', None, r'resolve_method(_inner|_ref)?(::\{closure.*)?$', 1),
    ('CoreDocument::insert_method', r'core_document::<impl at [^>]*>::insert_method$', None, None, 1),
    ('CoreDocument::remove_method_and_scope', r'core_document::<impl at [^>]*>::remove_method_and_scope$', None, r'remove_method_and_scope::\{closure', 6),
    ('CoreDocument::insert_service', r'core_document::<impl at [^>]*>::insert_service$', None, r'insert_service::\{closure', 1),
    ('CoreDocumentData::check_id_constraints', r'core_document::<impl at [^>]*>::check_id_constraints$', None, r'check_id_constraints::\{closure', 2),
    ('DIDUrlQuery::matches', r'did_url_query::<impl at [^>]*>::matches$', None, r'did_url_query::<impl at [^>]*>::(did_str|fragment)(::\{closure.*)?$', 1),
    ('StateMetadataDocument::unpack', r'state_metadata::document::<impl at [^>]*>::unpack$', None, r'.', 1),
    ('StateMetadataDocument::into_iota_document', r'state_metadata::document::<impl at [^>]*>::into_iota_document$', None, None, 1),
    ('IotaDID::parse', r'iota_did::<impl at [^>]*>::parse$', None, r'iota_did::<impl at [^>]*>::(try_from_core|check_validity|check_method|check_tag|check_network|denormalized_components)(::\{closure.*)?$', 1),
    ('IotaDID::try_from_core', r'iota_did::<impl at [^>]*>::try_from_core$', None, r'iota_did::<impl at [^>]*>::(check_validity|check_method|check_tag|check_network|normalize|denormalized_components)(::\{closure.*)?$', 1),
    ('IotaDID::network_str', r'iota_did::<impl at [^>]*>::network_str$', None, r'denormalized_components(::\{closure.*)?$', 1),
    ('IotaDID::tag_str', r'iota_did::<impl at [^>]*>::tag_str$', None, r'denormalized_components(::\{closure.*)?$', 1),
    ('NetworkName::validate_network_name', r'network_name::<impl at [^>]*>::validate_network_name$', None, r'validate_network_name::\{closure#0\}$', 1),
    ('MethodDigest::unpack', r'method_digest::<impl at [^>]*>::unpack$', None, r'unpack::\{closure', 1),
    ('RevocationBitmap::try_from<&Service>', r'bitmap::<impl at [^>]*>::try_from$', None, r'try_from_endpoint$|deserialize_compressed_base64(::\{closure.*)?$', 1),
    ('RevocationBitmapStatus::try_from<Status>', r'revocation_bitmap_status::<impl at [^>]*>::try_from$', None, r'revocation_bitmap_status::<impl at [^>]*>::try_from::\{closure', 2),
    ('RevocationBitmapStatus::index', r'revocation_bitmap_status::<impl at [^>]*>::index$', None, r'index::\{closure', 2),
    ('JwtCredentialValidator::validate', r'jwt_credential_validator::<impl at [^>]*>::validate$', None, r'jwt_credential_validator::<impl at [^>]*>::(verify_signature|verify_signature_with_verifier|decode|verify_decoded_signature|verify_signature_raw|parse_jwk)(::\{closure.*)?$', 1),
    ('JwtPresentationValidator::validate', r'jwt_presentation_validator::<impl at [^>]*>::validate$', None, r'jwt_presentation_validator::<impl at [^>]*>::validate::\{closure', 1),
    ('SdJwtCredentialValidator::validate_key_binding_jwt', r'sd_jwt::validator::<impl at [^>]*>::validate_key_binding_jwt$', None, r'validate_key_binding_jwt::\{closure', 1),
    ('SdJwtCredentialValidator::verify_signature', r'sd_jwt::validator::<impl at [^>]*>::verify_signature$', None, r'sd_jwt::validator::<impl at [^>]*>::verify_signature::\{closure', 1),
    ('CredentialJwtClaims::try_into_credential', r'credential::jwt_serialization::<impl at [^>]*>::try_into_credential$', None, r'check_consistency(::\{closure.*)?$|to_issuance_date(::\{closure.*)?$', 1),
    ('PresentationJwtClaims::try_into_presentation', r'presentation::jwt_serialization::<impl at [^>]*>::try_into_presentation$', None, r'check_consistency(::\{closure.*)?$', 1),
    # SD-JWT VC: claim paths / type metadata / token validation over externally supplied JSON
    ('ClaimMetadata::check_value_disclosability', r'claim::<impl at identity_credential/src/sd_jwt_vc/[^>]*>::check_value_disclosability$', None, r'check_value_disclosability::\{closure', 2),
    ('ClaimPath::reverse_index', r'claim::<impl at identity_credential/src/sd_jwt_vc/[^>]*>::reverse_index$', None, r'reverse_index::\{closure', 2),
    ('OneOrManyValue::get', r'claim::<impl at identity_credential/src/sd_jwt_vc/[^>]*>::get$', None, r'claim::<impl at [^>]*>::get::\{closure', 2),
    ('claim::index_value', r'^index_value$', None, r'index_value::\{closure', 1),
    ('OneOrManyValueIter::next', r'claim::<impl at identity_credential/src/sd_jwt_vc/[^>]*>::next$', None, None, 1),
    ('ClaimPath::try_from<Vec>', r'claim::<impl at identity_credential/src/sd_jwt_vc/[^>]*>::try_from$', r'Vec<', None, 1),
    ('SdJwtVcClaims::try_from_sd_jwt_claims', r'claims::<impl at identity_credential/src/sd_jwt_vc/[^>]*>::try_from_sd_jwt_claims$', None, r'try_from_sd_jwt_claims::\{closure', 1),
    ('SdJwtVc::verify_signature', r'token::<impl at identity_credential/src/sd_jwt_vc/[^>]*>::verify_signature$', None, r'token::<impl at identity_credential/src/sd_jwt_vc/[^>]*>::verify_signature::\{closure', 1),
    ('SdJwtVc::validate_claims_disclosability', r'token::<impl at identity_credential/src/sd_jwt_vc/[^>]*>::validate_claims_disclosability$', None, r'validate_claims_disclosability::\{closure', 2),
    ('SdJwtVc::verify_key_binding', r'token::<impl at identity_credential/src/sd_jwt_vc/[^>]*>::verify_key_binding$', None, r'token::<impl at identity_credential/src/sd_jwt_vc/[^>]*>::verify_key_binding::\{closure', 1),
    ('SdJwtVc::validate_key_binding', r'token::<impl at identity_credential/src/sd_jwt_vc/[^>]*>::validate_key_binding$', None, r'token::<impl at identity_credential/src/sd_jwt_vc/[^>]*>::validate_key_binding::\{closure', 1),
    ('sd_jwt_vc::vct_to_url', r'^vct_to_url$', None, r'vct_to_url::\{closure', 1),
    ('SdJwtVc::try_from<SdJwt>', r'token::<impl at identity_credential/src/sd_jwt_vc/[^>]*>::try_from$', r'SdJwt', r'token::<impl at identity_credential/src/sd_jwt_vc/[^>]*>::try_from::\{closure', 1),
    ('IssuerMetadata::validate', r'issuer::<impl at identity_credential/src/sd_jwt_vc/[^>]*>::validate$', None, r'issuer::<impl at [^>]*>::validate::\{closure', 1),
    ('TypeMetadata::validate_credential', r'vc_type::<impl at identity_credential/src/sd_jwt_vc/[^>]*>::validate_credential$', None, r'validate_credential::\{closure', 1),
    ('vc_type::validate_credential_with_schema', r'^validate_credential_with_schema$', None, r'validate_credential_with_schema::\{closure', 1),
    # serialisers of accepted values (the claims constructors index / unwrap what the credential carries)
    ('CredentialJwtClaims::new', r'credential::jwt_serialization::<impl at [^>]*>::new$', r'Credential<T>', r'jwt_serialization::<impl at [^>]*>::new($|::\{closure)', 1),
    ('PresentationJwtClaims::new', r'presentation::jwt_serialization::<impl at [^>]*>::new$', r'Presentation<', r'jwt_serialization::<impl at [^>]*>::new($|::\{closure)', 1),
    ('Jwk::to_public', r'jwk::key::<impl at [^>]*>::to_public$', None, r'key_params::<impl at [^>]*>::to_public$|jwk::key::<impl at [^>]*>::(use_|alg|kid|key_ops|params|from_params|is_public)$', 1),
]

# the bundled signature verifiers (a second program: their crates): decoded signature and key come from the token / the document
CRATES_V = ['identity_eddsa_verifier', 'identity_ecdsa_verifier']
ENTRY_V = [
    ('Ed25519Verifier::verify', r'ed25519_verifier::<impl at [^>]*>::verify$', None, r'ed25519_verifier::<impl at [^>]*>::verify::\{closure', 1),
    ('Secp256R1Verifier::verify', r'secp256r1::<impl at [^>]*>::verify$', None, r'secp256r1::<impl at [^>]*>::verify::\{closure', 1),
    ('Secp256K1Verifier::verify', r'secp256k1::<impl at [^>]*>::verify$', None, r'secp256k1::<impl at [^>]*>::verify::\{closure', 1),
    ('EdDSAJwsVerifier::verify', r'eddsa_verifier::<impl at [^>]*>::verify$', None, None, 1),
    ('EcDSAJwsVerifier::verify', r'ecdsa_jws_verifier::<impl at [^>]*>::verify$', None, None, 1),
]

# async validators over issuer-supplied SD-JWT VC metadata: the coroutine bodies from their initial state, awaited resolver calls
# complete immediately with unconstrained results (fault-schedule mode, as in C09)
ENTRY_CO = [
    ('TypeMetadata::validate_credential_with_resolver (recursive body)', r'validate_credential_impl::\{closure#0\}$'),
    ('TypeMetadata::validate_credential_with_resolver', r'vc_type::<impl at [^>]*>::validate_credential_with_resolver::\{closure#0\}$'),
    ('SdJwtVc::issuer_metadata', r'token::<impl at [^>]*sd_jwt_vc[^>]*>::issuer_metadata::\{closure#0\}$'),
    ('SdJwtVc::type_metadata', r'token::<impl at [^>]*sd_jwt_vc[^>]*>::type_metadata::\{closure#0\}$'),
    ('SdJwtVc::issuer_jwk', r'token::<impl at [^>]*sd_jwt_vc[^>]*>::issuer_jwk::\{closure#0\}$'),
    ('SdJwtVc::issuer_jwk_from_iss_metadata', r'token::<impl at [^>]*sd_jwt_vc[^>]*>::issuer_jwk_from_iss_metadata::\{closure#0\}$'),
    ('SdJwtVc::validate', r'token::<impl at [^>]*sd_jwt_vc[^>]*>::validate::\{closure#0\}$'),
]

# panic sites that are unreachable because of a guard decided elsewhere (site regex on the panic message -> justification)
CONTRACTS = [
    (r'expect on .* in .*timestamp::<impl[^>]*>::to_rfc3339', 'Rfc3339 formatting of a UTC instant in years 0000-9999 cannot fail; the range is established by every constructor (C13 gate + routing obligations)'),
    (r'expect on .* in .*did_jwk::<impl[^>]*>::jwk', 'DIDJwk is only constructed by TryFrom<CoreDID>, which decodes the same method id successfully (audited here: DIDJwk::try_from<CoreDID>)'),
    (r'expect on .* in .*iota_did::<impl[^>]*>::normalize', 'set_method_id(tag) on a DID that passed check_tag: a prefixed-hex tag satisfies valid_method_id (C10 validator + C17 check_tag)'),
    (r'overflow" in core_document::<impl>::check_id_constraints', 'sum of six Vec lengths cannot overflow usize (allocation limit isize::MAX bytes per Vec of non-zero-sized entries)'),
    (r'overflow" in did_url_query::<impl>::fragment', 'index + 1 where index was returned by str::rfind on the same string: index < len <= isize::MAX'),
    (r'Option::unwrap on None in token::<impl[^>]*>::verify_signature', 'SdJwt\'s Display (third-party sd-jwt-payload) writes "<jwt>~" followed by the disclosures: the text always contains a "~", so split_once cannot fail'),
    (r'unwrap on (Err|None) in token::<impl[^>]*>::validate_key_binding', 'Jwk is a struct with string/array members: its serde_json value exists and is an object'),
    (r'Option::expect on None in token::<impl[^>]*>::validate_key_binding', 'rfind(\'~\') on the Display text of an SD-JWT (third-party formatter: "<jwt>~<disclosures~>[kb]" always contains a "~")'),
    (r'Result::unwrap on Err in vct_to_url', 'origin of an https URL ("https://host[:port]") + "/.well-known/vct" + the URL\'s own path (starts with "/") is again an https URL'),
    (r'expect on .* in revocation_bitmap_status', 'Url::set_query / query_pairs on a URL the same function just built (infallible by construction)'),
]


def run(ctx, prog, entries=None):
    held = 0
    for (name, rx, sig, inline, unwind) in (entries or ENTRY):
        def one(name=name, rx=rx, sig=sig, inline=inline, unwind=unwind):
            f = prog.one(rx, sig=sig)
            A = Auditor(ctx, prog)
            try:
                paths, ex = A.paths(f, inline=inline, unwind=unwind, allow_bound=True, max_depth=8, same_file=True, extra_models=panicmodels.PANIC_MODELS)
            except Refuse as e:
                # a same-file helper the executor cannot follow stays an uninterpreted callee (as listed per entry point)
                note = '%s: same-file helpers not inlined (%s)' % (name, str(e)[:80])
                if note not in ctx.outside:
                    ctx.outside.append(note)
                paths, ex = A.paths(f, inline=inline, unwind=unwind, allow_bound=True, max_depth=8, extra_models=panicmodels.PANIC_MODELS)
            panics = [p for p in paths if p.kind == 'panic']
            reach = [p for p in paths if p.kind == 'return']
            if not reach:
                raise Refuse('%s: no returning path' % name)
            bad, assumed = [], []
            for p in panics:
                j = [why for (pat, why) in CONTRACTS if re.search(pat, p.msg)]
                (assumed if j else bad).append((p, j[0] if j else None))
            for p, why in assumed:
                note = 'contract: %s -- %s' % (p.msg[:120], why)
                if note not in ctx.assumptions:
                    ctx.assumptions.append(note)
            if not bad:
                ctx.add(Ob('%s/no-reachable-panic' % name, 'M', HELD, queries=len(paths),
                           sample='%s: %d paths, %d panic outcomes all on the contract list' % (name, len(paths), len(panics)),
                           bounds='loops unrolled %dx' % unwind if unwind > 1 else ''))
                return
            p, _ = bad[0]
            from replay import run_replay
            rep = {'scenario': 'panic_sweep'}
            res = run_replay(rep)
            st = VIOLATED if res.get('reproduced') else INCONCLUSIVE
            ctx.add(Ob('%s/no-reachable-panic' % name, 'M', st,
                       detail='panic reachable with callee results unconstrained: %s [path: %s]; native: %s' %
                       (p.msg[:200], '; '.join(short_call(c) for c in p.calls if not c.inlined)[:300], res.get('detail', '')[:300]),
                       replay=rep, queries=len(paths)))
        guarded(ctx, '%s/no-reachable-panic' % name, 'M', one)


def integrity_contract(ctx, prog):
    """IntegrityMetadata (sd_jwt_vc): the accessors unwrap what the only constructor validated.  The constructor obligation and the
    accessor shapes are decided together; the unwraps in the accessors are justified only while both hold."""
    A = Auditor(ctx, prog)
    RB = {'scenario': 'malformed_inputs', 'cex': {'only': '[integrity]'}}
    IMPL = r'sd_jwt_vc::metadata::integrity::<impl at [^>]*>::|integrity::<impl at [^>]*>::'
    DASH = ('const', 45)

    def is_value(t, leaf):
        t = strip(t)
        while isinstance(t, tuple) and t and t[0] == 'app' and re.search(r'Deref>::deref$|as_str$|AsRef<str>>::as_ref$', t[1]):
            t = strip(t[2][0])
        fp = field_path(t)
        return bool(fp) and fp[0] == leaf

    f = prog.one(r'integrity::<impl at [^>]*>::try_from$', sig=r'^(\w+::)*String')
    paths, ex = A.paths(f, inline=r'integrity::<impl at [^>]*>::try_from::\{closure')

    def r_ctor(p):
        if p.kind != 'return':
            return 'panic ' + p.msg
        if not p.is_ok():
            return None
        sp = [c for c in p.find_calls(r'<impl str>::splitn$') if is_value(c.args[0], 'value') and strip(c.args[1]) == ('const', 3) and strip(c.args[2]) == DASH]
        if len(sp) != 1:
            return 'accepted without splitting the value into at most three parts at "-"'
        nx = [c for c in p.find_calls(r'SplitN<.*Iterator>::next$') if p.took(c, 'Some')]
        if len(nx) < 2:
            return 'accepted without an algorithm part and a digest part'
        dec = [c for c in p.find_calls(r'BaseEncoding::decode$') if p.took(c, 'Ok') and is_sub(c.args[0], ('field', nx[1].ret, 0, 'Some')) and 'Base64' in term_str(c.args[1]) and 'Base64Url' not in term_str(c.args[1])]
        if not dec:
            return 'accepted without the second part decoding as Base64'
        out = p.payload()
        if not (isinstance(out, VAgg) and len(out.fields) == 1 and is_value(p.term(out.fields[0]), 'value')):
            return 'stored text is not the validated text'
        return None
    ok1 = A.require('IntegrityMetadata::try_from<String>/validates-alg-and-base64-digest-parts', paths, r_ctor, replay=RB)

    shapes = {
        'alg': lambda p: bool([c for c in p.find_calls(r'<impl str>::split_once$') if is_value(c.args[0], 'self') and strip(c.args[1]) == DASH]),
        'digest': lambda p: bool([c for c in p.find_calls(r'<impl str>::split$') if is_value(c.args[0], 'self') and strip(c.args[1]) == DASH]) and
        bool([c for c in p.find_calls(r'Split<.*Iterator>::nth$') if strip(c.args[1]) == ('const', 1)]),
        'digest_bytes': lambda p: bool([c for c in p.find_calls(r'BaseEncoding::decode$') if apps(c.args[0], r'IntegrityMetadata::digest$') and 'Base64' in term_str(c.args[1]) and 'Base64Url' not in term_str(c.args[1])]),
    }
    for nm, shape in shapes.items():
        f = prog.one(r'integrity::<impl at [^>]*>::%s$' % nm)
        paths, ex = A.paths(f)
        A.require('IntegrityMetadata::%s/reads-the-part-the-constructor-validated' % nm, paths,
                  lambda p, shape=shape, nm=nm: None if shape(p) else '%s() does not read the part the constructor validated' % nm, replay=RB)
    for g in ('from_str', 'parse'):
        f = prog.one(r'integrity::<impl at [^>]*>::%s$' % g)
        paths, ex = A.paths(f, inline=r'integrity::<impl at [^>]*>::(from_str|parse)$')
        A.require('IntegrityMetadata::%s/goes-through-try_from' % g, [p for p in paths if p.kind == 'return'],
                  lambda p: None if apps(p.term(), r'IntegrityMetadata as .*TryFrom<.*String>>::try_from$|IntegrityMetadata::try_from$|FromStr>::from_str$|str>::parse') else 'constructor bypasses try_from', replay=RB)
    ctx.assumptions.append('contract: the unwraps in IntegrityMetadata::{alg, digest, digest_bytes} are unreachable for values built by its only constructor '
                           '(decided together: constructor validates "alg-<base64>[-options]", accessors read those parts)')


def is_sub(t, want):
    return any(s == want for s in subterms(t))


def main(ctx):
    prog, info = load(CRATES)
    ctx.extra['mir'] = info
    ctx.bounds.append('%d entry points; every acyclic path with callee results unconstrained; loops unrolled as noted per obligation' % (len(ENTRY) + len(ENTRY_V) + len(ENTRY_CO)))
    ctx.outside += ['panics inside callees that are not inlined: serde_json, the third-party did_url_parser beyond its method-id cursor kernel, url, time, flate2, roaring, prefix_hex, sd-jwt-payload',
                    'entry points whose body is a serde derive or an async state machine not listed above', 'SD-JWT VC: async metadata fetching (resolver callbacks), the JSON-schema validator and serde derives', 'StatusList2021 get/set/entry/set_entry: decided under C12 on a precise list model (any length <= 2^60 bytes)']
    run(ctx, prog)

    def coroutines():
        import c09
        from replay import run_replay
        for name, rx in ENTRY_CO:
            def one(name=name, rx=rx):
                fs = prog.find(rx)
                if len(fs) != 1:
                    raise Refuse('%s: %d coroutine bodies match' % (name, len(fs)))
                paths, ex = c09.coroutine_paths(ctx, prog, fs[0], max_paths=100000)
                bad = []
                for p in paths:
                    if p.kind == 'panic' and not any(re.search(pat, p.msg) for pat, _ in CONTRACTS):
                        bad.append(p)
                if not [p for p in paths if p.kind == 'return']:
                    raise Refuse('%s: no returning path' % name)
                if not bad:
                    ctx.add(Ob('%s/no-reachable-panic' % name, 'M', HELD, queries=len(paths), sample='%s: %d ready-paths, no panic outcome' % (name, len(paths))))
                    return
                rep = {'scenario': 'panic_sweep'}
                res = run_replay(rep)
                ctx.add(Ob('%s/no-reachable-panic' % name, 'M', VIOLATED if res.get('reproduced') else INCONCLUSIVE,
                           detail='panic reachable: %s; native: %s' % (bad[0].msg[:200], res.get('detail', '')[:300]), replay=rep, queries=len(paths)))
            guarded(ctx, '%s/no-reachable-panic' % name, 'M', one)
    coroutines()

    def verifiers():
        prog_v, info_v = load(CRATES_V, src_only=['identity_jose'])
        ctx.extra['mir_verifiers'] = info_v
        run(ctx, prog_v, entries=ENTRY_V)
    guarded(ctx, 'bundled signature verifiers', 'M', verifiers)
    # the one third-party callee that is reachable with attacker-chosen text and whose MIR is small enough: the DID-URL parser's
    # method-id phase (cursor inside the input <=> the accessors of an accepted DID cannot slice out of range); shared with C10
    guarded(ctx, 'IntegrityMetadata accessor contract', 'M', lambda: integrity_contract(ctx, prog))
    import c10
    guarded(ctx, 'third-party parser cursor', 'M', lambda: c10.parser_cursor(ctx))
