"""C04 - DID document id-uniqueness and resolution across mutation histories (engine M, one step each).

Every checked mutator / resolver of CoreDocument is acyclic at MIR level (set operations are callees).  Each is audited
against the abstract set-of-entries model: which of the seven sets it touches for which scope / relationship, under which
guard, and that a refused operation performs no set mutation.  The constructor gate check_id_constraints is audited with
its three loops unrolled twice.
"""
import re
import z3
from core import *
from execu import Refuse, VOver
from values import *
from audit import *
from loader import load

CRATES = ['identity_document']
SRC = ['identity_verification', 'identity_did', 'identity_core']
REPLAY = {'scenario': 'document_ops'}
REL = {'Authentication': 'authentication', 'AssertionMethod': 'assertion_method', 'KeyAgreement': 'key_agreement',
       'CapabilityDelegation': 'capability_delegation', 'CapabilityInvocation': 'capability_invocation'}


def is_sub(t, want):
    return any(s == want for s in subterms(t))


def run(ctx, prog, only=None):
    A = Auditor(ctx, prog, only=only)
    S = prog.structs
    DATA = S['CoreDocumentData']
    DOC = S['CoreDocument']
    di = DOC.index('data')
    IMPL = r'core_document::<impl at [^>]*>::'
    rel_enum = prog.enums['MethodRelationship']
    scope_enum = prog.enums['MethodScope']

    def set_of(t):
        """name of the CoreDocumentData set a term projects (self.data.<set>)"""
        for s in subterms(t):
            fp = field_path(s) if isinstance(s, tuple) and s and s[0] in ('field', 'ref', 'deref') else None
            if fp and fp[0] == 'self' and len(fp[1]) >= 2 and fp[1][0][1] == di:
                return DATA[fp[1][1][1]]
        return None

    def scope_on_path(p, ex, leaf):
        """('VerificationMethod', None) or ('VerificationRelationship', rel) as branched on by this path"""
        d = ex.discr_var(('leaf', leaf))
        if p.implies(d == scope_enum['VerificationMethod']):
            return 'verification_method'
        if p.implies(d == scope_enum['VerificationRelationship']):
            dr = ex.discr_var(('field', ('leaf', leaf), 0, 'VerificationRelationship'))
            for nm, idx in rel_enum.items():
                if p.implies(dr == idx):
                    return REL[nm]
        return None

    def rel_on_path(p, ex, leaf):
        d = ex.discr_var(('leaf', leaf))
        for nm, idx in rel_enum.items():
            if p.implies(d == idx):
                return REL[nm]
        return None

    # ------------------------------------------------------------------------------------------------------ insert_method
    f = prog.one(IMPL + r'insert_method$')
    paths, ex = A.paths(f)

    def r_im(p):
        if p.kind != 'return':
            return 'panic ' + p.msg
        apps_ = [c for c in p.find_calls(r'OrderedSet.*::append$')]
        rm = [c for c in p.find_calls(r'CoreDocument::resolve_method$')]
        sq = [c for c in p.calls if re.search(r'Queryable.*>::query$|::query$', c.name) and apps(('x', tuple(c.args)), r'CoreDocument::service$')]
        if p.is_err():
            return 'refused insert_method modified the document' if apps_ else None
        if not rm or not apps(rm[0].args[1], r'VerificationMethod::id$') or not p.took(rm[0], 'None'):
            return 'method inserted although a method with that id may resolve'
        if rm[0].args[2] != ('agg', 'Option', 'None', ()):
            return 'id clash checked only within one scope'
        if not sq or not p.took(sq[0], 'None'):
            return 'method inserted although a service may carry that id'
        if len(apps_) != 1:
            return 'not exactly one set extended'
        want = scope_on_path(p, ex, 'scope')
        got = set_of(apps_[0].args[0])
        if want is None or got != want:
            return 'method with scope %s appended to %s' % (want, got)
        v = apps_[0].args[1]
        if want == 'verification_method':
            return None if strip(v) == ('leaf', 'method') else 'appended value is not the method'
        # an embedded method must not take an id that a relationship already *references* (the reference would alias it, and
        # in its own set the append would silently do nothing): every relationship set is asked for the id first
        asked = set()
        for c in p.calls:
            if re.search(r'Queryable.*>::query$|::query$|::contains$', c.name) and apps(('x', tuple(c.args)), r'VerificationMethod::id$') and p.took(c, 'None'):
                so = set_of(c.args[0])
                if so:
                    asked.add(so)
        # ... or through one `any` over all of them whose closure queries the set for the id
        for c in p.calls:
            if re.search(r'Iterator>::any$', c.name) and p.took(c.ret, 'false'):
                sets_in = set()
                for s_ in subterms(('x', tuple(c.args))):
                    so = set_of(s_) if isinstance(s_, tuple) and s_ and s_[0] in ('field', 'ref', 'deref') else None
                    if so:
                        sets_in.add(so)
                cl = [x for x in subterms(('x', tuple(c.args))) if isinstance(x, tuple) and x and x[0] == 'fn' and str(x[1]).startswith('{closure@')]
                if cl:
                    cands = prog.closures.get(cl[0][1]) or []
                    body = ' '.join(str(b.term) for g in cands for b in g.blocks.values() if b.term)
                    if re.search(r'query', body) and mentions(cl[0], r'^method$'):
                        asked |= sets_in
        missing = sorted(set(REL.values()) - asked)
        if missing:
            return 'embedded method inserted without checking that its id is not already referenced from %s' % ', '.join(missing)
        return None if (v[0] == 'agg' and str(v[2]) == 'Embed' and strip(v[3][0]) == ('leaf', 'method')) else 'relationship method not embedded as given'
    A.require('insert_method/unique-id-then-exactly-the-set-of-the-scope', paths, r_im, replay=[{'scenario': 'document_ops', 'cex': {'only': '[insert]'}}, {'scenario': 'document_ops', 'cex': {'only': '[query-reference]'}}])

    # ------------------------------------------------------------------------------------------- remove_method_and_scope
    # the id is removed from every relationship set (references included) on every way out; unless an embedded method
    # was found (search complete) the general-purpose set is searched as well.  Loop over the five results: unwind 6.
    f = prog.one(IMPL + r'remove_method_and_scope$')
    paths, ex = A.paths(f, unwind=6, allow_bound=True) if A.wants('remove_method_and_scope/') else ([], None)
    if A.wants('remove_method_and_scope/'):
        ctx.bounds.append('remove_method_and_scope: result loop unrolled 6 times (five relationship sets); longer iterations cut')

    def r_rms(p):
        if p.kind != 'return':
            return 'panic ' + p.msg
        rem = [c for c in p.find_calls(r'OrderedSet.*::remove$') if len(c.args) == 2 and strip(c.args[1]) == ('leaf', 'did_url')]
        sets = set(set_of(c.args[0]) for c in rem)
        missing = sorted(set(REL.values()) - sets)
        if missing:
            return 'returns without removing the id from %s' % ', '.join(missing)
        from_vm = [c for c in rem if set_of(c.args[0]) == 'verification_method']
        t = p.term()
        if isinstance(p.val, VAgg) and p.val.variant == 'None' and not from_vm:
            return 'reports "no such method" without searching verificationMethod'
        if from_vm and isinstance(p.val, VAgg) and p.val.variant == 'Some':
            tup = p.val.fields[0]
            if isinstance(tup, VAgg) and len(tup.fields) == 2 and isinstance(tup.fields[1], VAgg) and str(tup.fields[1].variant) == 'VerificationMethod':
                if strip(p.term(tup.fields[0])) != ('field', from_vm[0].ret, 0, 'Some'):
                    return 'general-purpose result is not the method removed from verificationMethod'
        return None
    A.require('remove_method_and_scope/id-leaves-every-relationship-set', paths, r_rms, replay={'scenario': 'document_ops', 'cex': {'only': '[remove]'}})

    f = prog.one(IMPL + r'remove_method$')
    paths, ex = A.paths(f, inline=IMPL + r'remove_method::\{closure')
    A.require('remove_method/is-remove_method_and_scope', paths,
              lambda p: None if (p.kind == 'return' and len(p.find_calls(r'remove_method_and_scope$')) == 1 and
                                 strip(p.find_calls(r'remove_method_and_scope$')[0].args[1]) == ('leaf', 'did_url')) else 'remove_method does not delegate', replay=REPLAY)

    # ------------------------------------------------------------------------------------------------------ insert_service
    f = prog.one(IMPL + r'insert_service$')
    paths, ex = A.paths(f, inline=IMPL + r'insert_service::\{closure')

    def r_is(p):
        if p.kind != 'return':
            return 'panic ' + p.msg
        ap = [c for c in p.find_calls(r'OrderedSet.*::append$')]
        anyc = [c for c in p.calls if re.search(r'Iterator>::any$', c.name)]
        if p.is_ok():
            if not anyc or not p.took(anyc[0].ret, 'false'):
                return 'service inserted although its id may be a method id'
            it = anyc[0].args[0]
            if not (apps(it, r'verification_relationships$') and apps(it, r'verification_method$') and apps(it, r'Iterator>::chain$')):
                return 'id clash not searched over relationship entries and general methods'
            if len(ap) != 1 or set_of(ap[0].args[0]) != 'service' or not p.took(ap[0].ret, 'true'):
                return 'service not appended to the service set (or duplicate accepted)'
            return None
        if ap and p.took(ap[0].ret, 'true'):
            return 'service appended although the call reports an error'
        return None
    A.require('insert_service/id-distinct-from-methods-and-services', paths, r_is, replay=REPLAY)

    f = prog.one(IMPL + r'remove_service$')
    paths, ex = A.paths(f)
    A.require('remove_service/removes-from-the-service-set-only', paths,
              lambda p: None if (p.kind == 'return' and len([c for c in p.calls if re.search(r'::remove$', c.name)]) == 1 and
                                 set_of([c for c in p.calls if re.search(r'::remove$', c.name)][0].args[0]) == 'service') else 'remove_service touches another set', replay=REPLAY)

    # ---------------------------------------------------------------------------------------------------- attach / detach
    for nm, op in (('attach_method_relationship', 'append'), ('detach_method_relationship', 'remove')):
        f = prog.one(IMPL + nm + '$')
        paths, ex = A.paths(f)

        def r_ad(p, nm=nm, op=op):
            if p.kind != 'return':
                return 'panic ' + p.msg
            ops = [c for c in p.calls if re.search(r'OrderedSet.*::%s$' % op, c.name)]
            rms = p.find_calls(r'CoreDocument::resolve_method$')
            if p.is_err():
                return 'refused %s modified the document' % nm if ops else None
            gen = [c for c in rms if p.took(c, 'Some') and 'VerificationMethod' in term_str(c.args[2])]
            if not gen:
                return '%s without the method resolving as a general-purpose method' % nm
            if len(ops) != 1:
                return 'not exactly one relationship set changed'
            want = rel_on_path(p, ex, 'relationship')
            got = set_of(ops[0].args[0])
            if want is None or got != want:
                return 'relationship %s changes set %s' % (want, got)
            arg = ops[0].args[1]
            if not (apps(arg, r'VerificationMethod::id$') and is_sub(arg, gen[0].ret)):
                return 'reference does not carry the id of the resolved method'
            if op == 'append' and not (isinstance(strip(arg), tuple) and (strip(arg)[0] == 'agg' and str(strip(arg)[2]) == 'Refer')):
                return 'relationship entry is not a reference'
            return None
        A.require('%s/general-purpose-method-only-and-exactly-that-relationship' % nm, paths, r_ad, replay=REPLAY)

    # ----------------------------------------------------------------------------------------------------- resolve_method
    f = prog.one(IMPL + r'resolve_method$')
    paths, ex = A.paths(f, inline=IMPL + r'resolve_method::\{closure')

    def r_rm(p):
        if p.kind != 'return':
            return 'panic ' + p.msg
        sc = ('leaf', 'scope')
        if p.took(sc, 'None'):
            t = strip(p.term())
            return None if (t[0] == 'app' and re.search(r'resolve_method_inner$', t[1])) else 'unscoped resolution does not search every set'
        d = ex.discr_var(('field', sc, 0, 'Some'))
        want = None
        if p.implies(d == scope_enum['VerificationMethod']):
            want = 'verification_method'
        else:
            dr = ex.discr_var(('field', ('field', sc, 0, 'Some'), 0, 'VerificationRelationship'))
            for nm, idx in rel_enum.items():
                if p.implies(dr == idx):
                    want = REL[nm]
        qs = [c for c in p.calls if re.search(r'Queryable.*>::query$|::query$', c.name)]
        if want is None or len(qs) < 1:
            return 'scope not resolved to a set'
        got = set_of(qs[0].args[0])
        if got != want:
            return 'scope %s resolved in set %s' % (want, got)
        if want != 'verification_method' and p.took(qs[0], 'Some'):
            rr = [c for c in p.find_calls(r'resolve_method_ref$') if is_sub(c.args[1], qs[0].ret)]
            if not rr:
                return 'relationship entry not dereferenced to a method'
        return None
    A.require('resolve_method/scope-selects-exactly-its-set', paths, r_rm, replay=REPLAY)

    f = prog.one(IMPL + r'resolve_method_ref$')
    paths, ex = A.paths(f)
    mr = prog.enums['MethodRef']

    def r_ref(p):
        if p.kind != 'return':
            return 'panic ' + p.msg
        d = ex.discr_var(('deref', ('leaf', 'method_ref')))
        if p.implies(d == mr['Embed']):
            ok_ = isinstance(p.val, VAgg) and p.val.variant == 'Some' and field_path(strip(p.term(p.val.fields[0]))) == ('method_ref', [('Embed', 0)])
            return None if ok_ else 'embedded method not returned as is'
        qs = [c for c in p.calls if re.search(r'::query$', c.name)]
        ok_ = len(qs) == 1 and set_of(qs[0].args[0]) == 'verification_method' and field_path(strip(qs[0].args[1])) == ('method_ref', [('Refer', 0)]) \
            and strip(p.term()) == qs[0].ret
        return None if ok_ else 'reference not resolved among the general-purpose methods by its id'
    A.require('resolve_method_ref/embed-as-is-reference-to-general-method', paths, r_ref, replay=REPLAY)

    f = prog.one(IMPL + r'resolve_method_inner$')
    paths, ex = A.paths(f)

    def r_inner(p):
        if p.kind != 'return':
            return 'panic ' + p.msg
        qs = [c for c in p.calls if re.search(r'::query$', c.name)]
        order = [set_of(c.args[0]) for c in qs]
        rel_order = list(REL.values())
        # relationship sets are searched in order until the first hit, then (reference / miss) the general methods
        hits = [i for i, c in enumerate(qs) if set_of(c.args[0]) in rel_order and p.took(c, 'Some')]
        rel_q = [s for s in order if s in rel_order]
        if rel_q != rel_order[:len(rel_q)]:
            return 'relationship sets searched as %s' % rel_q
        if hits:
            if len(rel_q) != hits[0] + 1:
                return 'search continues after the first hit'
        elif rel_q != rel_order:
            return 'not every relationship set searched before falling back'
        if not hits:
            last = qs[-1]
            return None if set_of(last.args[0]) == 'verification_method' and strip(p.term()) == last.ret else 'fallback is not the general-purpose set'
        return None
    A.require('resolve_method_inner/first-match-over-relationships-then-general', paths, r_inner, replay=REPLAY)

    f = prog.one(IMPL + r'resolve_service$')
    paths, ex = A.paths(f)
    A.require('resolve_service/queries-the-service-set', paths,
              lambda p: None if (p.kind == 'return' and [c for c in p.calls if re.search(r'::query$', c.name)] and
                                 apps(('x', tuple([c for c in p.calls if re.search(r'::query$', c.name)][0].args)), r'CoreDocument::service$')) else 'services not queried', replay=REPLAY)

    # ---------------------------------------------------------------------------------------------------- query matching
    f = prog.one(r'did_url_query::<impl at [^>]*>::matches$')
    paths, ex = A.paths(f)

    def r_match(p):
        if p.kind != 'return' or not isinstance(p.val, VBool):
            return 'not boolean'
        ds = [c for c in p.find_calls(r'DIDUrlQuery::did_str$')]
        fr = [c for c in p.find_calls(r'DIDUrlQuery::fragment$')]
        if not ds:
            return 'DID part of the query ignored'
        if p.consistent(p.val.e):
            # a match needs: query DID absent or equal, both fragments present and equal
            if p.took(ds[0], 'Some'):
                eqs = [c for c in p.find_calls(r'PartialEq.*>::(eq|ne)$') if is_sub(('x', tuple(c.args)), ('field', ds[0].ret, 0, 'Some'))]
                if not eqs or not (apps(('x', tuple(eqs[0].args)), r'DIDUrl::did$|as_str$')):
                    return 'query DID not compared with the entry DID'
                if not p.implies(z3.Implies(p.val.e, ex.sym_bool(eqs[0].ret).e if eqs[0].name.endswith('eq') else z3.Not(ex.sym_bool(eqs[0].ret).e))):
                    return 'match although the DIDs differ'
            if not fr or not [c for c in p.find_calls(r'DIDUrl::fragment$')]:
                return 'fragments not compared'
            zp = [c for c in p.find_calls(r'Option.*::zip$')]
            if zp and not p.took(zp[0], 'Some'):
                return 'match without both fragments present'
        return None
    A.require('DIDUrlQuery::matches/did-equal-if-given-and-fragments-equal', paths, r_match, replay=REPLAY)

    # what counts as "a DID is included in the query" is decided by the scheme prefix alone: every query that starts with `did` has a DID
    # part (the text up to the first of ? / #), well-formed or not - a stricter test (e.g. only well-formed DIDs count) makes a DID-URL-like
    # query with a foreign or malformed DID part match by fragment alone
    f_ds = prog.one(r'did_url_query::<impl at [^>]*>::did_str$')
    dpaths, dex = A.paths(f_ds, inline=r'did_url_query::<impl at [^>]*>::did_str::\{closure')
    ALLOWED = r'starts_with$|str>::find$|::min$|unwrap_or$|str>::get$|::get$|as_ref$|deref$|Deref|::len$|SliceIndex|Ord'

    def r_ds(p):
        if p.kind != 'return':
            return 'panic ' + p.msg
        sw = [c for c in p.find_calls(r'starts_with$')]
        if len(sw) != 1 or 'SCHEME' not in term_str(sw[0].args[1]) and 'did' not in term_str(sw[0].args[1]):
            return 'the DID part is not recognised by the scheme prefix'
        extra = [c for c in p.calls if not c.inlined and not re.search(ALLOWED, c.name)]
        if extra:
            return 'the DID part is subject to a further test (%s)' % extra[0].name[-60:]
        if p.took(sw[0].ret, 'false'):
            return None if p.is_err() else 'a query without the scheme prefix has a DID part'
        g = [c for c in p.find_calls(r'str>::get$|::get$')]
        if not g or strip(p.term()) != g[-1].ret:
            return 'with the scheme prefix the DID part is not the leading section of the query as it is'
        return None
    A.require('DIDUrlQuery::did_str/every-query-with-the-scheme-prefix-has-a-did-part', dpaths, r_ds, replay={'scenario': 'document_ops', 'cex': {'only': '[kid-did-part]'}})

    f_fr = prog.one(r'did_url_query::<impl at [^>]*>::fragment$')
    fpaths, fex = A.paths(f_fr, inline=r'did_url_query::<impl at [^>]*>::fragment::\{closure')

    def r_fr(p):
        if p.kind != 'return':
            return None      # `index + 1` after rfind: the no-panic side is C05's sweep; this requirement is about what decides the fragment
        if p.find_calls(r'DIDUrlQuery::did_str$|CoreDID::parse$|from_str$|DIDUrl::parse$'):
            return 'the fragment of a query depends on whether its DID part is well-formed'
        return None
    A.require('DIDUrlQuery::fragment/independent-of-the-did-part-being-well-formed', fpaths, r_fr, replay={'scenario': 'document_ops', 'cex': {'only': '[kid-did-part]'}})

    f = prog.one(r'queryable::<impl at [^>]*>::query$')
    paths, ex = A.paths(f)
    cl = [g for g in prog.funcs if re.search(r'queryable::<impl at [^>]*>::query::\{closure#0\}$', g.name)]
    A.require('OrderedSet::query/first-entry-whose-id-matches', paths,
              lambda p: None if (p.kind == 'return' and [c for c in p.calls if re.search(r'Iterator>::find$', c.name)] and
                                 strip(p.term()) == [c for c in p.calls if re.search(r'Iterator>::find$', c.name)][0].ret and len(cl) == 1 and
                                 'matches' in ' '.join(str(b.term) for b in cl[0].blocks.values() if b.term)) else 'query is not find(matches)', replay=REPLAY)

    # ------------------------------------------------------------------------------------ queries built from typed values
    # a query built from a DIDUrl (owned or borrowed) carries the *whole* URL text (so that DIDUrlQuery::matches compares the DID
    # as well as the fragment); a query built from a string is that string
    for label, sig, want in (('&DIDUrl', r'^&(\'\w+ )?(\w+::)*DIDUrl ->', 'display'), ('DIDUrl', r'^(\w+::)*DIDUrl ->', 'display'),
                             ('&RelativeDIDUrl', r'^&(\'\w+ )?(\w+::)*RelativeDIDUrl ->', 'display'),
                             ('&str', r'^&(\'\w+ )?str ->', 'same'), ('&String', r'^&(\'\w+ )?(\w+::)*String ->', 'same')):
        f = prog.one(r'did_url_query::<impl at [^>]*>::from$', sig=sig)
        paths, ex = A.paths(f)

        def r_q(p, want=want, label=label):
            if p.kind != 'return':
                return 'panic ' + p.msg
            t = p.term()
            if want == 'display':
                ts = [a for a in apps(t, r'ToString>::to_string$|::to_string$') if mentions(a[2], r'^other$')]
                if not ts or apps(t, r'::fragment$|::path$|::query$'):
                    return 'query built from %s is not the complete text of the value: %s' % (label, term_str(t)[:140])
                return None
            return None if mentions(t, r'^other$') and not apps(t, r'fragment$|split|trim') else 'query built from %s is not that string' % label
        A.require('DIDUrlQuery::from<%s>/carries-the-whole-text' % label, paths, r_q, replay={'scenario': 'document_ops', 'cex': {'only': '[typed-query]'}})

    # ------------------------------------------------------------------------------------ constructor gate (loops unrolled)
    f = prog.one(IMPL + r'check_id_constraints$|core_document::<impl at [^>]*>::check_id_constraints$')
    if not A.wants('check_id_constraints/'):
        return
    paths, ex = A.paths(f, inline=r'check_id_constraints::\{closure', unwind=2, allow_bound=True)
    ctx.bounds.append('check_id_constraints: at most 2 iterations per loop (%d longer paths cut)' % A.last_bound_hits)

    def r_gate(p):
        if p.kind == 'panic' and 'overflow' in p.msg and p.find_calls(r'OrderedSet.*::len$'):
            return None    # sum of six opaque set lengths: Vec lengths cannot overflow usize together (allocation limit); listed
        if p.kind != 'return':
            return 'panic ' + p.msg
        if not p.is_ok():
            return None
        ins = [c for c in p.calls if re.search(r'HashMap(<.*>)?::insert$', c.name)]
        ck = [c for c in p.calls if re.search(r'HashMap(<.*>)?::contains_key$', c.name)]
        for c in ins:
            prev = c.ret
            emb = c.argvals[2]
            if p.took(prev, 'None'):
                continue
            # a previous entry exists: it must not have been an embedded method, and the new one must not be embedded either
            if not p.took(prev, 'Some'):
                return 'outcome of an id insertion not examined'
            pv = ex.sym_bool(('field', prev, 0, 'Some')).e
            if not p.implies(z3.Not(pv)):
                return 'document accepted although an embedded method id occurs twice / is aliased'
            if isinstance(emb, VBool) and not p.implies(z3.Not(emb.e)):
                return 'document accepted although an embedded method aliases an earlier reference'
        for c in ck:
            if not p.took(c.ret, 'false'):
                return 'document accepted although a service id equals a method id'
        # identifiers are recorded / looked up as whole DID URLs: a part of one (its relative URL, its fragment) conflates entries of
        # different DIDs that share it
        for c in ins + ck:
            part = apps(c.args[1] if len(c.args) > 1 else c.args[0], r'DIDUrl::(url|fragment|path|query|did)$|::as_str$|::to_string$|::fragment$')
            if part:
                return 'identifier map keyed by %s of the id, not by the whole id' % part[0][1].split('::')[-1]
        # every id the loops take out of the document is either recorded in the identifier map or checked against it
        for nx in [c for c in p.calls if re.search(r'Iterator>::next$', c.name) and p.took(c, 'Some')]:
            item = ('field', nx.ret, 0, 'Some')
            used = [c for c in ins + ck if any(is_sub(a, item) for a in c.args)]
            if not used:
                others = [c for c in p.calls if re.search(r'HashMap(<.*>)?::', c.name) and any(is_sub(a, item) for a in c.args)]
                return 'an id taken from the document is only looked up (%s), never recorded: later checks cannot see it' % (
                    others[0].name.split('::')[-1] if others else 'not used at all')
        return None
    A.require('check_id_constraints/no-duplicate-embedded-no-alias-no-service-clash', paths, r_gate, replay={'scenario': 'document_ops', 'cex': {'only': '[gate]'}})

    # what the loops take out of the collections are the entries' *whole* ids (the mapping closures of the iterators are opaque to the
    # audit above): each closure returns `<entry>.id()` - not a part of it, under which entries of different DIDs would collide
    cls = [g for g in prog.funcs if re.search(r'check_id_constraints::\{closure#\d+\}$', g.name) and
           re.search(r'MethodRef|VerificationMethod|Service', ' '.join(t for _, t in g.args[1:]))]
    if len(cls) < 3:
        raise Refuse('the id-projecting closures of check_id_constraints were not found (%d)' % len(cls))
    for g in cls:
        cpaths, cex = A.paths(g)
        kind = re.search(r'(MethodRef|VerificationMethod|Service)', ' '.join(t for _, t in g.args[1:])).group(1)

        def r_idc(p, kind=kind):
            if p.kind != 'return':
                return 'panic ' + p.msg
            t = p.term()
            if isinstance(p.val, VAgg) and p.val.fields:
                t = p.term(p.val.fields[0])
            t = strip(t)
            ok = isinstance(t, tuple) and t[0] == 'app' and re.search(r'(MethodRef|VerificationMethod|Service)::id$', t[1]) and len(t[2]) == 1 and strip(t[2][0])[0] == 'leaf'
            return None if ok else 'the %s entries are identified by %s, not by their whole id' % (kind, term_str(t)[:80])
        A.require('check_id_constraints/%s-entries-identified-by-their-whole-id' % kind, cpaths, r_idc, replay={'scenario': 'document_ops', 'cex': {'only': '[gate]'}})


def main(ctx):
    prog, info = load(CRATES, src_only=SRC)
    ctx.extra['mir'] = info
    ctx.bounds.append('one step of each mutator / resolver from an arbitrary document (sets are opaque; their operations are callees)')
    ctx.outside += ['JSON round trip after each step (serde)', 'OrderedSet operations themselves (C19; the order-preserving removal obligation is re-used)', 'usize overflow of the sum of the six set lengths in check_id_constraints (opaque lengths)', 'ids differing only in path/query (alias under DIDUrlQuery::matches)',
                    'histories are covered only as one inductive step per operation; the invariant itself (check_id_constraints over whole documents) is bounded to 2 entries per loop']
    guarded(ctx, 'document operations audit', 'M', lambda: run(ctx, prog))
    # resolution by fragment returns the *first* match: removal from the ordered collections keeps the order of what remains (C19's
    # obligation on OrderedSet::remove / change, re-used)
    import c19

    def order_of_removal():
        prog2, info2 = load(c19.CRATES)
        c19.serde_and_change(ctx, prog2, only=r'^OrderedSet::remove/|^OrderedSet::change/|^OrderedSet::try_from<Vec>/')
        # "any DID document the library accepts" has no two entries with one id inside one collection because the collections are built
        # through the duplicate-rejecting constructor; "serialises to JSON that deserialises to an equal document" needs the one-or-set
        # members (controller, service type / endpoint) to be written in the variant they were read in
        c19.run(ctx, prog2, only=r'^OneOrSet::deserialize/')
        c19.one_or_set_serialize_derived(ctx, prog2)
    guarded(ctx, 'order-preserving removal (shared with C19)', 'M', order_of_removal)
