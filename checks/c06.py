"""C06 - revocation bitmaps round-trip and revoke exactly the requested indices.

M: (a) legacy-format detector: the prefix literal tested by deserialize_compressed_base64 (read from the MIR) against the base64url text of every
       zlib default-compression stream (0x78 0x9C b2...) and of its legacy double encoding - decided by z3 over the symbolic third byte;
   (b) binding audit of the endpoint codec pipeline, the document read-modify-write and the status check.
"""
import re
import z3
from core import *
from execu import Exec, State, Refuse
from values import *
from audit import *
from loader import load
import vc

CRATES = ['identity_credential']
SRC = ['identity_document', 'identity_core', 'identity_did']
STD = 'ABCDEFGHIJKLMNOPQRSTUVWXYZabcdefghijklmnopqrstuvwxyz0123456789+/'
URL = 'ABCDEFGHIJKLMNOPQRSTUVWXYZabcdefghijklmnopqrstuvwxyz0123456789-_'


def R(tag):
    return {'scenario': 'revocation', 'cex': {'only': tag}}


def is_sub(t, want):
    return any(s == want for s in subterms(t))


def b64_chars(bytes3, alphabet):
    """first four output characters (as 8-bit terms) of base64 over three input byte terms"""
    x = z3.Concat(*bytes3)      # 24 bits
    out = []
    for i in range(4):
        six = z3.Extract(23 - 6 * i, 18 - 6 * i, x)
        e = z3.BitVecVal(ord(alphabet[63]), 8)
        for k in range(62, -1, -1):
            e = z3.If(six == k, z3.BitVecVal(ord(alphabet[k]), 8), e)
        out.append(e)
    return out


def detector(ctx, prog):
    f = prog.one(r'bitmap::<impl at [^>]*>::deserialize_compressed_base64$')
    # literal and polarity of the format test, from the executed paths of the function: the `starts_with` argument (a string
    # literal or a named constant) and which of its outcomes leads to the legacy unwrapping (a standard-Base64 decode)
    A = Auditor(ctx, prog)
    paths, ex = A.paths(f)
    lits, legacy_when = set(), set()
    for p in paths:
        sw = [c for c in p.find_calls(r'starts_with$')]
        if not sw:
            continue
        if len(sw) != 1:
            raise Refuse('more than one starts_with test on a path of deserialize_compressed_base64')
        lit = None
        for a in sw[0].args:
            a = strip(a)
            if isinstance(a, tuple) and a and a[0] == 'const' and isinstance(a[1], bytes):
                lit = a[1]
        if lit is None:
            raise Refuse('starts_with argument is not a constant string: %s' % term_str(sw[0].args[-1])[:120])
        lits.add(lit)
        outcome = 'true' if p.took(sw[0].ret, 'true') else ('false' if p.took(sw[0].ret, 'false') else None)
        std = [c for c in p.find_calls(r'BaseEncoding::decode$') if re.search(r'Base64\b', term_str(c.args[1])) and 'Base64Url' not in term_str(c.args[1])]
        if std and outcome:
            legacy_when.add(outcome)
    if len(lits) != 1 or len(legacy_when) != 1:
        raise Refuse('format test not recognised: literals %r, legacy unwrapping when starts_with is %r' % (lits, legacy_when))
    L = lits.pop()
    pol = legacy_when.pop() == 'true'      # True: a match means legacy; False: a match means current
    lits = [L.decode('latin1')]
    ctx.samples.append('legacy detector: starts_with(%r) == %s selects the legacy unwrapping' % (lits[0], pol))
    if len(L) > 4 or not L:
        raise Refuse('detector literal longer than the first base64 quantum')
    b2 = z3.BitVec('deflate_byte', 8)
    fresh = b64_chars([z3.BitVecVal(0x78, 8), z3.BitVecVal(0x9C, 8), b2], URL)
    starts = z3.And(*[fresh[i] == L[i] for i in range(len(L))])
    # legacy = Base64(standard alphabet) over the ASCII of the fresh text
    leg = b64_chars(fresh[:3], STD)
    leg_starts = z3.And(*[leg[i] == L[i] for i in range(len(L))])
    is_legacy = (lambda m: m) if pol else (lambda m: z3.Not(m))   # noqa
    goals = [('a freshly encoded bitmap whose first deflate byte is b2 is classified as legacy', [is_legacy(starts)]),
             ('a legacy double-encoded endpoint is classified as current', [z3.Not(is_legacy(leg_starts))])]
    v = vc.check_formulas(goals)
    funcs = [short(f.name)]
    name = 'legacy-detector/classifies-every-zlib-default-stream-and-its-legacy-form'
    bounds = 'zlib default-compression header 0x78 0x9C followed by every possible first deflate byte'
    if v.status == 'unsat':
        ctx.add(Ob(name, 'M', HELD, solver_s=v.secs, queries=v.queries, functions=funcs, bounds=bounds,
                   sample='prefix %r matches base64url(78 9C b2) for all 256 b2 and never the legacy form' % lits[0]))
        return
    if v.status != 'sat':
        ctx.add(Ob(name, 'M', INCONCLUSIVE, detail=v.note))
        return
    label, model = v.model
    val = model.eval(b2, model_completion=True).as_long()
    from replay import run_replay
    rep = R('[roundtrip]' if 'freshly' in label else '[legacy]')
    res = run_replay(rep)
    fk = ctx.known('legacy-detector-prefix')
    st = VIOLATED if res.get('reproduced') else INCONCLUSIVE
    if st == VIOLATED and fk:
        st = KNOWN
    ctx.add(Ob(name, 'M', st, detail='%s: b2=0x%02x, literal %r; native: %s' % (label, val, lits[0], res.get('detail', '')[:300]),
               cex={'deflate_byte': val, 'literal': lits[0]}, replay=rep, solver_s=v.secs, queries=v.queries, functions=funcs, finding=fk))


def run(ctx, prog):
    A = Auditor(ctx, prog)
    IMPL = r'bitmap::<impl at [^>]*>::'

    f = prog.one(IMPL + r'deserialize_compressed_base64$')
    paths, ex = A.paths(f, inline=IMPL + r'deserialize_compressed_base64::\{closure')
    okp = [p for p in paths if p.kind == 'return' and not (isinstance(p.val, VAgg) and p.val.variant == 'Err')]

    def r_des(p):
        t = strip(p.term())
        ds = apps(t, r'deserialize_slice$')
        if not ds or t != ds[0]:
            return 'result is not deserialize_slice(..)'
        dz = apps(ds[0][2][0], r'decompress_zlib$')
        if not dz:
            return 'bitmap not deserialised from the decompressed data'
        decs = [c for c in p.find_calls(r'BaseEncoding::decode$') if p.took(c, 'Ok')]
        url = [c for c in decs if 'Base64Url' in term_str(c.args[1])]
        if not url or not is_sub(dz[0][2][0], ('field', url[0].ret, 0, 'Ok')):
            return 'decompressed data is not the base64url-decoded endpoint data'
        sw = [c for c in p.find_calls(r'starts_with$')]
        if not sw:
            return 'format not detected'
        std = [c for c in decs if re.search(r'Base64\b', term_str(c.args[1])) and 'Base64Url' not in term_str(c.args[1])]
        if not std:
            return None if mentions(url[0].args[0], r'^data$') and not apps(url[0].args[0], r'from_utf8$') else 'current-format data not decoded directly'
        if not apps(url[0].args[0], r'from_utf8$'):
            return 'legacy data not base64-decoded first'
        return None
    A.require('deserialize/pipeline-base64url-zlib-roaring-with-legacy-unwrapping', okp, r_des, replay=[R('[roundtrip]'), R('[legacy]')])

    f = prog.one(IMPL + r'serialize_compressed_base64$')
    paths, ex = A.paths(f, inline=IMPL + r'serialize_compressed_base64::\{closure')

    def r_ser(p):
        if p.kind != 'return':
            return 'panic ' + p.msg
        if isinstance(p.val, VAgg) and p.val.variant == 'Err':
            return None
        sv = [c for c in p.find_calls(r'serialize_vec$') if p.took(c, 'Ok') and mentions(c.args, r'^self$')]
        cz = [c for c in p.find_calls(r'compress_zlib$')]
        en = [c for c in p.find_calls(r'BaseEncoding::encode$')]
        if not sv or not cz or not is_sub(cz[0].args[0], ('field', sv[0].ret, 0, 'Ok')):
            return 'not zlib(serialize(self))'
        if not en or 'Base64Url' not in term_str(en[0].args[1]) or not is_sub(en[0].args[0], cz[0].ret):
            return 'compressed data not base64url-encoded'
        return None
    A.require('serialize/pipeline-roaring-zlib-base64url', paths, r_ser, replay=R('[roundtrip]'))

    # the byte codec is roaring's own: every Ok comes from deserialize_from over the whole input, and nothing in front of it can
    # refuse an input roaring accepts (a second, hand-written reading of the format disagrees with it somewhere)
    f = prog.one(IMPL + r'deserialize_slice$')
    try:
        paths, ex = A.paths(f, inline=IMPL + r'deserialize_slice::\{closure', same_file=True)
    except Refuse:
        paths, ex = A.paths(f, inline=IMPL + r'deserialize_slice::\{closure')

    def r_ds(p):
        if p.kind != 'return':
            return 'panic ' + p.msg
        rd = [c for c in p.calls if re.search(r'RoaringBitmap>?::deserialize_from$|RoaringBitmap>?::deserialize_unchecked_from$', c.name)]
        if p.is_ok():
            if len(rd) != 1 or not p.took(rd[0], 'Ok') or not mentions(rd[0].args[0], r'^data$') or apps(rd[0].args[0], r'Index|split|get|take'):
                return 'accepted bitmap is not roaring\'s reading of the whole input'
            if 'unchecked' in rd[0].name:
                return 'unchecked roaring reader on external data'
            return None if is_sub(p.term(p.payload()), ('field', rd[0].ret, 0, 'Ok')) else 'result is not the decoded bitmap'
        # refused: only because roaring refused
        return None if (len(rd) == 1 and p.took(rd[0], 'Err')) else 'input refused before / without roaring refusing it (a second reading of the format in front of the decoder)'
    A.require('deserialize_slice/exactly-roarings-reader-on-the-whole-input', paths, r_ds, replay=R('[roundtrip]'))

    f = prog.one(IMPL + r'serialize_vec$')
    try:
        paths, ex = A.paths(f, inline=IMPL + r'serialize_vec::\{closure', same_file=True)
    except Refuse:
        paths, ex = A.paths(f, inline=IMPL + r'serialize_vec::\{closure')

    def r_sv(p):
        if p.kind != 'return':
            return 'panic ' + p.msg
        ws = [c for c in p.calls if re.search(r'RoaringBitmap>?::serialize_into$', c.name)]
        if p.is_ok():
            if len(ws) != 1 or not p.took(ws[0], 'Ok') or not mentions(ws[0].args[0], r'^self$'):
                return 'bytes are not roaring\'s serialisation of this bitmap'
            bad = [c for c in p.calls if re.search(r'(^|::)(truncate|drain|split_off|pop|clear|resize)$', c.name)]
            return ('serialised bytes reshaped with %s' % bad[0].name.split('::')[-1]) if bad else None
        return None if (len(ws) == 1 and p.took(ws[0], 'Err')) else 'serialisation refused although roaring did not fail'
    A.require('serialize_vec/exactly-roarings-writer', paths, r_sv, replay=R('[roundtrip]'))

    # the status side: an index is whatever u32's own parser accepts (no stricter / looser reading in front of it), and a status whose
    # id carries an `index` query is accepted only if *every* such query value equals the index property - the scan goes through all
    # query pairs, whatever other parameters come first
    f = prog.one(r'(^|::)try_index_to_u32$')
    paths, ex = A.paths(f, inline=r'try_index_to_u32::\{closure')
    RS = {'scenario': 'credential_validation', 'cex': {'only': '[unit]'}}

    def r_ti(p):
        if p.kind != 'return':
            return 'panic ' + p.msg
        ps = [c for c in p.calls if re.search(r'<u32 as (\w+::)*FromStr>::from_str$|<impl str>::parse$', c.name) and strip(c.args[0]) == ('leaf', 'index')]
        if len(ps) != 1:
            return 'the index text is not handed (once, whole) to u32\'s parser'
        if p.is_ok():
            return None if p.took(ps[0], 'Ok') and strip(p.term(p.payload())) == ('field', ps[0].ret, 0, 'Ok') else 'accepted value is not what the parser produced'
        return None if p.took(ps[0], 'Err') else 'index refused although u32\'s parser accepted it'
    A.require('try_index_to_u32/exactly-u32-from_str', paths, r_ti, replay=RS)

    f = prog.one(r'revocation_bitmap_status::<impl at [^>]*>::try_from$')
    paths, ex = A.paths(f, inline=r'revocation_bitmap_status::<impl at [^>]*>::try_from::\{closure', unwind=3, allow_bound=True)
    ctx.bounds.append('RevocationBitmapStatus::try_from: at most 2 query pairs in the status id (%d longer paths cut)' % A.last_bound_hits)

    def r_tf(p):
        if p.kind != 'return':
            return None    # (panic freedom of this function is C05's)
        if not p.is_ok():
            return None
        nx = [c for c in p.calls if re.search(r'Iterator>::next$', c.name)]
        some = [c for c in nx if p.took(c, 'Some')]
        if not nx or not p.took(nx[-1], 'None'):
            return 'accepted without looking at every query pair of the status id (the scan stops early)'
        # every pair whose key is "index" has its value parsed and compared equal with the property index
        ti = [c for c in p.calls if re.search(r'try_index_to_u32$', c.name) and p.took(c, 'Ok')]
        if not ti:
            return 'accepted without the index property being parsed'
        return None
    A.require('RevocationBitmapStatus::try_from/scans-every-query-pair', paths, r_tf, replay=RS)

    # decompression is the streaming decoder run to the end (no fixed-size output buffer, no ignored status)
    f = prog.one(IMPL + r'decompress_zlib$')
    paths, ex = A.paths(f)

    def r_dz(p):
        if p.kind != 'return':
            return 'panic ' + p.msg
        if not p.is_ok():
            return None
        dec = [c for c in p.calls if re.search(r'ZlibDecoder<.*>::new$|ZlibDecoder::new$', c.name)]
        wr = [c for c in p.calls if re.search(r'Write>::write_all$', c.name) and p.took(c, 'Ok') and mentions(c.args, r'^input$')]
        fin = [c for c in p.calls if re.search(r'ZlibDecoder<.*>::finish$|ZlibDecoder::finish$', c.name) and p.took(c, 'Ok')]
        if not dec or not wr or not fin:
            return 'not the streaming decoder fed with the whole input and finished successfully'
        other = [c for c in p.calls if re.search(r'Decompress|with_capacity|decompress_vec|::truncate$|::take$', c.name)]
        if other:
            return 'decompression goes through %s' % other[0].name.split('::')[-1]
        t = strip(p.term(p.payload()))
        return None if t == ('field', fin[0].ret, 0, 'Ok') else 'returned data is not what the decoder produced'
    A.require('decompress_zlib/streaming-decoder-run-to-the-end', paths, r_dz, replay=R('[roundtrip]'))

    # the detector's premise: streams are written with the default compression level (zlib header 0x78 0x9C)
    f = prog.one(IMPL + r'compress_zlib$')
    paths, ex = A.paths(f)

    def r_cz(p):
        if p.kind != 'return':
            return 'panic ' + p.msg
        enc = [c for c in p.calls if re.search(r'ZlibEncoder<.*>::new$|ZlibEncoder::new$', c.name)]
        if len(enc) != 1:
            return 'not exactly one ZlibEncoder'
        lvl = enc[0].args[1]
        if not (apps(lvl, r'Compression as (\w+::)*Default>::default$|Compression::default$') and strip(lvl)[0] == 'app'):
            return 'compression level is not Compression::default() on every path: %s' % term_str(lvl)[:100]
        return None
    A.require('compress_zlib/default-compression-level-(premise-of-the-format-detector)', paths, r_cz, replay=R('[roundtrip]'))

    f = prog.one(IMPL + r'try_from_endpoint$')
    paths, ex = A.paths(f)

    def r_tfe(p):
        if p.kind != 'return':
            return 'panic ' + p.msg
        if isinstance(p.val, VAgg) and p.val.variant == 'Err':
            return None
        t = strip(p.term())
        d = apps(t, r'deserialize_compressed_base64$')
        sp = [c for c in p.find_calls(r'strip_prefix$') if p.took(c, 'Some')]
        if not d or t != d[0] or not sp:
            return 'endpoint accepted without stripping the data-url prefix'
        pre = strip(sp[0].args[1])
        if not (pre[0] == 'const' and pre[1] == b'data:application/octet-stream;base64,') and 'DATA_URL_PATTERN' not in term_str(pre):
            return 'prefix stripped is not the octet-stream data-url prefix'
        if strip(d[0][2][0]) != ('field', sp[0].ret, 0, 'Some') and not is_sub(d[0][2][0], ('field', sp[0].ret, 0, 'Some')):
            return 'decoded data is not the text after the prefix'
        se = prog.enums.get('ServiceEndpoint') or {}
        return None
    A.require('try_from_endpoint/single-data-url-with-prefix', paths, r_tfe, replay=R('[roundtrip]'))

    f = prog.one(IMPL + r'to_endpoint$')
    paths, ex = A.paths(f, inline=IMPL + r'to_endpoint::\{closure')

    def r_te(p):
        if p.kind != 'return':
            return 'panic ' + p.msg
        if isinstance(p.val, VAgg) and p.val.variant == 'Err':
            return None
        sc = [c for c in p.find_calls(r'serialize_compressed_base64$') if p.took(c, 'Ok')]
        fm = [c for c in p.find_calls(r'(^|::)format$')]
        up = [c for c in p.find_calls(r'Url::parse$')]
        if not sc or not fm or not up:
            return 'endpoint is not Url::parse(format!(prefix + data))'
        if not is_sub(fm[0].args, ('field', sc[0].ret, 0, 'Ok')) and not mentions(fm[0].args, r'.'):
            return 'formatted url does not contain the encoded bitmap'
        return None if is_sub(up[0].args[0], fm[0].ret) else 'parsed url is not the formatted data url'
    A.require('to_endpoint/data-url-of-the-encoded-bitmap', paths, r_te, replay=R('[roundtrip]'))

    # membership wrappers
    for nm, callee in (('is_revoked', 'contains'), ('revoke', 'insert'), ('unrevoke', 'remove')):
        f = prog.one(IMPL + nm + '$')
        paths, ex = A.paths(f)

        def r_mem(p, callee=callee):
            if p.kind != 'return':
                return 'panic ' + p.msg
            cs = p.find_calls(r'RoaringBitmap>?::%s$' % callee)
            if len(cs) != 1 or not mentions(cs[0].args[0], r'^self$'):
                return 'not a single roaring %s on this bitmap' % callee
            want = ex.sym_int(('leaf', 'index'), 32).e
            if not (isinstance(cs[0].argvals[1], VInt) and z3.eq(z3.simplify(cs[0].argvals[1].e), z3.simplify(want))):
                return '%s applied to something other than the given index' % callee
            if not (isinstance(p.val, VBool) and p.implies(p.val.e == ex.sym_bool(cs[0].ret).e)):
                return 'result flag is not the roaring result'
            return None
        A.require('%s/is-roaring-%s-of-that-index' % (nm, callee), paths, r_mem, replay=R('[document]'))

    # read-modify-write on the document service
    f = prog.one(r'document_ext::update_revocation_bitmap$|(^|::)update_revocation_bitmap$')
    paths, ex = A.paths(f)

    def r_upd(p):
        if p.kind != 'return':
            return 'panic ' + p.msg
        q = [c for c in p.find_calls(r'query_mut$')]
        tf = [c for c in p.calls if re.search(r'RevocationBitmap as .*TryFrom<&.*Service>>::try_from$', c.name)]
        sw = [c for c in p.find_calls(r'mem::swap$')]
        fc = [c for c in p.calls if re.search(r'FnOnce<.*>>::call_once$', c.name) and mentions(c.args, r'^f$')]
        if not p.is_ok():
            return 'failed update touched the service endpoint' if sw else None
        if not q or not p.took(q[0], 'Some') or not mentions(q[0].args, r'^service_query$') or not mentions(q[0].args, r'^document$'):
            return 'service not looked up by the query in this document'
        svc = ('field', q[0].ret, 0, 'Some')
        if not tf or not p.took(tf[0], 'Ok') or not is_sub(tf[0].args[0], svc):
            return 'bitmap not decoded from the service'
        if not fc:
            return 'update function not applied'
        te = [c for c in p.find_calls(r'RevocationBitmap::to_endpoint$') if p.took(c, 'Ok')]
        if not te or not sw:
            return 'updated bitmap not written back'
        if not (p.calls.index(tf[0]) < p.calls.index(fc[0]) < p.calls.index(te[0]) < p.calls.index(sw[0])):
            return 'decode / modify / encode / store out of order'
        if not (apps(sw[0].args[0], r'service_endpoint_mut$') and is_sub(sw[0].args[0], svc)):
            return 'endpoint of another service replaced'
        return None
    A.require('update_revocation_bitmap/decode-modify-encode-store-on-the-queried-service', paths, r_upd, replay=R('[document]'))

    for nm, op in (('revoke_credentials', 'revoke'), ('unrevoke_credentials', 'unrevoke')):
        cl = [g for g in prog.funcs if re.search(r'document_ext::<impl at [^>]*>::%s::\{closure#0\}$' % nm, g.name)]
        if len(cl) != 1:
            raise Refuse('closure of %s not found' % nm)
        paths, ex = A.paths(cl[0], unwind=2, allow_bound=True)

        def r_cl(p, op=op):
            if p.kind != 'return':
                return 'panic ' + p.msg
            nx = [c for c in p.calls if re.search(r'Iterator>::next$', c.name) and p.took(c, 'Some')]
            ops = [c for c in p.find_calls(r'RevocationBitmap::(revoke|unrevoke)$')]
            it = [c for c in p.calls if re.search(r'IntoIterator>::into_iter$|::iter$', c.name)]
            if not it:
                return 'the listed indices are not iterated one by one'
            other = [c for c in p.calls if c not in ops and not c.inlined and re.search(r'RevocationBitmap::|RoaringBitmap', c.name)]
            if other:
                return 'bitmap changed by %s instead of one %s per listed index' % (other[0].name.split('::')[-1], op)
            if len(nx) != len(ops):
                return 'not one bitmap operation per index'
            for n, o in zip(nx, ops):
                if not o.name.endswith('::' + op):
                    return 'wrong operation %s' % o.name.split('::')[-1]
                want = ex.sym_int(('deref', ('field', n.ret, 0, 'Some')), 32).e
                if not (isinstance(o.argvals[1], VInt) and z3.eq(z3.simplify(o.argvals[1].e), z3.simplify(want))):
                    return 'operation applied to something other than the listed index'
            return None
        A.require('%s/one-%s-per-listed-index' % (nm, op), paths, r_cl, replay=R('[document]'))
    ctx.bounds.append('revoke/unrevoke closures: index lists of at most 2 entries (loop unrolled twice)')

    f = prog.one(r'::check_revocation_bitmap_status$')
    paths, ex = A.paths(f, inline=r'check_revocation_bitmap_status::\{closure')

    def r_st(p):
        if p.kind != 'return':
            return 'panic ' + p.msg
        rb = [c for c in p.find_calls(r'resolve_revocation_bitmap$') if p.took(c, 'Ok')]
        ix = [c for c in p.find_calls(r'RevocationBitmapStatus::index$') if p.took(c, 'Ok')]
        ir = [c for c in p.find_calls(r'RevocationBitmap::is_revoked$')]
        if p.is_ok():
            if not rb or not mentions(rb[0].args[0], r'^issuer$') or not (apps(rb[0].args[1], r'RevocationBitmapStatus::id$') and mentions(rb[0].args[1], r'^status$')):
                return 'bitmap not resolved in the issuer document by the status id'
            if apps(rb[0].args[1], r'::fragment$|::path$|::query$|::url$'):
                return 'bitmap service looked up by a part of the status id, not by the whole id'
            if not ix or not ir or not is_sub(ir[0].args[0], ('field', rb[0].ret, 0, 'Ok')):
                return 'membership of the status index not tested on the resolved bitmap'
            want = ex.sym_int(('field', ix[0].ret, 0, 'Ok'), 32).e
            if not (isinstance(ir[0].argvals[1], VInt) and z3.eq(z3.simplify(ir[0].argvals[1].e), z3.simplify(want))):
                return 'tested index is not the status index'
            return None if p.took(ir[0].ret, 'false') else 'revoked index reported valid'
        if ir and p.took(ir[0].ret, 'false'):
            return 'unrevoked index reported as error'
        return None
    A.require('check_revocation_bitmap_status/revoked-iff-member', paths, r_st, replay=R('[document]'))


def iota_wrappers(ctx):
    """IotaDocument::revoke_credentials / unrevoke_credentials hand their two arguments to the core document's operation on every path and
    return its outcome: no pre-check, no early return (a wrapper that decides for itself whether the call 'changes anything' drops batches)."""
    prog, info = load(['identity_iota_core'])
    A = Auditor(ctx, prog)
    for nm in ('revoke_credentials', 'unrevoke_credentials'):
        f = prog.one(r'<impl at [^>]*iota_document\.rs[^>]*>::%s$' % nm)
        paths, ex = A.paths(f, same_file=False)

        def r_w(p, nm=nm):
            if p.kind != 'return':
                return 'panic ' + p.msg
            cs = [c for c in p.calls if re.search(r'RevocationDocumentExt>::%s$|CoreDocument.*::%s$' % (nm, nm), c.name)]
            if len(cs) != 1:
                return 'the wrapper does not perform the core operation exactly once on this path'
            c = cs[0]
            if not (apps(c.args[0], r'core_document_mut$') and mentions(c.args[0], r'^self$')):
                return 'the operation is not applied to this document\'s core document'
            if strip(c.args[1]) != ('leaf', 'service_query') or strip(c.args[2]) != ('leaf', 'indices'):
                return 'service query / indices are not handed over as given'
            other = [x for x in p.calls if not x.inlined and re.search(r'is_revoked|resolve_revocation_bitmap|Iterator>::(all|any|filter)$|contains', x.name)]
            if other:
                return 'the wrapper examines the bitmap itself'
            if p.took(c, 'Ok'):
                return None if p.is_ok() else 'a successful core operation is reported as an error'
            if p.took(c, 'Err'):
                return None if p.is_err() else 'a failed core operation is reported as success'
            t = p.term()
            return None if is_sub_c06(t, c.ret) else 'outcome of the core operation not returned'
        A.require('IotaDocument::%s/forwards-to-the-core-document-on-every-path' % nm, paths, r_w, replay=R('[iota-wrapper] after %s ' % ('revoke' if nm == 'revoke_credentials' else 'unrevoke')))


def is_sub_c06(t, want):
    return any(x == want for x in subterms(t))


def main(ctx):
    prog, info = load(CRATES, src_only=SRC)
    ctx.extra['mir'] = info
    ctx.outside += ['roaring serialisation and set semantics (third-party)', 'zlib', 'base64 codec', 'sets as such: the solver decides the format detector and the wiring, not 10^5-element round trips']
    guarded(ctx, 'legacy-format detector', 'M', lambda: detector(ctx, prog))
    guarded(ctx, 'endpoint / document audit', 'M', lambda: run(ctx, prog))
    guarded(ctx, 'IotaDocument wrappers', 'M', lambda: iota_wrappers(ctx))
    # "reported revoked by validation exactly when its index is a member" also needs the status unit to reach the bitmap check: a
    # RevocationBitmap2022 status is skipped only as configured, and one that does not convert is an error (C02's obligation, re-used)
    import c02

    def status_unit():
        prog2, info2 = load(c02.CRATES, src_only=c02.SRC)
        c02.units(ctx, prog2, only=r'^check_status/')
    guarded(ctx, 'status unit (shared with C02)', 'M', status_unit)
