"""C19 - ordered-set collections keep order and key-uniqueness.

K: OrderedSet - one inductive step from every duplicate-free state of length 0..3 (replace/update: <= 2) with arbitrary arguments
   against a list model; TryFrom<Vec>/FromIterator on 3 arbitrary elements.
M: OneOrSet / OneOrMany normalisation (never an empty Set out of new_set; singleton becomes One in new_set / map / try_map / From<Vec>).
"""
import re
import z3
from core import *
from execu import Refuse
from values import *
from audit import *
from loader import load

CRATES = ['identity_core']
REPLAY = {'scenario': 'collections'}


def run(ctx, prog):
    A = Auditor(ctx, prog)
    OS = r'one_or_set::<impl at [^>]*>::'
    f = prog.one(OS + r'new_set$')
    paths, ex = A.paths(f)

    def r_ns(p):
        if p.kind == 'panic':
            # pop() on a vector whose OrderedSet reported len == 1: unreachable given Vec's contract (len 1 => pop is Some)
            ln = [c for c in p.find_calls(r'OrderedSet::len$')]
            return None if ln and p.implies(ex.sym_int(ln[0].ret, 64).e == 1) else 'panic reachable: ' + p.msg
        ie = [c for c in p.find_calls(r'OrderedSet::is_empty$') if mentions(c.args, r'^set$')]
        if not ie:
            return 'emptiness not examined'
        if p.is_err():
            return None if p.took(ie[0].ret, 'true') else 'non-empty set rejected'
        if not p.took(ie[0].ret, 'false'):
            return 'empty set accepted'
        ln = [c for c in p.find_calls(r'OrderedSet::len$')]
        t = p.term(p.payload())
        one = bool(apps(t, r'new_one$')) or 'OneOrSetInner::One' in term_str(t)
        if not ln:
            return 'length not examined'
        l = ex.sym_int(ln[0].ret, 64).e
        if one:
            return None if p.implies(l == 1) else 'set with several elements collapsed to One'
        return None if p.implies(l != 1) else 'singleton kept as Set (would serialise as an array)'
    A.require('OneOrSet::new_set/non-empty-and-singleton-normalised', paths, r_ns, replay=REPLAY)

    for nm in ('map', 'try_map'):
        f = prog.one(OS + nm + '$')
        paths, ex = A.paths(f)

        def r_map(p, nm=nm):
            if p.kind == 'panic':
                ln = [c for c in p.find_calls(r'OrderedSet::len$|OrderedSet<.*>::len$')]
                return None if ln and p.implies(ex.sym_int(ln[-1].ret, 64).e == 1) else 'panic reachable: ' + p.msg
            v = p.val
            if nm == 'try_map':
                if isinstance(v, VAgg) and v.variant == 'Err':
                    return None
                if not (isinstance(v, VAgg) and v.variant == 'Ok'):
                    return None   # `?` propagation of an opaque error
                v = v.fields[0]
            inner = v.fields[0] if isinstance(v, VAgg) and v.fields else None
            if not isinstance(inner, VAgg):
                return 'result variant undetermined'
            ln = [c for c in p.find_calls(r'OrderedSet::len$|OrderedSet<.*>::len$')]
            if str(inner.variant) == 'Set':
                if not ln or not p.implies(ex.sym_int(ln[-1].ret, 64).e != 1):
                    return 'mapped singleton kept as Set'
            return None
        A.require('OneOrSet::%s/singleton-result-normalised-to-One' % nm, paths, r_map, replay=REPLAY)

    f = prog.one(r'one_or_many::<impl at [^>]*>::from$', sig=r'^(\w+::)*Vec<T>')
    paths, ex = A.paths(f)

    def r_fv(p):
        if p.kind == 'panic':
            ln = [c for c in p.find_calls(r'Vec<T>::len$|Vec::len$|::len$')]
            return None if ln and p.implies(ex.sym_int(ln[0].ret, 64).e == 1) else 'panic reachable: ' + p.msg
        ln = [c for c in p.find_calls(r'::len$') if mentions(c.args, r'^other$')]
        if not ln or not isinstance(p.val, VAgg):
            return 'length not examined'
        l = ex.sym_int(ln[0].ret, 64).e
        if str(p.val.variant) == 'One':
            return None if p.implies(l == 1) else 'several elements collapsed to One'
        return None if p.implies(l != 1) else 'singleton kept as Many'
    A.require('OneOrMany::from<Vec>/singleton-normalised-to-One', paths, r_fv, replay=REPLAY)


def kani_part(ctx):
    import kanirun
    fn = ['OrderedSet::append', 'OrderedSet::prepend', 'OrderedSet::remove', 'OrderedSet::replace', 'OrderedSet::update', 'OrderedSet::change',
          'OrderedSet::try_from(Vec)', 'OrderedSet::from_iter']
    quick = ['c19_append_2', 'c19_remove_2', 'c19_twin_must_fail']
    thorough = ['c19_append_0', 'c19_append_1', 'c19_append_3', 'c19_prepend_0', 'c19_prepend_1', 'c19_prepend_2', 'c19_prepend_3',
                'c19_remove_1', 'c19_remove_3', 'c19_replace_1', 'c19_replace_2', 'c19_update_1', 'c19_update_2', 'c19_replace_kv_2', 'c19_from_vec_3']
    names = quick + (thorough if ctx.tier == 'thorough' else [])
    specs = [dict(harness=h, timeout_s=2700, functions=fn, must_fail=h.endswith('must_fail'),
                  bounds='OrderedSet<u8> (KV for the projection-key instance) of the concrete length in the harness name, all duplicate-free contents, all arguments') for h in names]
    res = kanirun.run_many(specs)
    kanirun.judge(ctx, specs, res, 'c19')


def main(ctx):
    prog, info = load(CRATES)
    ctx.extra['mir'] = info
    ctx.outside += ['serde forms (bare value vs array, own-JSON round trip)', 'sets longer than 3 (replace/update: 2)',
                    'OneOrSet::append and OneOrMany::push (mem::replace choreography; not encoded)']
    guarded(ctx, 'one-or-set normalisation', 'M', lambda: run(ctx, prog))
    if os.environ.get('VERIF_SKIP_K') != '1':
        guarded(ctx, 'ordered set inductive steps', 'K', lambda: kani_part(ctx))
