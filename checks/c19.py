"""C19 - ordered-set collections keep order and key-uniqueness.

K: OrderedSet - one inductive step from every duplicate-free state of length 0..3 (replace/update: <= 2) with arbitrary arguments
   against a list model; TryFrom<Vec>/FromIterator on 3 arbitrary elements.
M: OneOrSet / OneOrMany normalisation (never an empty Set out of new_set; singleton becomes One in new_set / map / try_map / From<Vec>).
"""
import re
import z3
from core import *
from execu import Refuse
from values import *
from audit import *
from loader import load

CRATES = ['identity_core']
REPLAY = {'scenario': 'collections'}


def run(ctx, prog, only=None):
    A = Auditor(ctx, prog, only=only)
    OS = r'one_or_set::<impl at [^>]*>::'
    f = prog.one(OS + r'new_set$')
    paths, ex = A.paths(f)

    def r_ns(p):
        if p.kind == 'panic':
            # pop() on a vector whose OrderedSet reported len == 1: unreachable given Vec's contract (len 1 => pop is Some)
            ln = [c for c in p.find_calls(r'OrderedSet::len$')]
            return None if ln and p.implies(ex.sym_int(ln[0].ret, 64).e == 1) else 'panic reachable: ' + p.msg
        ie = [c for c in p.find_calls(r'OrderedSet::is_empty$') if mentions(c.args, r'^set$')]
        if not ie:
            return 'emptiness not examined'
        if p.is_err():
            return None if p.took(ie[0].ret, 'true') else 'non-empty set rejected'
        if not p.took(ie[0].ret, 'false'):
            return 'empty set accepted'
        ln = [c for c in p.find_calls(r'OrderedSet::len$')]
        t = p.term(p.payload())
        one = bool(apps(t, r'new_one$')) or 'OneOrSetInner::One' in term_str(t)
        if not ln:
            return 'length not examined'
        l = ex.sym_int(ln[0].ret, 64).e
        if one:
            return None if p.implies(l == 1) else 'set with several elements collapsed to One'
        return None if p.implies(l != 1) else 'singleton kept as Set (would serialise as an array)'
    A.require('OneOrSet::new_set/non-empty-and-singleton-normalised', paths, r_ns, replay=REPLAY)

    for nm in ('map', 'try_map'):
        f = prog.one(OS + nm + '$')
        paths, ex = A.paths(f)

        def r_map(p, nm=nm):
            if p.kind == 'panic':
                ln = [c for c in p.find_calls(r'OrderedSet::len$|OrderedSet<.*>::len$')]
                return None if ln and p.implies(ex.sym_int(ln[-1].ret, 64).e == 1) else 'panic reachable: ' + p.msg
            v = p.val
            if nm == 'try_map':
                if isinstance(v, VAgg) and v.variant == 'Err':
                    return None
                if not (isinstance(v, VAgg) and v.variant == 'Ok'):
                    return None   # `?` propagation of an opaque error
                v = v.fields[0]
            inner = v.fields[0] if isinstance(v, VAgg) and v.fields else None
            if not isinstance(inner, VAgg):
                return 'result variant undetermined'
            ln = [c for c in p.find_calls(r'OrderedSet::len$|OrderedSet<.*>::len$')]
            if str(inner.variant) == 'Set':
                if not ln or not p.implies(ex.sym_int(ln[-1].ret, 64).e != 1):
                    return 'mapped singleton kept as Set'
            return None
        A.require('OneOrSet::%s/singleton-result-normalised-to-One' % nm, paths, r_map, replay=REPLAY)

    f = prog.one(r'one_or_many::<impl at [^>]*>::from$', sig=r'^(\w+::)*Vec<T>')
    paths, ex = A.paths(f)

    def r_fv(p):
        if p.kind == 'panic':
            ln = [c for c in p.find_calls(r'Vec<T>::len$|Vec::len$|::len$')]
            return None if ln and p.implies(ex.sym_int(ln[0].ret, 64).e == 1) else 'panic reachable: ' + p.msg
        ln = [c for c in p.find_calls(r'::len$') if mentions(c.args, r'^other$')]
        if not ln or not isinstance(p.val, VAgg):
            return 'length not examined'
        l = ex.sym_int(ln[0].ret, 64).e
        if str(p.val.variant) == 'One':
            return None if p.implies(l == 1) else 'several elements collapsed to One'
        return None if p.implies(l != 1) else 'singleton kept as Many'
    A.require('OneOrMany::from<Vec>/singleton-normalised-to-One', paths, r_fv, replay=REPLAY)


def serde_and_change(ctx, prog, only=None):
    A = Auditor(ctx, prog, only=only)
    # OneOrSet's array form is read through OrderedSet's own Deserialize (duplicate keys refused), then checked for emptiness
    f = prog.one(r'(^|::)deserialize_non_empty_set$')
    paths, ex = A.paths(f)

    def r_de(p):
        if p.kind != 'return':
            return 'panic ' + p.msg
        if isinstance(p.val, VAgg) and p.val.variant == 'Err':
            return None
        t = strip(p.term(p.payload()))
        ok = isinstance(t, tuple) and t and t[0] == 'field' and t[3] == 'Ok' and isinstance(t[1], tuple) and t[1][0] == 'app' and \
            re.search(r'<OrderedSet<T> as (\w+::)*Deserialize<.*>>::deserialize$|<OrderedSet<T> as (\w+::)*TryFrom<Vec<T>>>::try_from$', t[1][1])
        if not ok:
            return 'set not produced by the duplicate-rejecting constructor: %s' % term_str(t)[:140]
        ie = [c for c in p.find_calls(r'is_empty$') if p.took(c.ret, 'false')]
        return None if ie else 'accepted without the set being non-empty'
    A.require('OneOrSet::deserialize/array-through-duplicate-rejecting-constructor-and-non-empty', paths, r_de, replay=REPLAY)

    # OrderedSet's derived Deserialize goes through TryFrom<Vec<T>> (serde `try_from`)
    fs = [g for g in prog.funcs if re.search(r'ordered_set::_::<impl at [^>]*>::deserialize$', g.name)]
    if len(fs) != 1:
        raise Refuse('derived Deserialize of OrderedSet: %d candidates' % len(fs))
    cl = [g for g in prog.funcs if g.name.startswith(fs[0].name + '::{closure')]
    body = ' '.join(str(b.term) for g in [fs[0]] + cl for b in g.blocks.values() if b.term)
    tf = bool(re.search(r'OrderedSet<T> as (\w+::)*TryFrom<Vec<T>>>::try_from', body))
    ctx.add(Ob('OrderedSet::deserialize/through-TryFrom<Vec>', 'M', HELD if tf else INCONCLUSIVE,
               detail='' if tf else 'derived Deserialize does not call TryFrom<Vec<T>>', functions=[short(fs[0].name)],
               sample='derived Deserialize of OrderedSet converts through TryFrom<Vec<T>> (duplicate keys -> error)'))

    # OneOrMany's Serialize is the untagged form of its own variant: One(x) -> x, Many(v) -> the whole sequence v (so that the
    # derived untagged Deserialize reads back the variant that was written)
    fs = [g for g in prog.funcs if re.search(r'one_or_many::(_::)?<impl [^>]*>::serialize$', g.name)]
    if len(fs) != 1:
        raise Refuse('Serialize of OneOrMany: %d candidates' % len(fs))
    paths, ex = A.paths(fs[0])

    def r_ser(p):
        if p.kind != 'return':
            return 'panic ' + p.msg
        t = strip(p.term())
        if not (isinstance(t, tuple) and t and t[0] == 'app' and re.search(r'Serialize>::serialize$', t[1])):
            return 'result is not the serialisation of one value'
        fp = field_path(strip(t[2][0]))
        if not fp or fp[0] != 'self' or len(fp[1]) != 1:
            return 'serialised value is not the payload of the variant as a whole: %s' % term_str(t[2][0])[:120]
        variant = fp[1][0][0]
        if str(variant) == 'Many' and 'Vec<' not in t[1]:
            return 'Many(v) not serialised as the sequence v'
        if str(variant) == 'One' and 'Vec<' in t[1]:
            return 'One(x) serialised as a sequence'
        return None
    A.require('OneOrMany::serialize/variant-payload-as-it-is', paths, r_ser, replay=REPLAY)

    # change (replace / update): only order-preserving vector operations; the entry at the first match is the new value
    f = prog.one(r'ordered_set::<impl at [^>]*>::change$')
    paths, ex = A.paths(f, inline=r'ordered_set::<impl at [^>]*>::change::\{closure', allow_bound=True)
    ORDER_BREAKING = r'(^|::)(swap_remove|swap|reverse|sort\w*|rotate_\w+|select_nth\w*|dedup\w*|retain\w*)$'

    def r_ch(p):
        if p.kind != 'return':
            return None
        bad = [c for c in p.calls if re.search(ORDER_BREAKING, c.name)]
        if bad:
            return 'order-breaking vector operation %s' % bad[0].name
        return None
    A.require('OrderedSet::change/no-order-breaking-vector-operation', paths, r_ch, replay=REPLAY)


    # remove: the entry found by key is taken out with the order-preserving Vec::remove (the set is *ordered*: what remains keeps its
    # order, which fragment-only queries - "first match" - depend on)
    f = prog.one(r'ordered_set::<impl at [^>]*>::remove$')
    paths, ex = A.paths(f, inline=r'ordered_set::<impl at [^>]*>::remove::\{closure', allow_bound=True)

    def r_rm(p):
        if p.kind != 'return':
            return None
        bad = [c for c in p.calls if re.search(ORDER_BREAKING + r'|(^|::)(truncate|drain|pop|clear|split_off)$', c.name)]
        if bad:
            return 'entry taken out with %s: the remaining entries do not keep their order' % bad[0].name.split('::')[-1]
        return None
    A.require('OrderedSet::remove/order-preserving-removal', paths, r_rm, replay=[REPLAY, {'scenario': 'document_ops', 'cex': {'only': '[order]'}}])

    # replace / update are `change` with a key predicate and nothing else (no pre-check, no early return)
    def key_of(t, who):
        """t is key(<who>) for the closure argument / capture named by the regex `who`"""
        t = strip(t)
        return isinstance(t, tuple) and t and t[0] == 'app' and re.search(r'KeyComparable>::key$', t[1]) and mentions(t[2][0], who) and \
            len(term_leaves(t[2][0])) == 1

    for nm, keys in (('replace', [r'^arg1$', r'^update$']), ('update', [r'^update$'])):
        f = prog.one(r'ordered_set::<impl at [^>]*>::%s$' % nm)
        paths, ex = A.paths(f)

        def r_wr(p, nm=nm):
            if p.kind != 'return':
                return 'panic ' + p.msg
            ch = p.find_calls(r'OrderedSet::change$|ordered_set::<impl at [^>]*>::change$')
            if len(paths) != 1 or len(ch) != 1 or len(p.calls) != 1:
                return '%s does something besides one call of change (a pre-check, an early return, another branch)' % nm
            c = ch[0]
            if strip(c.args[0]) != ('leaf', 'self') or strip(c.args[1]) != ('leaf', 'update') or ('%s::{closure' % nm) not in str(c.args[2]) and 'closure@' not in str(c.args[2]):
                return 'change not called as self.change(update, <predicate>)'
            return None if isinstance(p.val, VBool) and p.implies(p.val.e == ex.sym_bool(c.ret).e) else 'result is not what change returned'
        A.require('OrderedSet::%s/exactly-one-change-call-and-its-result' % nm, paths, r_wr, replay=REPLAY)

        fc = prog.one(r'ordered_set::<impl at [^>]*>::%s::\{closure#0\}$' % nm)
        cpaths, cex = A.paths(fc)

        def r_pred(p, keys=keys, nm=nm):
            if p.kind != 'return':
                return 'panic ' + p.msg
            eqs = [c for c in p.calls if re.search(r'PartialEq.*>::eq$', c.name)]
            hits = {}
            for c in eqs:
                a, b = c.args[0], c.args[1]
                for k in keys:
                    if (key_of(a, r'^item$') and key_of(b, k)) or (key_of(b, r'^item$') and key_of(a, k)):
                        hits[k] = c
            others = [c for c in eqs if c not in hits.values()]
            if others:
                return 'predicate compares something other than the entry key with the key(s) of %s' % ' / '.join(keys)
            if not isinstance(p.val, VBool):
                return 'predicate result is not a boolean'
            if p.implies(p.val.e):
                return None if any(p.took(c.ret, 'true') for c in hits.values()) else 'predicate true without a key match'
            if p.implies(z3.Not(p.val.e)):
                return None if len(hits) == len(keys) and all(p.took(c.ret, 'false') for c in hits.values()) else \
                    'predicate false although not every key comparison failed (or one was never made)'
            # result is the last comparison itself: all earlier ones failed
            last = eqs[-1] if eqs else None
            if last is None or not p.implies(p.val.e == cex.sym_bool(last.ret).e) or len(hits) != len(keys):
                return 'predicate result does not derive from the key comparisons'
            return None if all(p.took(c.ret, 'false') for c in hits.values() if c is not last) else 'an earlier key match is ignored'
        A.require('OrderedSet::%s/predicate-matches-exactly-the-named-keys' % nm, cpaths, r_pred, replay=REPLAY)

    # TryFrom<Vec<T>> (also the serde route): every element goes through `append`, a refused append refuses the whole vector
    f = prog.one(r'ordered_set::<impl at [^>]*>::try_from$', sig=r'Vec<T>')
    paths, ex = A.paths(f, unwind=3, allow_bound=True)
    ctx.bounds.append('OrderedSet::try_from(Vec): loop unrolled 3 times (%d longer paths cut)' % A.last_bound_hits)

    def r_tf(p):
        if p.kind != 'return':
            return 'panic ' + p.msg
        bad = [c for c in p.calls if re.search(ORDER_BREAKING + r'|(^|::)(truncate|drain|remove|pop|clear)$', c.name)]
        if bad:
            return 'vector reshaped with %s instead of element-wise insertion' % bad[0].name.split('::')[-1]
        nx = [c for c in p.calls if re.search(r'Iterator>::next$', c.name) and p.took(c, 'Some')]
        ap = [c for c in p.calls if re.search(r'OrderedSet::append$|ordered_set::<impl at [^>]*>::append$', c.name)]
        if len(ap) != len(nx):
            return 'not every element taken from the vector is appended'
        for n_, a_ in zip(nx, ap):
            if strip(a_.args[1]) != ('field', n_.ret, 0, 'Some'):
                return 'appended value is not the element taken from the vector'
        if p.is_ok():
            if not all(p.took(a_.ret, 'true') for a_ in ap):
                return 'vector accepted although an element was refused as a duplicate'
            end = [c for c in p.calls if re.search(r'Iterator>::next$', c.name) and p.took(c, 'None')]
            if not end:
                return 'accepted before the vector was exhausted'
            return None
        return None if ap and p.took(ap[-1].ret, 'false') else 'vector refused although no element was refused'
    A.require('OrderedSet::try_from<Vec>/element-wise-through-append', paths, r_tf, replay=REPLAY)


    # OneOrSet::append: a refused duplicate leaves the collection exactly as it was; from One, an accepted element makes [old, new]
    from execu import VOver
    def m_replace(ex_, st, fr, name, args, dty):
        # std::mem::replace(&mut x, new): returns what x held and stores new (precise, so that the match on the old value is exact)
        if isinstance(args[0], VRef):
            cell, path = args[0].cell, args[0].path
        elif isinstance(args[0], VSym):
            # an opaque pointer argument (e.g. `self`): the same backing cell the executor gives its dereference
            from execu import deref_ty
            cell, path = 'sym:' + term_str(args[0].term), ()
            if cell not in st.mem:
                st.mem[cell] = VSym(('deref', args[0].term), deref_ty(args[0].ty))
        else:
            return None
        old = ex_.load(st, cell, path)
        ex_.store(st, cell, path, args[1])
        return [(st, old, 'ok', '')]
    f = prog.one(r'one_or_set::<impl at [^>]*>::append$')
    paths, ex = A.paths(f, extra_models=[(re.compile(r'(^|::)mem::replace$'), m_replace)])

    def r_osa(p):
        if p.kind != 'return':
            return 'panic ' + p.msg
        mem = p.st.mem.get('sym:self')
        written = isinstance(mem, VOver)
        mt = ex.to_term(p.st, mem) if written else None
        if isinstance(p.val, VBool) and p.implies(z3.Not(p.val.e)):
            if written and mentions(mt, r'^item$'):
                return 'append returned false but stored the rejected element'
            return None
        da = [c for c in p.calls if re.search(r'OrderedSet::append$', c.name)]
        if da:
            # Set state: OrderedSet::append decides (its own obligations: K / M above)
            return None if strip(da[0].args[1]) == ('leaf', 'item') and isinstance(p.val, VBool) and p.implies(p.val.e == ex.sym_bool(da[0].ret).e) else \
                'Set state: result is not OrderedSet::append(item)'
        fi = [c for c in p.calls if re.search(r'FromIterator<T>>::from_iter$|OrderedSet::from_iter$', c.name)]
        if not written or len(fi) != 1:
            return 'append returned true without storing a set built from the old and the new element'
        arr = strip(fi[0].args[0])
        if not (isinstance(arr, tuple) and arr[0] == 'agg' and len(arr[3]) == 2 and strip(arr[3][1]) == ('leaf', 'item') and not mentions(arr[3][0], r'^item$')):
            return 'the new set is not [old element, new element]'
        return None
    A.require('OneOrSet::append/refused-leaves-it-untouched-accepted-appends-at-the-end', paths, r_osa, replay={'scenario': 'collections', 'cex': {'only': '[append]'}})

    # OrderedSet::prepend: refused (key present) => nothing is touched; accepted => inserted at position 0, nothing else moves
    f = prog.one(r'ordered_set::<impl at [^>]*>::prepend$')
    paths, ex = A.paths(f, same_file=True) if True else (None, None)

    def r_pre(p):
        if p.kind != 'return':
            return None
        bad = [c for c in p.calls if re.search(ORDER_BREAKING + r'|(^|::)(truncate|drain|pop|clear|split_off)$', c.name)]
        if bad:
            return 'prepend moves entries around with %s' % bad[0].name.split('::')[-1]
        ins = [c for c in p.calls if re.search(r'Vec(<.*>)?::insert$', c.name)]
        push = [c for c in p.calls if re.search(r'Vec(<.*>)?::push$', c.name)]
        if isinstance(p.val, VBool) and p.implies(z3.Not(p.val.e)):
            return 'prepend returned false but changed the set' if (ins or push) else None
        if isinstance(p.val, VBool) and p.implies(p.val.e):
            if push or len(ins) != 1:
                return 'accepted element not inserted exactly once at the front'
            pos = ins[0].argvals[1] if ins[0].argvals else None
            if not (isinstance(pos, VInt) and p.implies(pos.e == 0)) or strip(ins[0].args[2]) != ('leaf', 'item'):
                return 'accepted element not inserted at position 0'
            return None
        return 'result does not follow the membership test'
    A.require('OrderedSet::prepend/refused-untouched-accepted-at-the-front', paths, r_pre, replay=REPLAY)

    # OneOrMany::push: an empty Many becomes One(value) - decided by emptiness, not by anything else (capacity, history)
    f = prog.one(r'one_or_many::<impl at [^>]*>::push$')
    paths, ex = A.paths(f, extra_models=[(re.compile(r'(^|::)mem::replace$'), m_replace)])

    def r_push(p):
        if p.kind != 'return':
            return 'panic ' + p.msg
        cap = [c for c in p.calls if re.search(r'::capacity$|::len$', c.name)]
        if cap:
            return 'push decides by %s, not by emptiness' % cap[0].name.split('::')[-1]
        ie = [c for c in p.calls if re.search(r'Vec(<.*>)?::is_empty$', c.name)]
        vp = [c for c in p.calls if re.search(r'Vec(<.*>)?::push$', c.name)]
        mem = p.st.mem.get('sym:self')
        mt = ex.to_term(p.st, mem) if isinstance(mem, (VOver, VAgg)) else None
        if ie and p.took(ie[0].ret, 'true'):
            if vp or mt is None or "'One'" not in repr(mt) or not mentions(mt, r'^value$'):
                return 'pushing onto an empty Many does not give One(value)'
        elif ie and p.took(ie[0].ret, 'false'):
            if len(vp) != 1 or strip(vp[0].args[1]) != ('leaf', 'value'):
                return 'pushing onto a non-empty Many does not append the value'
        return None
    A.require('OneOrMany::push/empty-many-becomes-one', paths, r_push, replay=REPLAY)

    # OneOrMany::from_iter: exactly one element gives One on every route - the route that collects into a Vec normalises through
    # From<Vec<T>> (audited above), it does not wrap the Vec in Many itself
    f = prog.one(r'one_or_many::<impl at [^>]*>::from_iter$')
    paths, ex = A.paths(f, unwind=2, allow_bound=True)

    def r_ofi(p):
        if p.kind != 'return':
            return 'panic ' + p.msg
        t = strip_into(p.term())
        col = apps(p.term(), r'Iterator>::collect$')
        if col:
            top = p.term()
            while isinstance(top, tuple) and top and top[0] in ('ref', 'deref'):
                top = top[1]
            if not (isinstance(top, tuple) and top[0] == 'app' and re.search(r'<Vec<T> as (\w+::)*Into<OneOrMany<T>>>::into$|<OneOrMany<T> as (\w+::)*From<Vec<T>>>::from$', top[1])):
                return 'collected vector wrapped without the singleton normalisation of From<Vec<T>>'
        return None
    A.require('OneOrMany::from_iter/collected-vector-goes-through-From<Vec>', paths, r_ofi, replay={'scenario': 'collections', 'cex': {'only': '[collect]'}})


def strip_into(t):
    return t


def kani_part(ctx):
    import kanirun
    fn = ['OrderedSet::from_iter (projection key)', 'OrderedSet::append', 'OrderedSet::prepend', 'OrderedSet::remove', 'OrderedSet::replace', 'OrderedSet::update', 'OrderedSet::change',
          'OrderedSet::try_from(Vec)', 'OrderedSet::from_iter']
    quick = ['c19_append_2', 'c19_remove_2', 'c19_collect_kv_3', 'c19_twin_must_fail']
    # replace / update on symbolic contents (c19_replace_1/2, c19_update_1/2), c19_prepend_3: 20-30 minute caps hit -> not registered
    thorough = ['c19_append_0', 'c19_append_1', 'c19_append_3', 'c19_prepend_0', 'c19_prepend_1', 'c19_prepend_2',
                'c19_remove_1', 'c19_remove_3', 'c19_from_vec_3']
    names = quick + (thorough if ctx.tier == 'thorough' else [])
    # (length-0 harnesses: a duplicate argument cannot exist for the empty set, that witness is unsatisfiable by design)
    specs = [dict(harness=h, timeout_s=2700, functions=fn, must_fail=h.endswith('must_fail'), allow_unsat_cover=h.endswith('_0'),
                  bounds='OrderedSet<u8> (KV for the projection-key instance) of the concrete length in the harness name, all duplicate-free contents, all arguments') for h in names]
    res = kanirun.run_many(specs)
    kanirun.judge(ctx, specs, res, 'c19')


def one_or_set_serialize_derived(ctx, prog):
    """OneOrSet (and its inner enum) are written by the derived untagged Serialize: the variant read is the variant written, so a value
    read from a one-element array reads back equal (documents hold controllers / service types in this type: the JSON round trip of C04)."""
    import derives
    derives.derived_impls(ctx, prog, 'OneOrSet/serialize-is-the-derived-one', r'identity_core/src/common/one_or_set\.rs', ['one_or_set.rs'],
                          {'scenario': 'collections', 'cex': {'only': '[serde]'}}, methods=('serialize',))


def one_or_many_serde_shape(ctx, prog):
    """OneOrMany is read by serde's derived untagged routine with no per-field deserialiser: every value it writes (the empty list
    included) reads back; a `deserialize_with` helper shows up in the MIR as `...::deserialize::...::<impl>::deserialize` nested in the
    derive of one_or_many.rs."""
    from replay import run_replay
    name = 'OneOrMany/read-by-the-derived-deserialiser-without-per-variant-helper'
    helpers = [g.name for g in prog.funcs if re.search(r'one_or_many\.rs[^>]*>::deserialize::.*<impl at [^>]*>::deserialize$', g.name)]
    # an untagged enum's derive calls a variant's `deserialize_with` function directly: a free function of the module returning `D::Error`
    # (free functions are printed without their module path; identity_core's one legitimate helper of this kind is OneOrSet's)
    helpers += [g.name for g in prog.funcs if re.match(r'\w+$', g.name) and re.search(r'Deserializer<.*>>::Error>', g.ret_ty or '')
                and g.name != 'deserialize_non_empty_set']
    derives = [g.name for g in prog.funcs if re.search(r'<impl at [^>]*one_or_many\.rs[^>]*>::deserialize$', g.name)]
    if not derives:
        ctx.add(Ob(name, 'M', INCONCLUSIVE, detail='no derived Deserialize found in one_or_many.rs'))
        return
    if not helpers:
        ctx.add(Ob(name, 'M', HELD, queries=len(derives), sample='derived Deserialize of OneOrMany, no helper'))
        return
    rep = {'scenario': 'collections', 'cex': {'only': '[serde]'}}
    res = run_replay(rep)
    ctx.add(Ob(name, 'M', VIOLATED if res.get('reproduced') else INCONCLUSIVE,
               detail='custom deserialiser inside OneOrMany (%s); native: %s' % (helpers[0][-120:], res.get('detail', '')[:300]), replay=rep,
               cex={'path': helpers[0][-160:]}))


def main(ctx):
    prog, info = load(CRATES)
    ctx.extra['mir'] = info
    ctx.outside += ['serde forms (bare value vs array, own-JSON round trip)', 'sets longer than 3 (replace/update: 2)',
                    'OneOrSet::append and OneOrMany::push (mem::replace choreography; not encoded)']
    guarded(ctx, 'one-or-set normalisation', 'M', lambda: run(ctx, prog))
    guarded(ctx, 'serde constructors and change', 'M', lambda: serde_and_change(ctx, prog))
    guarded(ctx, 'OneOrMany serde shape', 'M', lambda: one_or_many_serde_shape(ctx, prog))
    guarded(ctx, 'OneOrSet serialize derived', 'M', lambda: one_or_set_serialize_derived(ctx, prog))
    if os.environ.get('VERIF_SKIP_K') != '1':
        guarded(ctx, 'ordered set inductive steps', 'K', lambda: kani_part(ctx))
