"""C08 - every JWS the library produces decodes and verifies to what was signed (engine M).

The encoders are audited as the mirror image of the decoder obligations of C01: the bytes that are signed are
create_message(ASCII(protected segment placed in the token), payload as placed in the token), the protected segment and
the payload placed in the token are those very strings, the header gate ran, unencoded payloads of the compact form
satisfy the RFC 7797 character rules (kernels over every char).
"""
import re
import z3
from core import *
from execu import Exec, State, Refuse
from values import *
from audit import *
from loader import load
import models
import vc
from c18 import decode_template

CRATES = ['identity_jose']
REPLAY = {'scenario': 'jws_binding'}


def is_sub(t, want):
    return any(s == want for s in subterms(t))


def charset_m(ctx, prog):
    A = Auditor(ctx, prog)
    # ---- RFC 7797 5.2 character sets ------------------------------------------------------------------------------------------
    c = z3.BitVec('ch', 32)
    valid_char = z3.And(z3.ULE(c, 0x10FFFF), z3.Not(z3.And(z3.UGE(c, 0xD800), z3.ULE(c, 0xDFFF))))

    def rng(a, b):
        return z3.And(z3.UGE(c, a), z3.ULE(c, b))
    want = [z3.Or(rng(0x20, 0x2D), rng(0x2F, 0x7E)),
            z3.Or(rng(ord('a'), ord('z')), rng(ord('A'), ord('Z')), rng(ord('0'), ord('9')), c == ord('-'), c == ord('_'), c == ord('~'))]
    cls = sorted([g for g in prog.funcs if re.search(r'charset::<impl at [^>]*>::__validate::\{closure#\d\}$', g.name)], key=lambda g: g.name)
    if len(cls) != 2:
        # the shape this kernel reads (one closure per set over chars) is gone: the K harnesses decide the function as a whole
        ctx.outside.append('charset M kernel over every Unicode scalar value (closure shape not found; K harnesses on 1- and 2-byte strings decide)')
        return
    for g, w, nm in zip(cls, want, ('Default', 'UrlSafe')):
        ex = Exec(prog, models=models.MODELLED)
        st = State()
        st.pc.append(valid_char)
        outs = ex.run(g, [VAgg('closure', None, []), VInt(c, 32)], st)
        goals = [('CharSet::%s differs from RFC 7797 5.2' % nm, o.st.pc + [o.val.e != w]) for o in outs if o.kind == 'return' and isinstance(o.val, VBool)]
        if len(goals) != len(outs):
            raise Refuse('charset closure outcomes')
        v = vc.check_formulas(goals)
        st_ = HELD if v.status == 'unsat' else INCONCLUSIVE
        detail = ''
        rep = None
        if v.status == 'sat':
            ch = v.model[1].eval(c, model_completion=True).as_long()
            from replay import run_replay
            rep = {'scenario': 'jws_charset', 'cex': {'char': ch}}
            res = run_replay(rep)
            st_ = VIOLATED if res.get('reproduced') else INCONCLUSIVE
            detail = 'U+%04X; native: %s' % (ch, res.get('detail'))
        ctx.add(Ob('charset/%s=RFC7797-5.2' % nm, 'M', st_, detail=detail, replay=rep, solver_s=v.secs, queries=v.queries,
                   functions=sorted(ex.encoded), bounds='every Unicode scalar value'))

    f = prog.one(r'charset::<impl at [^>]*>::validate$')
    paths, ex = A.paths(f, inline=r'charset::<impl at [^>]*>::validate::\{closure')

    def r_cv(p):
        if p.kind != 'return':
            return 'panic ' + p.msg
        if not p.is_ok():
            return None
        u8 = [c_ for c_ in p.find_calls(r'from_utf8$') if p.took(c_, 'Ok') and mentions(c_.args, r'^data$')]
        dot = [c_ for c_ in p.find_calls(r'str>::contains$') if p.took(c_.ret, 'false')]
        val = [c_ for c_ in p.find_calls(r'__validate$') if p.took(c_.ret, 'true')]
        if not u8:
            return 'payload accepted without being valid UTF-8'
        if not dot or strip(dot[0].args[1]) != ('const', ord('.')):
            return 'payload accepted although it may contain "."'
        if not val or not is_sub(val[0].args[1], ('field', u8[0].ret, 0, 'Ok')):
            return 'payload accepted without the character-set check'
        return None if strip(p.term(p.payload())) == ('field', u8[0].ret, 0, 'Ok') else 'returned string is not the validated payload'
    if any(p.find_calls(r'__validate$') for p in paths):
        A.require('charset/validate=utf8-no-dot-charset', paths, r_cv, replay={'scenario': 'jws_charset'})



def run(ctx, prog):
    A = Auditor(ctx, prog)
    S = prog.structs

    # ---- MaybeEncodedPayload ------------------------------------------------------------------------------------------------------
    f = prog.one(r'utils::<impl at [^>]*>::encode_if_b64$')
    paths, ex = A.paths(f, inline=r'encode_if_b64::\{closure')

    def r_enc(p):
        if p.kind != 'return' or not isinstance(p.val, VAgg):
            return 'payload form undetermined'
        eb = [c_ for c_ in p.find_calls(r'(^|::)extract_b64$') if strip(c_.args[0]) == ('leaf', 'protected_header')]
        if not eb:
            return 'b64 of the protected header not consulted'
        if str(p.val.variant) == 'Encoded':
            t = strip(p.term(p.val.fields[0]))
            ok_ = p.took(eb[0].ret, 'true') and t[0] == 'app' and re.search(r'encode_b64$', t[1]) and strip(t[2][0]) == ('leaf', 'payload')
            return None if ok_ else 'payload encoded although b64=false (or not the payload)'
        ok_ = p.took(eb[0].ret, 'false') and strip(p.term(p.val.fields[0])) == ('leaf', 'payload')
        return None if ok_ else 'payload left unencoded although b64 is true'
    A.require('payload/base64url-iff-protected-b64-not-false', paths, r_enc, replay=REPLAY)

    f = prog.one(r'utils::<impl at [^>]*>::into_non_detached$')
    paths, ex = A.paths(f)

    def r_nd(p):
        if p.kind != 'return':
            return 'panic ' + p.msg
        if not p.is_ok():
            return None
        cow = p.payload()
        v = ('leaf', 'self')
        if str(cow.variant) == 'Owned':
            return None if field_path(strip(p.term(cow.fields[0]))) == ('self', [('Encoded', 0)]) else 'encoded payload replaced'
        vc_ = [c_ for c_ in p.calls if re.search(r'FnOnce<.*>>::call_once$', c_.name) and p.took(c_, 'Ok')]
        if not vc_ or field_path(strip(vc_[0].args[1][3][0] if vc_[0].args[1][0] == 'agg' else vc_[0].args[1])) != ('self', [('NotEncoded', 0)]):
            return 'unencoded payload placed in the token without the validator accepting it'
        return None if strip(p.term(cow.fields[0])) == ('field', vc_[0].ret, 0, 'Ok') else 'token payload is not the validated payload'
    A.require('payload/unencoded-payload-only-after-validation', paths, r_nd, replay=REPLAY)

    # ---- compact encoder -------------------------------------------------------------------------------------------------------------
    CE = S['CompactJwsEncoder']
    f = prog.one(r'encoder::<impl at [^>]*>::new_with_options$')
    paths, ex = A.paths(f, inline=r'new_with_options::\{closure')
    okp = [p for p in paths if p.kind == 'return' and p.is_ok()]

    def signing_input_ok(p, si_term, hdr_term, payload_pred):
        t = strip(si_term)
        if not (t[0] == 'app' and re.search(r'create_message$', t[1])):
            return 'signing input is not create_message(..)'
        a0, a1 = strip(t[2][0]), strip(t[2][1])
        if a0 != strip(hdr_term):
            return 'signing input does not start with the protected segment placed in the token'
        return None if payload_pred(t[2][1]) else 'signing input payload part is not the payload placed in the token'

    def r_ce(p):
        e = p.payload()
        ph = p.term(e.fields[CE.index('protected_header')])
        j = [c_ for c_ in p.find_calls(r'encode_b64_json$') if p.took(c_, 'Ok') and strip(c_.args[0]) == ('leaf', 'protected_header')]
        if not j or strip(ph) != ('field', j[0].ret, 0, 'Ok'):
            return 'protected segment is not encode_b64_json(header)'
        me = [c_ for c_ in p.find_calls(r'encode_if_b64$')]
        if not me or strip(me[0].args[0]) != ('leaf', 'payload') or not is_sub(me[0].args[1], ('leaf', 'protected_header')):
            return 'payload not prepared by encode_if_b64(payload, protected header)'
        r = signing_input_ok(p, p.term(e.fields[CE.index('signing_input')]), ph,
                             lambda t: bool(apps(t, r'MaybeEncodedPayload::as_bytes$')) and is_sub(t, me[0].ret))
        if r:
            return r
        pp = e.fields[CE.index('processed_payload')]
        if isinstance(pp, VAgg) and pp.variant == 'Some':
            t = p.term(pp.fields[0])
            nd = apps(t, r'into_non_detached$')
            if not nd or strip(nd[0][2][0]) != me[0].ret:
                return 'token payload is not the prepared payload'
            clo = [a for a in p.find_calls(r'into_non_detached$')[0].argvals if isinstance(a, VFn)]
            if not clo:
                return 'unencoded payloads not validated against the charset'
            body = prog.closures.get(clo[0].name, [])
            txt = ' '.join(str(b.term) for g in body for b in g.blocks.values() if b.term)
            if 'CharSet::validate' not in txt and 'validate' not in txt:
                return 'compact payload validator is not CharSet::validate'
        return None
    A.require('compact-encoder/signs-exactly-what-it-emits', okp, r_ce, replay=REPLAY)

    f = prog.one(r'encoder::<impl at [^>]*>::into_jws$', sig=r'CompactJwsEncoder')
    paths, ex = A.paths(f)

    def r_cj(p):
        if p.kind != 'return':
            return 'panic ' + p.msg
        an = p.find_calls(r'Arguments::new$')
        if len(an) != 1:
            return 'token not formatted once'
        tm = strip(an[0].args[0])
        pieces = decode_template(tm[1]) if tm[0] == 'const' else None
        args = list(strip(an[0].args[1])[3])
        sig = [a for a in args if apps(a, r'encode_b64$') and mentions(a, r'^signature$')]
        hdr = [a for a in args if any(field_path(s) == ('self', [('', CE.index('protected_header'))]) for s in subterms(a))]
        pay = [a for a in args if any((field_path(s) or (None, []))[0] == 'self' and (field_path(s)[1] or [(None, None)])[0][1] == CE.index('processed_payload') for s in subterms(a) if isinstance(s, tuple) and s and s[0] == 'field')]
        pp = ('field', ('leaf', 'self'), CE.index('processed_payload'), '')
        if p.took(pp, 'Some'):
            ok_ = pieces == [None, b'.', None, b'.', None] and len(args) == 3 and args[0] in hdr and args[1] in pay and args[2] in sig
            return None if ok_ else 'attached compact token is not protected.payload.base64url(signature)'
        ok_ = pieces == [None, b'..', None] and len(args) == 2 and args[0] in hdr and args[1] in sig
        return None if ok_ else 'detached compact token is not protected..base64url(signature)'
    A.require('compact-encoder/token=protected.payload.signature', paths, r_cj, replay=REPLAY)

    # ---- JSON encoders: SigningData ----------------------------------------------------------------------------------------------------
    SD = S['SigningData']
    f = prog.one(r'utils::<impl at [^>]*>::new$', sig=r'SigningData')
    paths, ex = A.paths(f)
    okp = [p for p in paths if p.kind == 'return' and p.is_ok()]

    def r_sd(p):
        d = p.payload()
        ph = d.fields[SD.index('protected_header')]
        t = strip(p.term(d.fields[SD.index('signing_input')]))
        if not (t[0] == 'app' and re.search(r'create_message$', t[1])):
            return 'signing input is not create_message(..)'
        if strip(t[2][1]) != ('leaf', 'processed_payload'):
            return 'signing input payload part is not the processed payload'
        a0 = strip(t[2][0])
        if isinstance(ph, VAgg) and ph.variant == 'Some':
            pht = strip(p.term(ph.fields[0]))
            if not (pht[0] == 'field' and pht[3] == 'Ok' and apps(pht, r'encode_b64_json$')):
                return 'protected segment is not encode_b64_json(header)'
            return None if (a0 == pht or is_sub(t[2][0], pht)) else 'signing input does not start with the protected segment placed in the token'
        return None if not mentions(a0, r'protected_header') else 'protected header signed but not emitted'
    A.require('json-encoders/signing-data-signs-the-emitted-protected-segment', okp, r_sd, replay=REPLAY)

    f = prog.one(r'utils::<impl at [^>]*>::into_signature$')
    paths, ex = A.paths(f)
    JS = S['JwsSignature']

    def r_is(p):
        if p.kind != 'return' or not isinstance(p.val, VAgg):
            return 'not field-wise'
        # two structs are called JwsSignature (encoder / decoder); field order header, protected, signature in both
        hdr, prot, sig = p.val.fields[JS.index('header')], p.val.fields[JS.index('protected')], p.val.fields[JS.index('signature')]
        if field_path(strip(p.term(prot))) != ('self', [('', SD.index('protected_header'))]):
            return 'emitted protected segment is not the signed one'
        if strip(p.term(hdr)) != ('leaf', 'unprotected_header'):
            return 'emitted unprotected header is not the recipient\'s'
        st_ = strip(p.term(sig))
        return None if (st_[0] == 'app' and re.search(r'encode_b64$', st_[1]) and strip(st_[2][0]) == ('leaf', 'signature')) else 'signature not base64url-encoded'
    A.require('json-encoders/signature-record-carries-signed-protected-segment', paths, r_is, replay=REPLAY)

    for enc, ret in (('flattened', 'FlattenedJwsEncoder'), ('general', 'GeneralJwsEncoder')):
        cands = [g for g in prog.find(r'encoder::<impl at [^>]*>::new$') if ret in g.ret_ty or (enc == 'general' and 'RecipientProcessingEncoder' in g.ret_ty)]
        if len(cands) != 1:
            raise Refuse('%s encoder constructor: %d candidates' % (enc, len(cands)))
        paths, ex = A.paths(cands[0], inline=r'encoder::<impl at [^>]*>::new::\{closure')
        okp = [p for p in paths if p.kind == 'return' and p.is_ok()]

        def r_je(p, enc=enc):
            rs = S['Recipient']
            prot = ('field', ('leaf', 'recipient' if enc == 'flattened' else 'first_recipient'), rs.index('protected'), '')
            me = [c_ for c_ in p.find_calls(r'encode_if_b64$')]
            if not me or strip(me[0].args[0]) != ('leaf', 'payload') or strip(me[0].args[1]) != prot:
                return 'payload not prepared by encode_if_b64(payload, protected header of the recipient)'
            sd = [c_ for c_ in p.find_calls(r'SigningData::new$') if p.took(c_, 'Ok')]
            if not sd or strip(sd[0].args[1]) != prot or not is_sub(sd[0].args[0], me[0].ret):
                return 'signing data not computed over (prepared payload, protected header)'
            return None
        A.require('%s-encoder/signs-the-prepared-payload-under-the-recipient-header' % enc, okp, r_je, replay=REPLAY)


def kani_part(ctx):
    import kanirun
    fn = ['CharSet::validate']
    names = ['c08_charset_default_2', 'c08_charset_urlsafe_2', 'c08_twin_must_fail']
    if ctx.tier == 'thorough':
        names += ['c08_charset_default_1', 'c08_charset_urlsafe_1']
    specs = [dict(harness=h, timeout_s=1200, functions=fn, must_fail=h.endswith('must_fail'),
                  bounds='every byte string of the length in the harness name (1, 2), both character sets') for h in names]
    res = kanirun.run_many(specs)
    kanirun.judge(ctx, specs, res, 'c08')


def storage_signing(ctx):
    """JwkDocumentExt::create_jws (CoreDocument; the IotaDocument impl forwards to it): the async body is executed symbolically from
    its initial state (every awaited storage call completes immediately with an unconstrained result); on every successful path
    the protected header is exactly what the options ask for, the key id is looked up for the resolved method, the signature is
    produced over the encoder's signing input with that key, and the token is the encoder's output with that signature."""
    import c09
    prog, info = load(c09.CRATES, src_only=c09.SRC)
    ctx.extra['mir_storage'] = info
    A = Auditor(ctx, prog)
    REP = {'scenario': 'storage_signing'}
    f = prog.one(r"^jwk_document_ext::<impl at [^>]*>::create_jws::\{closure#0\}$")
    fi = prog.one(r"^iota_document::<impl at [^>]*>::create_jws::\{closure#0\}$")
    paths, ex = c09.coroutine_paths(ctx, prog, f, max_paths=400000)
    OPT = prog.structs['JwsSignatureOptions']
    okp = [p for p in paths if p.kind == 'return' and isinstance(c09.result_of(p), VAgg) and c09.result_of(p).variant == 'Ok']
    if not okp:
        raise Refuse('create_jws has no successful path')
    ctx.bounds.append('create_jws: all %d paths of the async body from its initial state, awaited calls complete immediately' % len(paths))
    # the options argument: the captured reference whose fields the body branches on
    base = None
    for c in okp[0].calls:
        for a in c.args:
            for sub in subterms(a):
                fp = field_path(sub) if isinstance(sub, tuple) and sub and sub[0] == 'field' else None
                if fp and fp[0] == 'co' and len(fp[1]) >= 2 and re.search(r'set_(typ|kid|nonce|cty|url|custom)$', c.name) and base is None:
                    base = ('field', ('leaf', 'co'), fp[1][0][1], '')
    if base is None:
        # no option was Some on that path: look through all successful paths
        for p in okp:
            for c in p.find_calls(r'set_(kid|typ|nonce|cty|url|custom)$'):
                for sub in subterms(c.args[1]):
                    fp = field_path(sub) if isinstance(sub, tuple) and sub and sub[0] == 'field' else None
                    if fp and fp[0] == 'co' and len(fp[1]) >= 2:
                        base = ('field', ('leaf', 'co'), fp[1][0][1], '')
            if base:
                break
    if base is None:
        raise Refuse('options argument of create_jws not identified')

    def opt(name):
        return ('field', ('deref', base), OPT.index(name), '')

    def from_opt(t, name):
        """t is (a clone of) the content of options.<name>"""
        return strip(t) == ('field', opt(name), 0, 'Some')

    def r_sign(p):
        rm = [c for c in p.find_calls(r'CoreDocument::resolve_method$') if p.took(c, 'Some')]
        if len(rm) != 1 or not mentions(rm[0].args[0], r'^co$') or strip(rm[0].args[2]) != ('agg', 'Option', 'None', ()):
            return 'method not resolved (unscoped) in this document by the given fragment'
        method = ('field', rm[0].ret, 0, 'Some')
        data = [c for c in p.find_calls(r'VerificationMethod::data$') if strip(c.args[0]) == method]
        if not data:
            return 'key material not read from the resolved method'
        jwk = [s for s in subterms(p.term()) if False]
        jwk_t = None
        for c in p.find_calls(r'JwkStorage>::sign$'):
            jwk_t = strip(c.args[3])
        if jwk_t is None or not is_sub_term(jwk_t, data[0].ret):
            return 'the public key handed to the signer is not the resolved method\'s JWK'
        # ---- header
        hn = p.find_calls(r'JwsHeader::new$')
        if len(hn) != 1:
            return 'header not created once'
        sa = p.find_calls(r'JwsHeader::set_alg$')
        al = [c for c in p.find_calls(r'Jwk::alg$') if is_sub_term(c.args[0], data[0].ret)]
        if len(sa) != 1 or not al:
            return 'alg not set from the method key'
        ps = [c for c in p.find_calls(r'<impl str>::parse$') if p.took(c, 'Ok')]
        if not ps or strip(sa[0].args[1]) != ('field', ps[-1].ret, 0, 'Ok'):
            return 'header alg is not the parsed alg of the method key'
        if p.took(al[0], 'Some') and not is_sub_term(ps[-1].args[0], al[0].ret):
            return 'header alg parsed from something else than the key\'s alg'
        sk = p.find_calls(r'set_kid$')
        if len(sk) != 1:
            return 'kid set %d times' % len(sk)
        if p.took(opt('kid'), 'Some'):
            if not from_opt(sk[0].args[1], 'kid'):
                return 'kid override not used as the header kid'
        elif p.took(opt('kid'), 'None'):
            mid = [c for c in p.find_calls(r'VerificationMethod::id$') if strip(c.args[0]) == method]
            if not mid or strip(sk[0].args[1]) != strip(mid[0].ret):
                return 'without an override the header kid is not the resolved method\'s id'
        else:
            return 'options.kid not examined'
        sj = p.find_calls(r'set_jwk$')
        if p.took(opt('attach_jwk'), 'true'):
            if len(sj) != 1 or strip(sj[0].args[1]) != jwk_t:
                return 'attach_jwk: the attached key is not the method\'s JWK'
        elif p.took(opt('attach_jwk'), 'false'):
            if sj:
                return 'jwk attached although not asked for'
        else:
            return 'options.attach_jwk not examined'
        sb, sc = p.find_calls(r'set_b64$'), p.find_calls(r'set_crit$')
        b64 = opt('b64')
        unenc = p.took(b64, 'Some') and p.took(('field', b64, 0, 'Some'), 'false')
        if unenc:
            bv = sb[0].argvals[1] if len(sb) == 1 and sb[0].argvals else None
            if len(sb) != 1 or len(sc) != 1 or not (isinstance(bv, VBool) and p.implies(z3.Not(bv.e))) or "b'b64'" not in term_str(sc[0].args[1]):
                return 'b64=false requested but b64:false / crit:[b64] not both set'
        elif p.took(b64, 'None') or (p.took(b64, 'Some') and p.took(('field', b64, 0, 'Some'), 'true')):
            if sb or sc:
                return 'b64 / crit set although the payload is to be base64url-encoded'
        else:
            return 'options.b64 not examined'
        st = p.find_calls(r'set_typ$')
        if len(st) != 1:
            return 'typ set %d times' % len(st)
        if p.took(opt('typ'), 'Some'):
            if not from_opt(st[0].args[1], 'typ'):
                return 'typ option not used'
        elif p.took(opt('typ'), 'None'):
            if "b'JWT'" not in term_str(st[0].args[1]):
                return 'default typ is not JWT'
        else:
            return 'options.typ not examined'
        for nm, setter in (('cty', r'set_cty$'), ('url', r'set_url$'), ('nonce', r'set_nonce$'), ('custom_header_parameters', r'set_custom$')):
            cs = p.find_calls(setter)
            if p.took(opt(nm), 'Some'):
                if len(cs) != 1 or not from_opt(cs[0].args[1], nm):
                    return 'options.%s not carried into the header' % nm
            elif p.took(opt(nm), 'None'):
                if cs:
                    return 'header %s set although the option is absent' % nm
            else:
                return 'options.%s not examined' % nm
        others = [c for c in p.calls if re.search(r'(JwsHeader|JwtHeader)::set_', c.name) and not re.search(r'set_(alg|kid|jwk|b64|crit|typ|cty|url|nonce|custom)$', c.name)]
        if others:
            return 'header parameter outside the options set: %s' % others[0].name.split('::')[-1]
        # every setter acts on the one header
        for c in sa + sk + sj + sb + sc + st:
            if not is_sub_term(c.args[0], hn[0].ret):
                return '%s applied to another header' % c.name.split('::')[-1]
        # ---- key id, encoder, signature
        md = [c for c in p.find_calls(r'MethodDigest::new$') if p.took(c, 'Ok') and strip(c.args[0]) == method]
        gk = c09.awaited(p, r'KeyIdStorage>::get_key_id$')
        if not md or len(gk) != 1 or strip(gk[0][0].args[1]) != ('field', md[0].ret, 0, 'Ok') or not p.took(c09.ready_val(gk[0][1]), 'Ok'):
            return 'key id not looked up for the digest of the resolved method'
        key_id = ('field', c09.ready_val(gk[0][1]), 0, 'Ok')
        enc = [c for c in p.find_calls(r'CompactJwsEncoder::new_with_options$') if p.took(c, 'Ok')]
        if len(enc) != 1 or not mentions(enc[0].args[0], r'^co$') or not is_sub_term(enc[0].args[1], hn[0].ret):
            return 'encoder not built from the caller\'s payload and the header'
        eo = term_str(strip(enc[0].args[2]))
        if p.took(opt('detached_payload'), 'true'):
            if 'Detached' not in eo or 'NonDetached' in eo:
                return 'detached payload requested but the encoder is not in detached mode'
        elif p.took(opt('detached_payload'), 'false'):
            if 'NonDetached' not in eo:
                return 'attached payload requested but the encoder is in detached mode'
        else:
            return 'options.detached_payload not examined'
        encoder = ('field', enc[0].ret, 0, 'Ok')
        sg = c09.awaited(p, r'JwkStorage>::sign$')
        si = [c for c in p.find_calls(r'CompactJwsEncoder::signing_input$') if strip(c.args[0]) == encoder]
        if len(sg) != 1 or not si or not p.took(c09.ready_val(sg[0][1]), 'Ok'):
            return 'signature not obtained from the key storage'
        call = sg[0][0]
        if strip(call.args[1]) != key_id or strip(call.args[2]) != strip(si[0].ret):
            return 'signer not given (key id of the method, signing input of the encoder)'
        sig = ('field', c09.ready_val(sg[0][1]), 0, 'Ok')
        ij = [c for c in p.find_calls(r'CompactJwsEncoder::into_jws$') if strip(c.args[0]) == encoder and strip(c.args[1]) == sig]
        if not ij:
            return 'token not assembled from the encoder and the produced signature'
        out = strip(p.term(c09.result_of(p).fields[0]))
        if not (out[0] == 'app' and re.search(r'Jws::new$', out[1]) and strip(out[2][0]) == strip(ij[0].ret)):
            return 'returned token is not the assembled one'
        return None
    A.require('create_jws/header-follows-options-key-of-the-resolved-method', okp, r_sign, replay=REP)
    A.no_panic('create_jws/no-panic', paths, replay=REP)

    # the IotaDocument implementation hands the same arguments to its core document's create_jws and returns that result
    ipaths, iex = c09.coroutine_paths(ctx, prog, fi)

    def r_fwd(p):
        if p.kind != 'return':
            return 'panic ' + p.msg
        cd = p.find_calls(r'IotaDocument::core_document$')
        cj = c09.awaited(p, r'<CoreDocument as .*JwkDocumentExt>::create_jws$')
        if len(cd) != 1 or len(cj) != 1 or not mentions(cd[0].args[0], r'^co$'):
            return 'core document create_jws not awaited exactly once'
        call, poll = cj[0]
        if strip(call.args[0]) != strip(cd[0].ret):
            return 'create_jws not called on this document\'s core document'
        caps = [field_path(strip(a)) for a in call.args[1:]]
        if any(c is None or c[0] != 'co' for c in caps) or len({tuple(c[1]) for c in caps}) != 4:
            return 'arguments are not the four distinct captured arguments (storage, fragment, payload, options)'
        if [c[1][0][1] for c in caps] != sorted(c[1][0][1] for c in caps):
            return 'captured arguments handed over in another order'
        return None if strip(p.term(c09.result_of(p))) == strip(c09.ready_val(poll)) else 'result is not the core document\'s result'
    A.require('create_jws[IotaDocument]/forwards-to-the-core-document', ipaths, r_fwd, replay=REP)


def is_sub_term(t, want):
    want = strip(want)
    return any(strip(s) == want or s == want for s in subterms(t))


def main(ctx):
    prog, info = load(CRATES)
    ctx.extra['mir'] = info
    ctx.outside += ['serde_json text of the flattened/general envelopes (escaping of unencoded payloads - observed natively: payloads containing `"` '
                    'do not decode, see DESIGN.md)', 'create_credential_jwt / create_presentation_jwt (claim serialisation in front of create_jws; create_jws itself is encoded)', 'real signatures', 'base64url codec']
    guarded(ctx, 'charset kernel', 'M', lambda: charset_m(ctx, prog))
    guarded(ctx, 'encoder audit', 'M', lambda: run(ctx, prog))
    if os.environ.get('VERIF_SKIP_K') != '1':
        guarded(ctx, 'charset on short byte strings', 'K', lambda: kani_part(ctx))
    # the parts of the statement that other properties' audits decide are re-used here, restricted to the obligations C08 names:
    # recipients of one general token agree on b64 (else a recipient's entry does not decode to the signed payload), and
    # verification selects the method by kid / nonce / scope inside the scope's own relationship set
    import c11
    import c03
    import c04
    guarded(ctx, 'general encoder recipients', 'M', lambda: c11.run(ctx, prog, only=r'^general-encoder/'))
    import c01
    guarded(ctx, 'item accessors (nonce, kid, alg)', 'M', lambda: c01.run(ctx, prog, only=r'^JwsValidationItem::|^decode_signature/|^decode_general/item/'))
    guarded(ctx, 'base64url codec binding', 'M', lambda: c01.codec_binding(ctx, prog))
    # the emitted header is the header that was validated: the derived Serialize of the header types leaves a member out only when
    # it is absent (a value-dependent skip - say of `b64: true` - makes the decoder see another header than the encoder checked)
    import c14
    guarded(ctx, 'header serialisation', 'M', lambda: c14.serde_skips(
        ctx, prog, items=(('JwsHeader', r'jws::header::_::<impl at [^>]*>::serialize$'), ('JwtHeader', r'jwt::header::_::<impl at [^>]*>::serialize$')), replay=REPLAY))

    def verification_side():
        prog2, info2 = load(c03.CRATES, src_only=c03.SRC)
        c03.run(ctx, prog2, only=r'^verify_jws/')
        c04.run(ctx, prog2, only=r'^resolve_method/|^resolve_method_inner/|^resolve_method_ref/|^DIDUrlQuery::')
    guarded(ctx, 'verification side', 'M', verification_side)

    def options_builders():
        # the verification options a caller builds are the ones verification sees: every builder method stores Some(argument) in its
        # own field and passes the other fields on (a setter that "simplifies" a scope to None widens what the token verifies under)
        prog2, info2 = load(['identity_document'], src_only=['identity_verification', 'identity_did'])
        A = Auditor(ctx, prog2)
        JO = prog2.structs['JwsVerificationOptions']
        for fld_ in ('nonce', 'method_scope', 'method_id'):
            f = prog2.one(r'jws_verification_options::<impl at [^>]*>::%s$' % fld_)
            paths, ex = A.paths(f)

            def r_set(p, fld_=fld_):
                if p.kind != 'return':
                    return 'panic ' + p.msg
                t = p.term()
                # the options value is `self` with overridden fields: ('over', self, (((variant, index), value), ...))
                if not (isinstance(t, tuple) and t[0] == 'over' and strip(t[1]) == ('leaf', 'self')):
                    return 'result is not the options value it was called on'
                ov = list(t[2])
                if len(ov) != 1 or ov[0][0][1] != JO.index(fld_):
                    return '%s(value) writes other fields than its own' % fld_
                v = ov[0][1]
                if not (isinstance(v, tuple) and v[0] == 'agg' and v[2] == 'Some' and len(v[3]) == 1):
                    return '%s(value) does not store Some(value)' % fld_
                if strip(v[3][0]) != ('leaf', 'value'):
                    return '%s(value) stores something derived from the value, not the value' % fld_
                return None
            A.require('JwsVerificationOptions::%s/stores-the-argument-as-given' % fld_, paths, r_set,
                      replay={'scenario': 'storage_signing', 'cex': {'only': 'scope' if fld_ == 'method_scope' else ('nonce' if fld_ == 'nonce' else 'method id')}})
    guarded(ctx, 'verification options builders', 'M', options_builders)
    guarded(ctx, 'storage-backed signing', 'M', lambda: storage_signing(ctx))
